"""C01 - incommensurable quantities are never silently combined.

Every operation that only makes sense for operands of one physical dimension is run, through the real unyt code, on operands
whose element values, unit scales and unit offsets are z3 reals.  An oracle written for this check (tables below, taken from the
property text, not from unyt's own tables) says which operations need commensurable operands, which parameters of an array
function are merged into one result, and what the dimension of each operand is.  Per explored path:

    returned normally  =>  operands commensurable  or  a documented exception holds on this path
                           (==/!= answered by the all-False/all-True constant; the bare operand is all zero - a path fact
                           produced by the fork inside np.count_nonzero; an ordering comparison has a dimensionless operand)
    raised             =>  every operand's element terms and unit are what they were before the call
"""
import itertools
import operator

import numpy as np

from symx.core import DomainExit, SymBool, SymReal, obj0
from symx.shims import HarnessError

from .common import as_ufunc_global
from .common import And, Case, Iff, Not, Or, all_exact, call, check_names, dims_catalogue, elements, exact_eq

LEVEL = "other"
BATCH_REPLAY = True  # the cases build their own registries and never touch global unyt state
CONFORM = {"quick": 300, "thorough": 1000}
MANIFEST = dict(
    category="other",
    text=("Bounded symbolic execution of the real dispatch code (symx): every binary key of unyt's ufunc table in its call / out= / "
          "outer / at / reduce(initial=) / operator / in-place forms, every value-merging NumPy handler, __setitem__, .to()/in_units and "
          "Unit +/- are run on operands whose elements, unit scales and offsets are z3 reals; an independent oracle table says which "
          "operations need commensurable operands; sequence operands (lists / tuples of quantities, also with bare numbers before or "
          "behind the quantities, 0-d array members, three members, one level of nesting) are an operand-kind axis of every family, "
          "and unyt_array(sequence) is run as a merging call; per path z3 decides 'returned normally => commensurable or documented exception "
          "(==/!= constant answer; bare operand all zero on this path; ordering comparison with a dimensionless operand)' and 'raised "
          "=> every operand term and unit unchanged'. Discrete axes (operation, form, operand kind, dimension pair, shape <= (2,2)) "
          "are enumerated; any model is replayed on plain unyt. Two further discrete axes: CALL SPELLING - every array-function call shape, "
          "the conversion entry points and the constructor are also run with their arguments handed over in the other ways the documented "
          "signature permits (optional parameters positionally / by keyword, operands by keyword, tuple for list, explicit defaults; 74 "
          "spellings); CALL HISTORY - the call under test is preceded, in the same path and on units of the same registry, by earlier "
          "calls (an ordering comparison in both operand orders, ==, a free key, a logical key, the zero exemption, the same key / call "
          "shape on the unit with itself, with a commensurable unit, with a same-spelling unit of another registry, a conversion, a "
          "merging function), so that anything the library remembers between calls is in place; all obligations of the call under "
          "test are unchanged. Three more discrete axes: OPEN OPERAND SLOT - an optional value operand left open (np.clip with one bound "
          "None / omitted, in every positional / keyword spelling, also with out=) next to one that is given; OPTIONAL VALUE OPERANDS - "
          "np.pad constant_values / end_values, np.diff prepend / append, np.ediff1d to_begin / to_end, np.isclose / np.allclose; "
          "NEAR-MISS DIMENSIONS - a catalogue written as exponent vectors around `length` (one exponent moved by a fraction, negated, "
          "doubled, permuted, one more base dimension for every base dimension) walked over every ordered pair by all 18 keys, the 4 "
          "conversion entry points and __setitem__. OPERAND EXTENT - size-0 operands ((0,), (0,2), (2,0), the list []) as an operand-shape "
          "axis of every merging family: 39 array-function call shapes built for empty extents (empty next to non-empty, non-empty next to "
          "empty, both empty), all 18 keys in call / where= / operator / out= / outer / in-place form on the extent pairs broadcasting allows, "
          "__setitem__ of an empty value into an empty selection, the fill / put / searchsorted methods, unyt_array(sequence of empty "
          "quantities); an empty quantity still carries its unit (oracle unchanged), an empty bare operand is exempt."),
    design="DESIGN.md section 4 C01",
    technique="symbolic execution of the real Python code over z3 real terms; SMT obligations per path; counterexample replay")
EXPLANATION = (
    "The real unyt_array.__array_ufunc__ (binary branch, out=, ==/!= early return, zero exemption via np.count_nonzero), "
    "_coerce_iterable_units, Unit.__eq__/same_dimensions_as, _get_conversion_factor, unyt_array.__eq__/__ne__/__setitem__/"
    "in_units/to/to_value/convert_to_units, get_units/_validate_units_consistency(_v2) and the value-merging handlers of "
    "_array_functions.py are executed on operands whose element values, unit scales and offsets are z3 reals. The oracle (which "
    "operation needs commensurable operands, which parameters are merged, the dimension of each operand) is a table written for "
    "this check from the property text. Per explored path: if the call returned, the operands are commensurable or z3 proves the "
    "documented exception from the path condition (all elements of the bare operand are 0; the ==/!= answer is the constant; an "
    "ordering comparison has a dimensionless operand); if it raised, z3 proves every operand's element terms and unit fields are "
    "what they were before the call. The zero exemption and unyt's 1e-9 same-unit band are path splits made by the real code "
    "(np.count_nonzero, math.isclose) on symbols, so 'the bare operand is zero' and 'two different dimensions whose scales happen "
    "to agree' are solver cases, not samples. A python sequence operand is described to the oracle member by member (bare number / "
    "quantity of dimension D0 / D1): where bare values are read in the receiving array's unit (assignment-like calls) only the members "
    "that carry units are compared, elsewhere a bare member counts as dimensionless; after a raise the sequence must still hold the "
    "same member objects and every member quantity its element term and unit. "
    "The verdict must not depend on how the arguments are spelled nor on what was called before: each array-function call shape, "
    ".to()/in_units/to_value/convert_to_units and unyt_array(seq) is re-run in every other spelling NumPy's / unyt's documented "
    "signature allows (the oracle - which two operands are merged - is the same for all spellings), and ufunc keys, array functions, "
    "__setitem__ and the conversions are re-run after earlier calls made in the same path on units of the same registry (equal and "
    "hash-equal Unit objects; the engine restores module-level state only between paths). The earlier calls are chosen so that "
    "their verdict differs from that of the call under test on the same unit pair (ordering comparisons and free keys accept what "
    "add/maximum/... must refuse) or so that they succeed on a pair that is spelled the same; their element values are pinned "
    "numerals, the unit scales stay symbols, and the obligations of the call under test are the unchanged ones above. "
    "An optional value operand may be left open: np.clip is run with one bound None or omitted in every spelling of NumPy's signature "
    "(old and new parameter names, out= positional / keyword / the clipped array itself) - the operands combined are then the array and "
    "the bound that is given, and the same obligations apply. The optional parameters whose VALUES enter the result (np.pad "
    "constant_values / end_values, np.diff prepend / append, np.ediff1d to_begin / to_end) and the operands of np.isclose / np.allclose "
    "are operands of the oracle like the main ones (bare values are read in the array's unit). Whether two dimensions are the same "
    "must be decided on the whole exponent vector: besides the registry's catalogue, a catalogue of NEAR-MISS dimensions written in "
    "this file as exponent vectors (the oracle's identity of a dimension is its vector) is walked over every ordered pair - vectors "
    "that agree after truncation / rounding / negation / sorting / summing of the exponents, or in all but one base dimension - with "
    "symbolic scales on both sides. "
    "The EXTENT of an operand must not matter either: an empty quantity (a selection that matched nothing, an accumulator without data) "
    "still carries its unit, so every merging family is re-run with size-0 operands - empty next to non-empty in both positions, and "
    "both empty - under the unchanged oracle (returned normally => commensurable or documented exception; raised => operands intact). "
    "An empty BARE operand (ndarray of size 0, the list []) has neither a unit nor a non-zero element and is exempt (in a ufunc through "
    "the zero exception, which holds vacuously; in a merging function only the operands that carry units are compared). An empty "
    "operand has no element symbols: what the solver decides in these cases are the unit scales (unyt's 1e-9 same-unit band, the "
    "dimensionless-scale band of the known defects) and the elements of the non-empty partner."
)
BOUNDS = {
    "quick": "18 commensurability-requiring binary keys of _ufunc_registry x forms {call, call with where= / casting= / subok= spelled out, operator, out=quantity, out=ndarray, outer, at, "
             "reduce(initial=bare), in-place} x operand kinds {same unit, same dimension other unit, different dimension, dimensionless, "
             "scaled-dimensionless (percent-like, ANY positive scale), bare scalar, bare array, python list, list of quantities "
             "same/other/mixed, and the same-spelling kinds: same symbol and scale but another dimension in a second registry, same symbol "
             "and dimension with another scale in a third registry, a symbol removed and re-added with another dimension while the old "
             "Unit is alive (these are paired with the same-unit operand / list and with each other)} (left: the quantity kinds + bare "
             "scalar + bare array; right: all) x shapes ((),()) in all forms, and for "
             "add/subtract/less/equal/not_equal/maximum/remainder/hypot/divmod also ((2,),()) without outer/out=quantity and ((2,),(2,)) "
             "in call and in-place form; every ordered pair of 12 dimensions (temperature also with symbolic "
             "offsets) per key in call and operator form, once with differently named units and once with ONE symbol of ONE scale defined per "
             "dimension in separate registries; 9 unit-free binary keys (raise => operands intact only); 31 array-function call "
             "shapes (concatenate x2, stack, vstack, hstack, dstack, column_stack, block, append, where, choose, select x2, linspace, "
             "geomspace, intersect1d, union1d, setdiff1d, isin, interp, searchsorted, clip x2, insert, place, put, putmask, put_along_axis, "
             "fill_diagonal, copyto x2) x 6 kinds of first operand x 11 kinds of second; __setitem__ (5 index forms) and the "
             "fill/put/searchsorted methods x 11 value kinds; SEQUENCE kinds beyond the three core lists (same / other / mixed unit): "
             "[bare, q] and [q, bare], tuples (same / other / mixed / bare first / bare last), members that are 0-d unyt_array objects, "
             "three members with the foreign quantity first / in the middle / last and with one or two bare numbers in front, one level "
             "of nesting ([[q, q]], [(q, q)], [[bare, q]]) - 23 kinds - as the value of __setitem__ (15 index forms: item, slice, "
             "ellipsis, boolean mask, integer list / array, partial slice / fancy / mask of a 3-array, row and broadcast row of a "
             "(2,2) array) into a same-dimension / other-dimension / dimensionless / scaled-dimensionless target, as second operand "
             "of every array-function call shape that accepts the shape, as right operand of 9 ufunc keys (all forms; the kinds unyt's "
             "coercion accepts: add / less / equal in call and operator form), and as the argument of unyt_array(seq) / "
             "unyt_array(seq, registry=); to/in_units/to_value/convert_to_units with string and Unit targets and "
             "Unit +,-,+=,-= over every ordered dimension pair; .to() family also onto same-spelling Unit objects of other registries. "
             "CALL SPELLINGS: 74 further spellings of the array-function call shapes (e.g. copyto(dst, src, casting, where) with "
             "casting / where positional, by keyword, in either order, mask as list / all-True array / explicit True; clip a_min= a_max= / "
             "min= max= / out positional; concatenate axis positional / keyword / None, tuple; select default= ; insert / put / place / "
             "putmask / searchsorted / isin / intersect1d / linspace ... operands by keyword, trailing optionals positional) x first "
             "operand {same, other dimension} x 9 second-operand kinds; 2 further spellings of each conversion entry point and 4 of "
             "the constructor. CALL HISTORY (earlier calls in the same path; element values of the earlier calls pinned, scales "
             "symbolic): every one of the 18 keys after {less(a, b), multiply(a, b)} on the pairs (unit, dimensionless), (unit, bare), "
             "(unit, other dimension), (bare, unit) in call / operator form; add, maximum, less after 15 histories {less call, >= "
             "operator, less swapped, equal, multiply, logical_and, add on the same pair, add with literal 0, add unit+itself, maximum "
             "with a commensurable unit, .to() swapped, concatenate, add-then-greater, add / .to() with the same spelling at another "
             "scale} on 7 operand-kind pairs; the in-place keys and maximum on (2,) arrays (call, in-place, at, out=) after the two main "
             "histories; each array-function call shape after {less on the same pair, the same call on the unit with itself / with a "
             "commensurable unit / with the same-spelling unit of another scale} on (same, other dimension), (same, dimensionless), "
             "(same, same spelling other dimension); __setitem__ (5 index forms) after 7 histories on 3 pairs; the 4 conversion entry "
             "points on 5 unit pairs in 3 spellings, unit / string target, after 5 histories; plus the engine's sampled @after "
             "variants (another case first, other registry). OPERAND EXTENT (size 0): 30 + 9 array-function call shapes written for empty "
             "extents (concatenate (axis 0 / 1, three members with the empty one first / in the middle / last), stack, vstack, hstack, dstack, "
             "column_stack, block, append, where, choose, select (+ default), linspace, intersect1d, union1d, setdiff1d, isin, searchsorted, "
             "clip, insert, diff prepend / append, ediff1d to_begin / to_end, isclose, allclose; place, put (empty / non-empty index), "
             "putmask, put_along_axis, fill_diagonal, copyto (+ where=), clip out=) on the extent pairs ((2,),(0,)), ((0,),(2,)), ((0,),(0,)), "
             "((0,),()), ((0,),(1,)), ((2,2),(0,2)), ((2,2),(2,0)) ... each shape admits x 9 operand-kind pairs (same / other dimension in both "
             "orders, other unit, dimensionless, scaled-dimensionless, empty bare array, the list [], bare array next to an empty "
             "quantity, same spelling other dimension), 7 call shapes also after two earlier calls; 9 keys x 10 kind pairs x extent "
             "pairs {(0,)+(0,), (0,)+(), ()+(0,), (0,)+(1,), (1,)+(0,)} x forms {call, where=/casting=, operator, out=quantity, out=ndarray, "
             "outer, in-place}, the other 9 keys on (0,)+(0,) x 3 pairs; __setitem__ x 8 empty forms (a[0:0], a[[]], all-False mask, "
             "e[:], e[...], rows of a (2,2) array, scalar / (1,) value into an empty target) x 9 pairs; 3 methods; unyt_array(list / tuple "
             "of 2-3 empty members: same / other unit / other dimension / scaled-dimensionless / empty bare array / []) x extents (0,), (0,2)",
    "thorough": "as quick with all 11 kinds on both sides, every distinct dimension of the registry pairwise (51: 2601 ordered pairs), and "
                "the shape pairs ((2,),(2,)) in all forms (outer only for the keys whose loops do not branch) and ((),(2,)) in all forms, ((2,2),(2,)) call/operator/in-place/out=, ((2,),(2,2)) call/operator, ((2,2),()) "
                "call/in-place/at/reduce, ((2,2),(2,2)) call; for the comparison and min/max keys (whose NumPy loops branch per element "
                "pair) the (2,2) shapes are run with quantity kinds on both sides only; the 23 further sequence kinds with all 18 keys "
                "(right operand: all forms on ((),seq) and call/operator/in-place/out= on ((2,),seq); left operand: call and operator "
                "form) and with dimensionless / scaled-dimensionless / bare-array first operands of the array functions; call spellings x 5 "
                "first-operand kinds x 16 second-operand kinds; call history: all 18 keys x 15 histories x 20 operand-kind pairs (call, "
                "operator, out=, outer; (2,) arrays with in-place / at / out= after the two main histories for the in-place keys, maximum, "
                "less, hypot), array functions x 8 histories x 8 pairs (other spellings after 3 histories on one pair), __setitem__ x 7 "
                "histories x 7 pairs, conversions x 9 histories x 10 pairs; near-miss dimensions: 43 exponent vectors (further "
                "fractions 2/3, 5/2, -3/2, half powers of every other base dimension), call and operator form; operand extent: 15 kind "
                "pairs, all 18 keys on 7 extent pairs (also (0,2)+(2,), (2,0)+(2,0)), every empty call shape after the two earlier calls, "
                "all 6 constructor spellings, member extent (2,0)",
}
OUTSIDE = ("IEEE rounding/overflow/nan (A1): a path on which NumPy's loop divides by zero is dropped; integer/complex payloads and the "
           "integer-only ufuncs (bitwise_*, shifts, ldexp); power/logaddexp/logaddexp2/logical_xor are classified (no demand) but not "
           "run; dask, pint/astropy inputs, masked arrays, user subclasses; extents > 2 (size-0 extents (0,), (0,2), (2,0), (0,0) are walked; not crossed with the call-spelling and sequence-kind axes; no ufunc.at / reduce, np.interp, np.pad on empty operands); reduceat; calls in which no argument is itself a "
           "unyt_array (np.add.reduce([a, b]) on a python list; np.append(x, [q1, q2]) ravels the list to bare numbers: NumPy strips "
           "the units before unyt is entered); reduce(initial=<quantity>) (NumPy casts `initial` to the array's float dtype before unyt "
           "runs, which an object payload cannot reproduce; the bare-number variant is checked); the built-in CGS<->MKS electromagnetic "
           "unit pairs that .to() converts by design (C03). np.divmod/nextafter/copysign/heaviside have no object-dtype loop: the real "
           "__array_ufunc__ is entered with a stand-in ufunc object (call, operator, out= forms only). Interpretation: in ufuncs and in "
           "merging functions a bare number/sequence is a dimensionless operand (that is what the property's zero exception presupposes); "
           "as the VALUE argument of an assignment-like call (__setitem__, fill_diagonal, insert, place, put, putmask, put_along_axis, "
           "copyto, clip limits, searchsorted needle, select default) a bare number/sequence has no dimension of its own and is read in "
           "the receiving array's unit (NumPy assignment semantics, documented in _validate_units_consistency_v2): only operands that "
           "carry units are compared there - the same reading is applied to the bare members of a sequence that also holds quantities; "
           "in a ufunc the zero exception is extended to such bare members (unyt refuses these sequences in every ufunc anyway). "
           "Sequences: more than three members, nesting deeper than one level, generators / other iterables, object-dtype ndarrays "
           "holding quantities (unyt refuses dtype O, the shimmed library cannot), numpy scalars as bare members (a symbol cannot live "
           "in a np.float64); unyt_array(seq, <unit>) relabels by design and is not judged. "
           "Call history: histories of at most two earlier calls, taken from the lists in BOUNDS (not every pair of cases); the element "
           "values of the earlier calls are fixed numerals (their unit scales are symbols), so state that depends on WHICH values an "
           "earlier call saw is sampled, not decided; state kept per registry identity is reached only by the in-case histories (the "
           "engine's @after variants build a new registry). Call spellings: the out= / dtype= / casting= parameters of the merging "
           "functions are only passed as None / default (an out= array is a further operand that the property does not name); "
           "np.where has positional-only operands (one spelling + list condition). "
           "np.interp's left= / right= fill values are NOT decided (the A8 kernel model hands a call with a unit-carrying argument to "
           "real NumPy, which refuses the object payload): by hand on plain unyt np.interp(x, xp, fp_m, left=5 s) returns [5, ...] m - "
           "reported as a finding, not part of the claim; np.digitize and other functions unyt has no handler for; out= of np.take / "
           "np.around; an out= tuple with a None member (np.divmod(a, b, out=(None, o)) raises AttributeError in unyt); float-valued "
           "dimension exponents (sympy Float) in the near-miss catalogue. "
           "The shape of the ==/!= constant answer is not checked here (C06/C16).")

NAMES = ["xa", "xb", "xc", "xp", "xt"]

# ------------------------------------------------------------------------------------------------ oracle tables
# written from the property text ("adding, subtracting, ordering, taking min/max, hypot, remainder, arctan2, clipping ..."),
# NOT read from unyt's _ufunc_registry. divmod = (floor_divide, remainder): it returns a remainder, hence needs
# commensurable operands; nextafter steps x1 towards x2, i.e. orders them.
ORDERING = {"greater", "greater_equal", "less", "less_equal"}
EQNE = {"equal", "not_equal"}
REQUIRE = {"add", "subtract", "maximum", "minimum", "fmax", "fmin", "hypot", "remainder", "fmod", "arctan2", "nextafter",
           "divmod"} | ORDERING | EQNE
# binary ufuncs whose operands may legitimately have different dimensions (or for which the property makes no demand):
# only "a raising call leaves its operands intact" is required of them
FREE = {"multiply", "divide", "floor_divide", "power", "matmul", "vecdot", "logaddexp", "logaddexp2", "copysign", "heaviside",
        "logical_and", "logical_or", "logical_xor"}
# classified but not run: NumPy's object-dtype loops for these do not exist or need a concrete exponent (shim would raise where
# float data returns); they carry no commensurability demand anyway
FREE_NOT_RUN = {"power", "logaddexp", "logaddexp2", "logical_xor"}
INTEGER_ONLY = {"ldexp", "bitwise_and", "bitwise_or", "bitwise_xor", "left_shift", "right_shift"}  # no float loop: outside (A1)
FORKING = ORDERING | EQNE | {"maximum", "minimum", "fmax", "fmin"}  # NumPy's object loops branch on every element pair
QUICK_SHAPED = {"add", "subtract", "less", "equal", "not_equal", "maximum", "remainder", "hypot", "divmod"}
REDUCIBLE = {"add", "subtract", "maximum", "minimum", "fmax", "fmin", "hypot"}
OPERATOR = {"add": operator.add, "subtract": operator.sub, "remainder": operator.mod, "divmod": divmod,
            "greater": operator.gt, "greater_equal": operator.ge, "less": operator.lt, "less_equal": operator.le,
            "equal": operator.eq, "not_equal": operator.ne, "multiply": operator.mul, "divide": operator.truediv,
            "floor_divide": operator.floordiv, "power": operator.pow}
REFLECTED = {"add": "__radd__", "subtract": "__rsub__", "remainder": "__rmod__", "divmod": "__rdivmod__",
             "greater": "__lt__", "greater_equal": "__le__", "less": "__gt__", "less_equal": "__ge__",
             "equal": "__eq__", "not_equal": "__ne__", "multiply": "__rmul__", "divide": "__rtruediv__",
             "floor_divide": "__rfloordiv__", "power": "__rpow__"}
INPLACE = {"add": operator.iadd, "subtract": operator.isub, "remainder": operator.imod}

# twin_dim: the SAME symbol "xa" with the SAME scale symbol but ANOTHER dimension, defined in a second registry;
# twin_scale: the same symbol and dimension with another (symbolic) scale in a third registry (commensurable: no C01 demand
# beyond 'a raise leaves the operands intact'); redim_old/redim_new: one registry in which "xa" is removed and re-added with
# another dimension at the same scale while the Unit object made before is still alive (spelling and scale agree, dimension not)
TWIN_KINDS = ["twin_dim", "twin_scale", "redim_old", "redim_new"]
QUANTITY_KINDS = ["same", "samedim", "diffdim", "dimless", "percent"] + TWIN_KINDS
BARE_KINDS = ["bscalar", "barray", "blist"]
QLIST_CORE = ["qlist_same", "qlist_diff", "qlist_mixed"]
KINDS = QUANTITY_KINDS + BARE_KINDS + QLIST_CORE  # the kinds that are paired with each other in the full matrix
# Sequences that carry units: kind -> (container, nested, members). Member codes: b = bare number; A / C = unyt_quantity in xa /
# xc (xc is the other dimension); a / c = a 0-d unyt_ARRAY (not a unyt_quantity) in xa / xc. The three core kinds are paired with
# every other kind; the rest (heterogeneous sequences with a bare number in front of / behind the quantities, tuples, members that
# are 0-d arrays, three members with the odd one at each position, one level of nesting) are paired with the quantity kinds that
# matter for them (same / other dimension / dimensionless target), see cases().
SEQ = {
    "qlist_same": (list, False, "AA"), "qlist_diff": (list, False, "CC"), "qlist_mixed": (list, False, "AC"),
    # a bare number and a quantity in one sequence (xa and xc trade places through the other operand: same / diffdim)
    "qlist_bC": (list, False, "bC"), "qlist_Cb": (list, False, "Cb"),
    # tuples
    "qlist_tup_same": (tuple, False, "AA"), "qlist_tup_diff": (tuple, False, "CC"), "qlist_tup_mixed": (tuple, False, "AC"),
    "qlist_tup_bC": (tuple, False, "bC"), "qlist_tup_Cb": (tuple, False, "Cb"),
    # members are 0-d unyt_array objects
    "qlist_arr_diff": (list, False, "cc"), "qlist_arr_mixed": (list, False, "ac"), "qlist_arr_bC": (list, False, "bc"),
    "qlist_arr_Cb": (list, False, "cb"),
    # three members: the foreign quantity first / in the middle / last, bare numbers in front
    "qlist_3AAC": (list, False, "AAC"), "qlist_3ACA": (list, False, "ACA"), "qlist_3CAA": (list, False, "CAA"),
    "qlist_3bAC": (list, False, "bAC"), "qlist_3bbC": (list, False, "bbC"), "qlist_3bCb": (list, False, "bCb"),
    "qlist_3tup_bbC": (tuple, False, "bbC"),
    # one level of nesting: [[q, q]], shape (1, 2)
    "qlist_nest_same": (list, True, "AA"), "qlist_nest_diff": (list, True, "CC"), "qlist_nest_mixed": (list, True, "AC"),
    "qlist_nest_bC": (list, True, "bC"), "qlist_nest_tup_mixed": (tuple, True, "AC"),
}
QLIST_KINDS = list(SEQ)
SEQ_NEW = [k for k in SEQ if k not in QLIST_CORE]
SEQ3 = [k for k in SEQ if len(SEQ[k][2]) == 3]
SEQ_NEST = [k for k in SEQ if SEQ[k][1]]
SEQ2 = [k for k in SEQ_NEW if k not in SEQ3 and k not in SEQ_NEST]
LISTS = ["blist"] + QLIST_KINDS
# sequences unyt's coercion accepts when the members are commensurable (all others hold a bare number next to a quantity of a
# non-trivial unit, or two dimensions: the coercion refuses them before the ufunc's own rule is consulted)
SEQ_COERCIBLE = ["qlist_tup_same", "qlist_tup_diff", "qlist_arr_diff"] + SEQ_NEST
SEQ_QUICK_COERCIBLE = ["qlist_tup_diff", "qlist_arr_diff", "qlist_nest_mixed", "qlist_nest_bC"]


def seq_shape(kind):
    _, nested, members = SEQ[kind]
    return (1, len(members)) if nested else (len(members),)


def twin_ok(k0, k1):
    """the twin kinds are paired with the operands they can be confused with (same spelling), not with the whole matrix"""
    t0, t1 = k0 in TWIN_KINDS, k1 in TWIN_KINDS
    if not (t0 or t1):
        return True
    if "redim_old" in (k0, k1) or "redim_new" in (k0, k1):
        return {k0, k1} == {"redim_old", "redim_new"}
    other = k1 if t0 else k0
    if t0 and t1:
        return k0 != k1
    return other in ("same", "qlist_same")

# labels of the obligations that fail on the unchanged tree (each is listed in known_findings.json); kept apart from the
# obligation next to them that must hold even with the defect, so that nothing else is masked
L_ZERO = "zero exemption granted to an all-zero list of quantities"
L_EQD = "==/!= with a dimensionless operand is not answered by the constant"
L_DIVMOD = "divmod returns for incommensurable operands"
L_REDINIT = "reduce(initial=nonzero bare number) on a dimensional array returns"
L_SETD = "__setitem__ stores a dimensionless quantity into a dimensional array"
L_SETL = "__setitem__ stores a list of quantities ignoring their units"
L_COPYTO = "copyto without mask returns for incommensurable operands (dst relabelled)"
L_COPYLIST = "copyto stores a list of quantities ignoring their units"
L_METHOD = "ndarray method not overridden by unyt combines incommensurable operands"
L_SETNEST = "__setitem__ stores a nested sequence of quantities ignoring their units"
L_CTOR = "unyt_array(sequence) drops the units of the quantities in it"
L_CLOSE = "isclose/allclose read a dimensionless quantity in the unit of the other operand"
L_CLOSELIST = "isclose/allclose read a sequence of quantities as bare numbers"
L_NEST = "a nested sequence of quantities is read as bare numbers by a binary ufunc"


def binary_keys(mods):
    """the binary keys of the real table, each classified by the oracle table above (an unclassified key is a harness error)"""
    out = []
    for k in mods["UA"].unyt_array._ufunc_registry:
        if getattr(k, "nin", None) != 2:
            continue
        n = k.__name__
        if n not in REQUIRE and n not in FREE and n not in INTEGER_ONLY:
            raise HarnessError(f"C01 oracle table does not classify ufunc {n!r}")
        out.append(n)
    return sorted(set(out))


# ------------------------------------------------------------------------------------------------ operands

def _data(o):
    return o.d if hasattr(o, "units") else o


def _ufacts(o):
    u = getattr(o, "units", None)
    if u is None:
        return None
    return (str(u), u.dimensions, u.base_value, u.base_offset)


def _members(seq):
    """the member objects of a (possibly nested) python sequence, depth first"""
    out = []
    for m in seq:
        if isinstance(m, (list, tuple)):
            out.append(m)
            out += _members(m)
        else:
            out.append(m)
    return out


class Opd:
    """one operand: the python value handed to the operation + the oracle's view of it"""

    def __init__(self, kind, value, dim, elems, parts, bare, shape=None, adim=None, bare_members=()):
        self.kind, self.value, self.dim, self.elems, self.parts, self.bare, self.shape = kind, value, dim, elems, parts, bare, shape
        # adim: the dimension of the members that CARRY units (what counts where a bare number is read in the receiving array's
        # unit); dim: the dimension when a bare member counts as dimensionless. They differ for heterogeneous sequences only.
        self.adim = dim if adim is None else adim
        self.bare_members = list(bare_members)  # element terms of the bare members of a sequence that also holds quantities
        # parts: the array objects whose content must survive a raising call
        self.snap = [(o, list(elements(_data(o))), _ufacts(o)) for o in parts]
        # a python sequence handed to the call must still hold the same member objects afterwards
        self.seq_snap = _members(value) if isinstance(value, (list, tuple)) else None

    def unchanged(self):
        cs = []
        if self.seq_snap is not None:
            now = _members(self.value)
            cs.append(len(now) == len(self.seq_snap) and all(x is y for x, y in zip(now, self.seq_snap)))
        for o, before, uf in self.snap:
            cs.append(all_exact(elements(_data(o)), before))
            now = _ufacts(o)
            if uf is None or now is None:
                cs.append(uf is None and now is None)
            else:
                cs += [now[0] == uf[0], now[1] == uf[1], exact_eq(now[2], uf[2]), exact_eq(now[3], uf[3])]
        return And(*cs) if cs else True

    def all_zero(self):
        return And(*[exact_eq(e, 0) for e in self.elems]) if self.elems else True

    def copy(self, kind):
        c = self.value.copy()
        return Opd(kind, c, self.dim, list(self.elems), [c], self.bare, self.shape)


class World:
    """registry with the harness units: xa, xb (dimension D0), xc (dimension D1), xp (dimensionless, any positive scale)"""

    def __init__(self, ctx, d0, d1):
        self.ctx = ctx
        (self.n0, D0), (self.n1, D1) = d0, d1
        reg = ctx.registry([])
        D = ctx.mods["unyt"].dimensions
        ctx.add_row(reg, "xa", D0, ctx.real("xa_s", pos=True))
        ctx.add_row(reg, "xb", D0, ctx.real("xb_s", pos=True))
        ctx.add_row(reg, "xc", D1, ctx.real("xc_s", pos=True))
        ctx.add_row(reg, "xp", D.dimensionless, ctx.real("xp_s", pos=True))
        self.reg = reg
        self.deferred = {}
        self.D0, self.D1 = D0, D1
        self.twins = {}

    def twin_unit(self, kind):
        """Unit object of a twin kind (registries are built on first use)"""
        ctx = self.ctx
        Unit = ctx.mods["unyt"].Unit
        key = "redim" if kind.startswith("redim") else kind
        if key not in self.twins:
            reg = ctx.registry([])
            if key == "twin_dim":
                ctx.add_row(reg, "xa", self.D1, ctx.real("xa_s", pos=True))
                self.twins[key] = {kind: Unit("xa", registry=reg)}
            elif key == "twin_scale":
                ctx.add_row(reg, "xa", self.D0, ctx.real("xb_s", pos=True))
                self.twins[key] = {kind: Unit("xa", registry=reg)}
            else:
                ctx.add_row(reg, "xa", self.D0, ctx.real("xa_s", pos=True))
                old = Unit("xa", registry=reg)
                reg.remove("xa")
                ctx.add_row(reg, "xa", self.D1, ctx.real("xa_s", pos=True))
                self.twins[key] = {"redim_old": old, "redim_new": Unit("xa", registry=reg)}
        return self.twins[key][kind]

    def vals(self, tag, shape):
        """element symbols tag_0, tag_1, ... (row-major): every operand of a case draws on the same few symbols, so that the
        forks of the real code (zero tests, comparisons) are shared between the operations of the case"""
        ctx = self.ctx
        n = int(np.prod(shape)) if shape else 1
        flat = [ctx.real(f"{tag}_{i}") for i in range(n)]
        if shape == ():
            return flat[0]
        a = np.empty(n, dtype=object if ctx.symbolic else float)
        for i, v in enumerate(flat):
            a[i] = v
        return a.reshape(shape)

    def operand(self, kind, shape, tag):
        ctx, reg = self.ctx, self.reg
        if kind in TWIN_KINDS:
            dim = {"twin_dim": self.n1, "twin_scale": self.n0, "redim_old": self.n0, "redim_new": self.n1}[kind]
            q = ctx.quantity(self.vals(tag, shape), self.twin_unit(kind), None)
            return Opd(kind, q, dim, elements(q.d), [q], False, shape)
        if kind in QUANTITY_KINDS:
            unit = {"same": "xa", "samedim": "xb", "diffdim": "xc", "dimless": "dimensionless", "percent": "xp"}[kind]
            dim = {"same": self.n0, "samedim": self.n0, "diffdim": self.n1}.get(kind, "dimensionless")
            q = ctx.quantity(self.vals(tag, shape), unit, reg)
            return Opd(kind, q, dim, elements(q.d), [q], False, shape)
        if kind == "bscalar":
            v = self.vals(tag, ())
            return Opd(kind, v, "dimensionless", [v], [], True, ())
        if kind == "barray":
            v = self.vals(tag, shape)
            if shape == ():
                v = np.asarray(v, dtype=object if ctx.symbolic else float)
            return Opd(kind, v, "dimensionless", elements(v), [v], True, shape)
        if kind == "blist":
            shape = shape if shape else (2,)
            v = self.vals(tag, shape)
            return Opd(kind, v.tolist(), "dimensionless", elements(v), [], True, shape)
        if kind in SEQ:
            cont, nested, members = SEQ[kind]
            ua = ctx.mods["unyt"].unyt_array
            vals, qs, elems, bares, qdims = [], [], [], [], set()
            for i, m in enumerate(members):
                v = ctx.real(f"{tag}_{i}")
                if m == "b":
                    vals.append(v)
                    elems.append(v)
                    bares.append(v)
                    continue
                unit = "xa" if m in "Aa" else "xc"
                # lower case: a 0-d unyt_array (what a[()] of a 0-d array, np.sum(keepdims) ... hand out), not a unyt_quantity
                q = ua(obj0(v) if ctx.symbolic else v, unit, registry=reg) if m.islower() else ctx.quantity(v, unit, reg)
                if m.islower() and (type(q) is not ua or q.shape != ()):
                    raise HarnessError("0-d unyt_array member expected")
                vals.append(q)
                qs.append(q)
                elems += elements(q.d)
                qdims.add(self.n0 if m in "Aa" else self.n1)
            adim = qdims.pop() if len(qdims) == 1 else "MIXED"
            dim = "MIXED" if (bares and adim != "dimensionless") else adim
            value = cont(vals)
            if nested:
                value = cont([value])
            return Opd(kind, value, dim, elems, qs, False, seq_shape(kind), adim=adim, bare_members=bares)
        raise KeyError(kind)

    # known-defect obligations are collected per case and required once at the end (one counterexample per case and class)
    def defer(self, label, cond, **info):
        self.deferred.setdefault(label, []).append((cond, info))

    def flush(self):
        for label, items in self.deferred.items():
            self.ctx.require(label, And(*[c for c, _ in items]), where=sorted({i.get("where", "") for _, i in items})[:6])
        self.deferred = {}


def shape_of(kind, shape):
    if kind == "bscalar":
        return ()
    if kind in QLIST_KINDS:
        return seq_shape(kind)
    if kind == "blist":
        return shape if shape else (2,)
    return shape


def is_unyt(ctx, v):
    return isinstance(v, ctx.mods["unyt"].unyt_array)


# ------------------------------------------------------------------------------------------------ verdicts

def commensurable(ops, assign=False):
    dims = [(o.adim if assign else o.dim) for o in ops]
    return "MIXED" not in dims and all(d == dims[0] for d in dims)


def no_demand(ops, klass):
    """the operands the call combines are of one dimension. klass 'assign': bare values (a bare operand, the bare members of a
    sequence that also holds quantities) are read in the receiving array's unit - only what carries units is compared"""
    if klass == "assign":
        return commensurable([o for o in ops if not o.bare], assign=True)
    return commensurable(ops)


def _truth(e):
    """an element of a comparison answer as a boolean (SymBool / bool; 0.0 and 1.0 when the answer was written into a float
    out= array), None if it is not one"""
    if isinstance(e, SymBool):
        return e
    if isinstance(e, (bool, np.bool_)):
        return bool(e)
    if isinstance(e, (int, float)) and e in (0, 1):
        return bool(e)
    if isinstance(e, SymReal):
        return Not(exact_eq(e, 0))
    return None


def is_constant(val, truth):
    """the ==/!= answer for incommensurable operands: every element is the constant"""
    if val is DOMAIN:
        return False
    cs = []
    for e in elements(val):
        t = _truth(e)
        cs.append(False if t is None else (t if truth else Not(t)))
    return And(*cs) if cs else True


def raw_equality(val, a, b, truth_is_ne, outer):
    """the answer is the element-wise (in)equality of the bare numbers"""
    if val is DOMAIN:
        return False
    pair = np.frompyfunc(lambda x, y: (x, y), 2, 1)
    P = np.empty(len(a.elems), dtype=object)
    Q = np.empty(len(b.elems), dtype=object)
    P[:] = a.elems
    Q[:] = b.elems
    P, Q = P.reshape(a.shape), Q.reshape(b.shape)
    try:
        pairs = pair.outer(P, Q) if outer else pair(P, Q)
    except ValueError:
        return False
    pairs = elements(np.asarray(pairs, dtype=object)) if not isinstance(pairs, tuple) else [pairs]
    res = elements(val)
    if len(res) != len(pairs):
        return False
    cs = []
    for r, (x, y) in zip(res, pairs):
        eq = exact_eq(x, y)
        want = Not(eq) if truth_is_ne else eq
        t = _truth(r)
        cs.append(False if t is None else Iff(t, want))
    return And(*cs) if cs else True


DOMAIN = object()  # NumPy would have returned nan/inf here (division by zero ...): "returned normally", value outside A1


def xcall(fn, *a, **k):
    try:
        return call(fn, *a, **k)
    except DomainExit:
        return ("ok", DOMAIN)


def _artefact(exc):
    m = str(exc)
    return isinstance(exc, TypeError) and ("SymReal" in m or "not supported for the input types" in m or "No loop matching" in m)


def judge(ctx, W, tag, opname, res, ops, klass, known=None, outer=False, outs=()):
    """klass: 'require' (ufunc that needs commensurable operands: a bare operand is dimensionless, the zero exception applies),
    'merge' (array function merging its operands: a bare operand is dimensionless, no zero exception), 'assign' (bare values
    are read in the receiving array's unit: only operands carrying units are compared), 'free' (no demand).
    known: label under which a failing 'returned normally' obligation of this call is collected (known defect class)"""
    status, val = res
    if val is DOMAIN:
        return  # the path left the reals inside NumPy's loop: whether unyt would then return or raise is not modelled (A1)
    ctx.observe(tag, "ok" if status == "ok" else type(val).__name__)
    info = dict(dims=[(o.adim if klass == "assign" else o.dim) for o in ops], kinds=[o.kind for o in ops])
    if status == "ok":
        if klass == "free":
            ctx.require(f"{tag}: returned (no commensurability demand)", True)
            return
        if no_demand(ops, klass):
            ctx.require(f"{tag}: returned for commensurable operands", True)
            return
        exc, weak = [], None
        label = f"{tag}: returned normally for incommensurable operands"
        if opname in EQNE:
            exc.append(is_constant(val, opname == "not_equal"))
        if klass == "require":
            exc += [o.all_zero() for o in ops if o.bare]
            het = [o for o in ops if o.bare_members]
            if het and commensurable(ops, assign=True):
                # lenient reading for a sequence holding bare numbers and quantities: the zero exception covers its bare members
                # (unyt refuses such sequences in every ufunc anyway)
                exc.append(And(*[exact_eq(e, 0) for o in het for e in o.bare_members]))
        if opname in ORDERING and any(o.dim == "dimensionless" for o in ops):
            exc.append(True)
        strict = Or(*exc) if exc else False
        if known is None and opname in EQNE and any(o.dim == "dimensionless" for o in ops) and "MIXED" not in info["dims"]:
            # known defect: == and != treat a dimensionless operand like the ordering comparisons do and compare the bare numbers
            known = L_EQD
            weak = Or(strict, raw_equality(val, ops[0], ops[1], opname == "not_equal", outer))
        elif known is None and klass == "require" and any(o.kind in SEQ_NEST for o in ops):
            # known defect: _coerce_iterable_units looks for quantities at the top level of a sequence only; a nested sequence is
            # handed to np.asarray, which strips the units. Must hold even so: the call behaves as for the bare numbers (zero
            # exemption, ordering against anything, any key next to a dimensionless operand, ==/!= on the raw numbers - the
            # L_EQD defect) or as the property demands
            known = L_NEST
            nest = [o for o in ops if o.kind in SEQ_NEST]
            weak = Or(strict, opname in ORDERING, all(o.dim == "dimensionless" for o in ops if o not in nest),
                      *[o.all_zero() for o in nest])
            if opname in EQNE:
                weak = Or(weak, raw_equality(val, ops[0], ops[1], opname == "not_equal", outer))
        elif known is None and klass == "require" and any(o.kind in QLIST_KINDS for o in ops):
            # known defect: the zero exemption looks at isinstance(operand, unyt_array) only, so it is also granted to an
            # all-zero python list of quantities, which carries units (the all-zero unyt_array case was repaired by 37ae695)
            known = L_ZERO
            weak = Or(strict, *[o.all_zero() for o in ops if not is_unyt(ctx, o.value)])
        if known is not None:
            if weak is not None:
                ctx.require(f"{label} beyond the known defect", weak, **info)
            W.defer(known, strict, where=f"{tag} {'+'.join(info['kinds'])}")
        else:
            ctx.require(label, strict, **info)
    else:
        if ctx.symbolic and _artefact(val):
            raise HarnessError(f"{tag}: engine artefact, not unyt raising: {val}")
        ctx.require(f"{tag}: operands unchanged after raise", And(*[o.unchanged() for o in ops]), exc=type(val).__name__,
                    to_solver=True, **info)
        if outs and klass != "free" and not no_demand(ops, klass):
            # the raise the property demands must not have been preceded by writing the combined values into out=
            cond = And(*[o.unchanged() for o in outs])
            if known == L_DIVMOD:
                W.defer(known, cond, where=f"{tag} out= written before raising")
            else:
                ctx.require(f"{tag}: out unchanged after raise", cond, to_solver=True, **info)


# ------------------------------------------------------------------------------------------------ ufunc forms

def _sr(v):
    from symx.core import lift
    return v if isinstance(v, SymReal) else SymReal(lift(v))


class _ObjUfunc:
    """np.divmod / nextafter / copysign / heaviside have no object-dtype loop, so NumPy refuses a symbolic payload AFTER unyt's
    unit checks but before computing - a missing check would be masked by NumPy's TypeError. In symbolic mode the ufunc object
    handed to the real unyt_array.__array_ufunc__ is this stand-in (same device as harness/c04.py): equal and hash-equal to the
    real ufunc, so `ufunc in multiple_output_operators`, `_ufunc_registry[ufunc]` and `ufunc in (modf, divmod_)` answer as for
    the real one; its call applies the SymReal method element-wise. unyt's own code runs unchanged; plain runs use NumPy's."""

    def __init__(self, real, elem):
        self.real = real
        self.py = np.frompyfunc(elem, 2, real.nout)

    def __eq__(self, o):
        return o is self.real or o is self

    def __hash__(self):
        return hash(self.real)

    def __getattr__(self, k):
        return getattr(self.real, k)

    def __call__(self, a, b, out=None, **kw):
        r = self.py(a, b)
        rs = r if isinstance(r, tuple) else (r,)
        if out is not None:
            res = []
            for o, v in zip(out if isinstance(out, tuple) else (out,), rs):
                if o is not None:
                    o[...] = v
                    res.append(o)
                else:
                    res.append(v)
            rs = tuple(res)
        return rs if self.real.nout > 1 else rs[0]


STANDIN = {
    "divmod": _ObjUfunc(np.divmod, lambda a, b: divmod(a, b)),
    "nextafter": _ObjUfunc(np.nextafter, lambda a, b: _sr(a).nextafter(b)),
    "copysign": _ObjUfunc(np.copysign, lambda a, b: _sr(a).copysign(b)),
    "heaviside": _ObjUfunc(np.heaviside, lambda a, b: _sr(a).heaviside(b)),
}
STANDIN_FORMS = ("call", "op", "out_q", "out_b")


def sym_ufunc(ctx, name, x0, x1, out=None):
    """what np.<name>(x0, x1[, out=]) does after NumPy's override lookup: the first operand with __array_ufunc__ gets the call"""
    disp = x0 if is_unyt(ctx, x0) else x1
    kw = {} if out is None else dict(out=tuple(out) if isinstance(out, (tuple, list)) else (out,))
    with as_ufunc_global(ctx.mods, STANDIN[name]):
        return disp.__array_ufunc__(STANDIN[name], "__call__", x0, x1, **kw)


# call_kw: the plain call with the optional keyword parameters of a ufunc call spelled out (where=True, casting=, subok=): the
# argument-form axis of the ufunc family (out= given positionally or as a 1-tuple is normalised by NumPy before unyt is entered)
FORMS = ["call", "call_kw", "op", "out_q", "out_b", "outer", "at", "reduce_initial", "iop"]


def run_forms(ctx, W, name, k0, k1, s0, s1, forms=FORMS):
    uf = getattr(np, name)
    klass = "require" if name in REQUIRE else "free"
    a = W.operand(k0, s0, "p")
    b = W.operand(k1, s1, "q")
    ops = [a, b]
    x0, x1 = a.value, b.value
    if not (is_unyt(ctx, x0) or is_unyt(ctx, x1)):
        raise HarnessError("no unyt operand")
    rs = np.broadcast_shapes(a.shape, b.shape)
    known = L_DIVMOD if name == "divmod" else None
    nout = uf.nout
    if name in STANDIN:
        forms = [f for f in forms if f in STANDIN_FORMS]
        if ctx.symbolic:
            uf = lambda x0, x1, out=None: sym_ufunc(ctx, name, x0, x1, out)  # noqa: E731
    for form in forms:
        tag = f"{name}.{form}"
        if form == "call":
            judge(ctx, W, tag, name, xcall(uf, x0, x1), ops, klass, known)
        elif form == "call_kw":
            judge(ctx, W, tag, name, xcall(uf, x0, x1, where=True, casting="same_kind", subok=True), ops, klass, known)
        elif form == "outer":
            judge(ctx, W, tag, name, xcall(uf.outer, x0, x1), ops, klass, known, outer=True)
        elif form in ("out_q", "out_b"):
            if rs == () and form == "out_b":
                continue
            mk = (lambda t: ctx.quantity(W.vals(t, rs), "xb", W.reg)) if form == "out_q" else (lambda t: W.vals(t, rs))
            outs = [mk(f"o{i}") for i in range(nout)]
            oo = [Opd("out", o, None, [], [o], False) for o in outs]
            res = xcall(uf, x0, x1, out=tuple(outs) if nout > 1 else outs[0])
            judge(ctx, W, tag, name, res, ops, klass, known, outs=oo)
        elif form == "at":
            if not isinstance(x0, np.ndarray) or len(a.shape) < 1:
                continue
            co = a.copy("at-target")
            judge(ctx, W, tag, name, xcall(uf.at, co.value, [0], x1), [co, b], klass, known)
        elif form == "reduce_initial":
            # only a bare `initial`: NumPy casts a quantity given as `initial` to the array's float dtype (dropping its unit) before
            # any unyt code runs, which an object-dtype payload cannot reproduce (the object loop would keep the quantity)
            if name not in REDUCIBLE or not is_unyt(ctx, x0) or len(a.shape) < 1 or k1 != "bscalar":
                continue
            # known defect: `initial` is handed to NumPy unchecked
            judge(ctx, W, tag, name, xcall(uf.reduce, x0, initial=x1), ops, klass, L_REDINIT)
        elif form == "op":
            if name not in OPERATOR:
                continue
            if name in STANDIN and ctx.symbolic:
                res = xcall(uf, x0, x1)  # ndarray.__divmod__/__rdivmod__ is np.divmod
            elif ctx.symbolic and isinstance(x0, SymReal):
                # python: float.__op__(quantity) is NotImplemented -> the reflected method of the right operand
                res = xcall(getattr(x1, REFLECTED[name]), x0)
            else:
                res = xcall(OPERATOR[name], x0, x1)
            if res[0] == "ok" and res[1] is NotImplemented:
                continue
            judge(ctx, W, tag, name, res, ops, klass, known)
        elif form == "iop":
            if name not in INPLACE or not isinstance(x0, np.ndarray) or rs != a.shape or rs == ():
                continue
            co = a.copy("iop-target")
            judge(ctx, W, tag, name, xcall(INPLACE[name], co.value, x1), [co, b], klass, known)
        else:
            raise KeyError(form)


def shstr(s):
    """() -> "0"; a size-0 extent gets an "e" in front: (0,) -> "e0", (0, 2) -> "e0x2" (ids of the other shapes are unchanged)"""
    return ("e" if 0 in s else "") + "x".join(map(str, s)) if s else "0"


# ------------------------------------------------------------------------------------------------ call history
# HISTORY axis: before the call under test, other calls are made IN THE SAME PATH on operands of the same registry (so the Unit
# objects are equal and hash-equal to those of the call under test; fresh element symbols) - whatever they leave behind in the
# library (a memo keyed by unit pair / spelling / operation, a cached unit, a flag) is there when the call under test runs. A step
# is (family, ..., relation): family 'uf' (ufunc name, 'call' | 'op'), 'af' (array-function call shape), 'to' (.to() onto the
# unit of the second operand), 'setitem' (index form); relation = which operand kinds the earlier call gets, relative to the
# kinds (k0, k1) of the call under test: 'same' (k0, k1), 'swap' (k1, k0), 'self' (k0, k0), 'comm' (k0, a commensurable
# partner of k0 in another unit), 'zero' (k0, the literal 0), 'tscale' (k0, the unit of the same SPELLING and dimension with
# another scale in another registry - used before a call on the same spelling with another dimension). The element values of the
# earlier calls are pinned numerals (no forks), the unit scales are the symbols of the case. The earlier calls are not judged here (each is judged in its own case); their outcome is
# only observed (conformance). All obligations of the call under test stay as they are.
COMM_PARTNER = {"same": "samedim", "samedim": "same", "dimless": "percent", "percent": "dimless"}


def hist_id(steps):
    return "+".join(".".join(st) for st in steps)


def _hist_kinds(rel, k0, k1):
    return {"same": (k0, k1), "swap": (k1, k0), "self": (k0, k0), "comm": (k0, COMM_PARTNER.get(k0, k0)), "zero": (k0, "bscalar"),
            "tscale": (k0, "twin_scale")}[rel]


def run_history(ctx, W, steps, k0, k1):
    for i, st in enumerate(steps):
        fam, rel = st[0], st[-1]
        pk0, pk1 = _hist_kinds(rel, k0, k1)
        if fam == "af":
            target = st[1] in AF_TARGET
            _, fn, shapes = (AF_TARGET if target else AF)[st[1]]
            s0, s1 = shapes[0]
        elif fam == "setitem":
            fn, s1 = SETITEM[st[1]][:2]
            s0 = SETITEM[st[1]][2] if len(SETITEM[st[1]]) > 2 else (2,)
        else:
            s0 = s1 = ()
        for k in (pk0, pk1):
            if k in TWIN_KINDS:
                W.twin_unit(k)  # built outside the warm-up: its scale stays the symbol of the case
        res = None
        # the element values of an earlier call are pinned numerals (engine: ctx.warmup, as in the @after variants; the replay
        # uses the same numerals): no forks inside the earlier call. The unit scales are the symbols of the case. 'zero': the bare
        # operand is the literal 0 (the zero exemption of the earlier call is taken).
        with ctx.warmup(f"hist{i}!"):
            a = W.operand(pk0, shape_of(pk0, s0), "g")
            b = W.operand(pk1, shape_of(pk1, s1), "h") if rel != "zero" else None
            x0, x1 = a.value, (b.value if b is not None else 0.0)
            if fam == "uf":
                if is_unyt(ctx, x0) or is_unyt(ctx, x1):
                    pname, pform = st[1], st[2]
                    if pform == "op" and ctx.symbolic and isinstance(x0, SymReal):
                        res = xcall(getattr(x1, REFLECTED[pname]), x0)
                    elif pform == "op":
                        res = xcall(OPERATOR[pname], x0, x1)
                    else:
                        res = xcall(getattr(np, pname), x0, x1)
            elif fam == "af":
                if is_unyt(ctx, x0) or is_unyt(ctx, x1):
                    res = xcall(fn, np, x0.copy() if target else x0, x1)
            elif fam == "setitem":
                if is_unyt(ctx, x0):
                    res = xcall(fn, x0.copy(), x1)
            elif fam == "to":
                if is_unyt(ctx, x0) and is_unyt(ctx, x1):
                    res = xcall(x0.to, x1.units)
            else:
                raise KeyError(fam)
        if res is not None and res[1] is not DOMAIN:
            if ctx.symbolic and res[0] == "raise" and _artefact(res[1]):
                raise HarnessError(f"history step {'.'.join(st)}: engine artefact, not unyt raising: {res[1]}")
            ctx.observe(f"history{i}:{'.'.join(st)}", "ok" if res[0] == "ok" else type(res[1]).__name__)


def make_ufunc_case(name, k0, k1, s0, s1, d0, d1, forms=FORMS, group="uf", history=()):
    def h(ctx):
        W = World(ctx, d0, d1)
        run_history(ctx, W, history, k0, k1)
        run_forms(ctx, W, name, k0, k1, s0, s1, forms)
        W.flush()
    cid = f"C01/{group}/{name}/{k0}+{k1}/{shstr(s0)}_{shstr(s1)}" + (f"/after-{hist_id(history)}" if history else "")
    return Case(cid, h, bounds="symbolic: elements, scales" + ("; earlier calls in the same path: " + hist_id(history) if history else ""),
                budget_s=3000, max_paths=6000, weight=(1 + len(s0) + len(s1)) * (3 if name in ORDERING | EQNE else 1) * (2 if history else 1))


# ------------------------------------------------------------------------------------------------ dimension sweep

def _dname(i):
    return chr(97 + i // 26) + chr(97 + i % 26)


# NEAR-MISS DIMENSIONS: the registry's catalogue holds the dimensions that occur in practice; a commensurability test that is
# computed from a SUMMARY of the dimension (a rounded / truncated / absolute / sorted / summed exponent vector, a vector that skips
# a base dimension, a hash, the set of symbols ...) is wrong only for pairs that agree in that summary. This catalogue is written
# here as explicit exponent vectors over the base dimensions (the oracle's identity of a dimension IS its vector) and walks the
# neighbourhood of `length`: one exponent moved by a fraction (1/2, 3/2, 1/3, 2/3, 5/2: truncation, rounding, floor), negated,
# doubled; the same exponents in other slots (permutations, equal exponent sum / product); one further base dimension to the
# power 1, 1/2, -1/2 for EVERY base dimension (a skipped slot); float-valued exponents are outside (sympy Rationals only).
NEAR_BASE = ("mass", "length", "time", "temperature", "angle", "current_mks", "luminous_intensity", "logarithmic")


def near_catalogue(mods, tier):
    from fractions import Fraction as F
    import sympy
    D = mods["unyt"].dimensions
    vecs = [{}, {"length": 1}]
    quick = tier == "quick"
    for e in (F(1, 2), F(3, 2), F(1, 3), 2, -1, F(-1, 2)) + (() if quick else (F(2, 3), F(5, 2), F(-3, 2))):
        vecs.append({"length": e})
    vecs += [{"time": 1}, {"length": 1, "time": 1}, {"length": 1, "time": -1}, {"length": 2, "time": 1}, {"length": 1, "time": 2},
             {"length": F(1, 2), "time": F(1, 2)}, {"mass": F(1, 2), "length": F(3, 2), "time": -1}, {"time": -1}]
    if not quick:
        vecs += [{"length": -1, "time": 1}, {"length": 2, "time": -1}, {"length": F(3, 2), "time": F(-1, 2)},
                 {"mass": F(1, 2), "length": F(-1, 2), "time": -1}]
    for b in NEAR_BASE:
        if b != "length":
            vecs.append({"length": 1, b: 1})
            if not quick or b == "logarithmic":
                vecs += [{"length": 1, b: F(1, 2)}, {"length": 1, b: F(-1, 2)}]
    out, seen = [], set()
    for v in vecs:
        key = tuple(F(v.get(b, 0)) for b in NEAR_BASE)
        if key in seen:
            continue
        seen.add(key)
        expr = sympy.Integer(1)
        for b in NEAR_BASE:
            if v.get(b, 0):
                expr = expr * getattr(D, b) ** sympy.Rational(F(v[b]).numerator, F(v[b]).denominator)
        name = "*".join(f"{b}^{F(v[b])}" for b in NEAR_BASE if v.get(b, 0)) or "dimensionless"
        out.append((name, D.dimensionless if not v else expr))
    return out


def make_dims_case(name, cat, with_offsets, label=None, ops=True):
    """one left unit per catalogue dimension (all of scale xa_s), one right unit per dimension (all of scale xc_s): every
    ordered pair of dimensions, in call and operator form. Temperature units optionally carry symbolic offsets."""
    def h(ctx):
        unyt = ctx.mods["unyt"]
        D = unyt.dimensions
        reg = ctx.registry([])
        sa, sc = ctx.real("xa_s", pos=True), ctx.real("xc_s", pos=True)
        oa = ctx.real("xa_o", lo=-500, hi=500) if with_offsets else 0.0
        oc = ctx.real("xc_o", lo=-500, hi=500) if with_offsets else 0.0
        W = World.__new__(World)
        W.ctx, W.reg, W.deferred = ctx, reg, {}
        left, right = [], []
        for i, (dn, Dm) in enumerate(cat):
            aff = with_offsets and Dm is D.temperature
            ctx.add_row(reg, "xl" + _dname(i), Dm, sa, oa if aff else 0.0)
            ctx.add_row(reg, "xr" + _dname(i), Dm, sc, oc if aff else 0.0)
        p, q = ctx.real("p_0"), ctx.real("q_0")
        for i, (dn, Dm) in enumerate(cat):
            ql = ctx.quantity(p, "xl" + _dname(i), reg)
            qr = ctx.quantity(q, "xr" + _dname(i), reg)
            left.append(Opd("left", ql, dn, elements(ql.d), [ql], False, ()))
            right.append(Opd("right", qr, dn, elements(qr.d), [qr], False, ()))
        sym_standin = ctx.symbolic and name in STANDIN
        uf = (lambda x0, x1: sym_ufunc(ctx, name, x0, x1)) if sym_standin else getattr(np, name)
        known = L_DIVMOD if name == "divmod" else None
        for a in left:
            for b in right:
                if with_offsets and "temperature" not in (a.dim, b.dim):
                    continue  # the offset variant differs from the linear one only where a temperature unit takes part
                tag = f"{name}[{a.dim}|{b.dim}]"
                judge(ctx, W, tag + ".call", name, xcall(uf, a.value, b.value), [a, b], "require", known)
                if name in OPERATOR and ops:
                    judge(ctx, W, tag + ".op", name, xcall(uf if sym_standin else OPERATOR[name], a.value, b.value), [a, b], "require", known)
        W.flush()
    return Case(f"C01/dims/{name}/{label or ('affineT' if with_offsets else 'linear')}", h,
                bounds=f"{len(cat)}x{len(cat)} ordered dimension pairs" if not with_offsets else f"temperature (symbolic offsets) x {len(cat)} dimensions, both orders",
                budget_s=3000, max_paths=2000, weight=30, conform=False)


def make_dims_twin_case(name, cat):
    """the SAME symbol "xt" with the SAME scale in one registry per dimension: every ordered pair of dimensions; the operands'
    units agree in spelling and scale and differ in dimension only (call form; operator form for i < j)"""
    def h(ctx):
        sa = ctx.real("xa_s", pos=True)
        W = World.__new__(World)
        W.ctx, W.reg, W.deferred = ctx, None, {}
        p, q = ctx.real("p_0"), ctx.real("q_0")
        left, right = [], []
        for dn, Dm in cat:
            reg = ctx.registry([])
            ctx.add_row(reg, "xt", Dm, sa)
            ql, qr = ctx.quantity(p, "xt", reg), ctx.quantity(q, "xt", reg)
            left.append(Opd("left", ql, dn, elements(ql.d), [ql], False, ()))
            right.append(Opd("right", qr, dn, elements(qr.d), [qr], False, ()))
        sym_standin = ctx.symbolic and name in STANDIN
        uf = (lambda x0, x1: sym_ufunc(ctx, name, x0, x1)) if sym_standin else getattr(np, name)
        known = L_DIVMOD if name == "divmod" else None
        for i, a in enumerate(left):
            for j, b in enumerate(right):
                tag = f"{name}[xt:{a.dim}|xt:{b.dim}]"
                judge(ctx, W, tag + ".call", name, xcall(uf, a.value, b.value), [a, b], "require", known)
                if name in OPERATOR and i < j:
                    judge(ctx, W, tag + ".op", name, xcall(uf if sym_standin else OPERATOR[name], a.value, b.value), [a, b], "require", known)
        W.flush()
    return Case(f"C01/dims/{name}/twin", h, bounds=f"{len(cat)}x{len(cat)} ordered dimension pairs, same symbol and scale in one registry each",
                budget_s=3000, max_paths=2000, weight=30, conform=False)


# ------------------------------------------------------------------------------------------------ array functions
# oracle table: name -> (klass, builder(ctx, np, a, b) -> callable result, shapes of (a, b), target): `a`/`b` are Opd; the
# parameters that the function merges/compares/assigns are exactly a and b; target=True: the function writes into a copy of a.

def _mask(n):
    return np.array([True, False][:n])


def _sel_default(x0):
    if hasattr(x0, "units") and x0.size == 0:
        return 0.0 * x0.units
    return x0.reshape(-1)[0] if hasattr(x0, "units") else 0.0


AF = {
    # merging into one array
    "concatenate": ("merge", lambda np_, x0, x1: np_.concatenate([x0, x1]), [((2,), (2,))]),
    "concatenate3": ("merge", lambda np_, x0, x1: np_.concatenate([x0, x0, x1]), [((2,), (2,))]),
    "stack": ("merge", lambda np_, x0, x1: np_.stack([x0, x1]), [((2,), (2,))]),
    "vstack": ("merge", lambda np_, x0, x1: np_.vstack([x0, x1]), [((2,), (2,))]),
    "hstack": ("merge", lambda np_, x0, x1: np_.hstack([x0, x1]), [((2,), (2,))]),
    "dstack": ("merge", lambda np_, x0, x1: np_.dstack([x0, x1]), [((2,), (2,))]),
    "column_stack": ("merge", lambda np_, x0, x1: np_.column_stack([x0, x1]), [((2,), (2,))]),
    "block": ("merge", lambda np_, x0, x1: np_.block([x0, x1]), [((2,), (2,))]),
    "append": ("merge", lambda np_, x0, x1: np_.append(x0, x1), [((2,), (2,)), ((2,), ())]),
    "where": ("merge", lambda np_, x0, x1: np_.where(_mask(2), x0, x1), [((2,), (2,)), ((2,), ())]),
    "choose": ("merge", lambda np_, x0, x1: np_.choose(np.array([0, 1]), [x0, x1]), [((2,), (2,))]),
    "select": ("merge", lambda np_, x0, x1: np_.select([_mask(2), ~_mask(2)], [x0, x1], _sel_default(x0)), [((2,), (2,))]),
    "select_default": ("assign", lambda np_, x0, x1: np_.select([_mask(2)], [x0], x1), [((2,), ())]),
    "linspace": ("merge", lambda np_, x0, x1: np_.linspace(x0, x1, 3), [((), ())]),
    "geomspace": ("merge", lambda np_, x0, x1: np_.geomspace(x0, x1, 3), [((), ())]),
    # comparing the values of two arrays
    "intersect1d": ("merge", lambda np_, x0, x1: np_.intersect1d(x0, x1), [((2,), (2,))]),
    "union1d": ("merge", lambda np_, x0, x1: np_.union1d(x0, x1), [((2,), (2,))]),
    "setdiff1d": ("merge", lambda np_, x0, x1: np_.setdiff1d(x0, x1), [((2,), (2,))]),
    "isin": ("merge", lambda np_, x0, x1: np_.isin(x0, x1), [((2,), (2,))]),
    "in1d": ("merge", lambda np_, x0, x1: np_.in1d(x0, x1), [((2,), (2,))]),
    "interp": ("merge", lambda np_, x0, x1: np_.interp(x0, x1, np.array([1.0, 2.0])), [((2,), (2,))]),
    "searchsorted": ("assign", lambda np_, x0, x1: np_.searchsorted(x0, x1), [((2,), ()), ((2,), (2,))]),
    # clipping: limits given as bare numbers are read in the array's unit
    "clip": ("assign", lambda np_, x0, x1: np_.clip(x0, x1, x1), [((2,), ()), ((2,), (2,))]),
    "clip_max": ("assign", lambda np_, x0, x1: np_.clip(x0, x0.min() if hasattr(x0, "units") else None, x1), [((2,), ())]),
    "insert": ("assign", lambda np_, x0, x1: np_.insert(x0, 0, x1), [((2,), ()), ((2,), (2,))]),
    # OPEN OPERAND SLOT: an optional value operand left open (None / omitted) next to one that is given - the operands the call
    # combines are the array and the bound that IS given
    "clip_hi_none": ("assign", lambda np_, x0, x1: np_.clip(x0, x1, None), [((2,), ()), ((2,), (2,))]),
    "clip_lo_none": ("assign", lambda np_, x0, x1: np_.clip(x0, None, x1), [((2,), ()), ((2,), (2,))]),
    # OPTIONAL VALUE OPERANDS: parameters of a handled function, beyond its main operands, whose VALUES end up in (or are compared
    # with) the values of the array: padding values, values put in front of / behind the array before differencing, the fill
    # values of an interpolation, the operands of isclose / allclose. A bare value is read in the array's unit (assignment reading).
    "pad_const": ("assign", lambda np_, x0, x1: np_.pad(x0, 1, constant_values=x1), [((2,), ())]),
    "pad_end": ("assign", lambda np_, x0, x1: np_.pad(x0, 1, "linear_ramp", end_values=x1), [((2,), ())]),
    "diff_prepend": ("assign", lambda np_, x0, x1: np_.diff(x0, prepend=x1), [((2,), ()), ((2,), (2,))]),
    "diff_append": ("assign", lambda np_, x0, x1: np_.diff(x0, append=x1), [((2,), ()), ((2,), (2,))]),
    "ediff1d_end": ("assign", lambda np_, x0, x1: np_.ediff1d(x0, to_end=x1), [((2,), ()), ((2,), (2,))]),
    "ediff1d_begin": ("assign", lambda np_, x0, x1: np_.ediff1d(x0, to_begin=x1), [((2,), ()), ((2,), (2,))]),
    "isclose": ("assign", lambda np_, x0, x1: np_.isclose(x0, x1), [((2,), ()), ((2,), (2,))]),
    "allclose": ("assign", lambda np_, x0, x1: np_.allclose(x0, x1), [((2,), (2,))]),
}
# functions that write into their first argument (run on a copy)
AF_TARGET = {
    "place": ("assign", lambda np_, c, x1: np_.place(c, _mask(2), x1), [((2,), ()), ((2,), (2,))]),
    "put": ("assign", lambda np_, c, x1: np_.put(c, [0], x1), [((2,), ()), ((2,), (2,))]),
    "putmask": ("assign", lambda np_, c, x1: np_.putmask(c, _mask(2), x1), [((2,), ()), ((2,), (2,))]),
    "put_along_axis": ("assign", lambda np_, c, x1: np_.put_along_axis(c, np.array([0]), x1, 0), [((2,), ())]),
    "fill_diagonal": ("assign", lambda np_, c, x1: np_.fill_diagonal(c, x1), [((2, 2), ())]),
    "copyto": ("assign", lambda np_, c, x1: np_.copyto(c, x1), [((2,), ()), ((2,), (2,))]),
    "copyto_where": ("assign", lambda np_, c, x1: np_.copyto(c, x1, where=_mask(2)), [((2,), (2,))]),
    # clip writing its answer into the clipped array itself (out= is the first operand: no further operand), both / one bound given
    "clip_out": ("assign", lambda np_, c, x1: np_.clip(c, x1, x1, out=c), [((2,), ())]),
    "clip_out_lo_none": ("assign", lambda np_, c, x1: np_.clip(c, None, x1, out=c), [((2,), ()), ((2,), (2,))]),
    "clip_out_hi_none": ("assign", lambda np_, c, x1: np_.clip(c, x1, None, c), [((2,), ())]),
}
AF_KNOWN = {"copyto": L_COPYTO}  # the masked form converts or raises since 3bb224c; the unmasked one still relabels dst
AF_K0 = QUANTITY_KINDS + ["barray"]
AF_K1 = KINDS

# OPERAND EXTENT axis: size-0 operands. An empty quantity (a selection that matched nothing, an accumulator that has not received
# data yet) still carries its unit: the oracle is unchanged (returned normally => commensurable ...). An empty BARE operand
# (ndarray of size 0, the list []) has neither a unit nor a non-zero element: it is exempt everywhere (in a ufunc by the zero
# exception - `all elements are 0` is vacuously true -, in a merging function by the assignment reading). There are no element
# symbols in an empty operand; the solver variables of these cases are the unit scales and the partner's elements. Names are
# <call shape>@<variant>; the masks / index arrays are built for the extents of the operands.
def _m0(x):
    return np.zeros(np.shape(x), dtype=bool)


def _mb(x0, x1):
    return np.zeros(np.broadcast_shapes(np.shape(x0), np.shape(x1)), dtype=bool)


E0, E2 = (0,), (2,)
_NE_EN_EE = [(E2, E0), (E0, E2), (E0, E0)]
AF_E = {
    "concatenate@": ("merge", lambda np_, x0, x1: np_.concatenate([x0, x1]), _NE_EN_EE + [((2, 2), (0, 2)), ((0, 2), (2, 2))]),
    "concatenate@axis1": ("merge", lambda np_, x0, x1: np_.concatenate([x0, x1], axis=1), [((2, 2), (2, 0)), ((2, 0), (2, 0))]),
    "concatenate3@last": ("merge", lambda np_, x0, x1: np_.concatenate([x0, x0, x1]), [(E2, E0), (E0, E2)]),
    "concatenate3@mid": ("merge", lambda np_, x0, x1: np_.concatenate([x0, x1, x0]), [(E2, E0)]),
    "concatenate3@first": ("merge", lambda np_, x0, x1: np_.concatenate([x1, x0, x0]), [(E2, E0)]),
    "stack@": ("merge", lambda np_, x0, x1: np_.stack([x0, x1]), [(E0, E0), ((0, 2), (0, 2))]),
    "vstack@": ("merge", lambda np_, x0, x1: np_.vstack([x0, x1]), [((2, 2), (0, 2)), ((0, 2), (2, 2)), (E0, E0)]),
    "hstack@": ("merge", lambda np_, x0, x1: np_.hstack([x0, x1]), _NE_EN_EE),
    "dstack@": ("merge", lambda np_, x0, x1: np_.dstack([x0, x1]), [((2, 0), (2, 0)), (E0, E0)]),
    "column_stack@": ("merge", lambda np_, x0, x1: np_.column_stack([x0, x1]), [(E0, E0)]),
    "block@": ("merge", lambda np_, x0, x1: np_.block([x0, x1]), _NE_EN_EE),
    "append@": ("merge", lambda np_, x0, x1: np_.append(x0, x1), [(E2, E0), (E0, E2), (E0, ())]),
    "where@": ("merge", lambda np_, x0, x1: np_.where(_mb(x0, x1), x0, x1), [(E0, E0), (E0, (1,)), ((1,), E0), (E0, ()), ((), E0)]),
    "choose@": ("merge", lambda np_, x0, x1: np_.choose(np.zeros(0, dtype=int), [x0, x1]), [(E0, E0)]),
    "select@": ("merge", lambda np_, x0, x1: np_.select([_m0(x0), ~_m0(x0)], [x0, x1], _sel_default(x0)), [(E0, E0)]),
    "select_default@": ("assign", lambda np_, x0, x1: np_.select([_m0(x0)], [x0], x1), [(E0, E0), (E0, ())]),
    "linspace@": ("merge", lambda np_, x0, x1: np_.linspace(x0, x1, 3), [(E0, E0)]),
    "intersect1d@": ("merge", lambda np_, x0, x1: np_.intersect1d(x0, x1), _NE_EN_EE),
    "union1d@": ("merge", lambda np_, x0, x1: np_.union1d(x0, x1), _NE_EN_EE),
    "setdiff1d@": ("merge", lambda np_, x0, x1: np_.setdiff1d(x0, x1), _NE_EN_EE),
    "isin@": ("merge", lambda np_, x0, x1: np_.isin(x0, x1), _NE_EN_EE),
    "searchsorted@": ("assign", lambda np_, x0, x1: np_.searchsorted(x0, x1), [(E2, E0), (E0, E2), (E0, ())]),
    "clip@": ("assign", lambda np_, x0, x1: np_.clip(x0, x1, x1), [(E0, ()), (E0, E0), ((1,), E0)]),
    "insert@": ("assign", lambda np_, x0, x1: np_.insert(x0, 0, x1), [(E2, E0), (E0, E2), (E0, ())]),
    "diff_prepend@": ("assign", lambda np_, x0, x1: np_.diff(x0, prepend=x1), [(E2, E0)]),
    "diff_append@": ("assign", lambda np_, x0, x1: np_.diff(x0, append=x1), [(E2, E0)]),
    "ediff1d_end@": ("assign", lambda np_, x0, x1: np_.ediff1d(x0, to_end=x1), [(E2, E0)]),
    "ediff1d_begin@": ("assign", lambda np_, x0, x1: np_.ediff1d(x0, to_begin=x1), [(E2, E0)]),
    "isclose@": ("assign", lambda np_, x0, x1: np_.isclose(x0, x1), [(E0, E0), (E0, ())]),
    "allclose@": ("assign", lambda np_, x0, x1: np_.allclose(x0, x1), [(E0, E0)]),
}
AF_E_TARGET = {
    "place@": ("assign", lambda np_, c, x1: np_.place(c, _m0(c), x1), [(E2, E0), (E0, E2), (E0, ())]),
    "put@": ("assign", lambda np_, c, x1: np_.put(c, [], x1), [(E2, E0), (E0, E2), (E0, ())]),
    "put@ind0": ("assign", lambda np_, c, x1: np_.put(c, [0], x1), [(E2, E0)]),
    "putmask@": ("assign", lambda np_, c, x1: np_.putmask(c, _m0(c), x1), [(E2, E0), (E0, E0), (E0, ())]),
    "put_along_axis@": ("assign", lambda np_, c, x1: np_.put_along_axis(c, np.zeros(0, dtype=int), x1, 0), [(E0, E0), (E0, ())]),
    "fill_diagonal@": ("assign", lambda np_, c, x1: np_.fill_diagonal(c, x1), [((0, 0), ())]),
    "copyto@": ("assign", lambda np_, c, x1: np_.copyto(c, x1), [(E0, E0), (E0, ())]),
    "copyto_where@": ("assign", lambda np_, c, x1: np_.copyto(c, x1, where=_m0(c)), [(E0, E0), (E0, ())]),
    "clip_out@": ("assign", lambda np_, c, x1: np_.clip(c, x1, x1, out=c), [(E0, ())]),
}
EMPTY_AF_PAIRS = {
    "quick": [("same", "diffdim"), ("diffdim", "same"), ("same", "samedim"), ("same", "dimless"), ("same", "percent"), ("same", "barray"),
              ("same", "blist"), ("barray", "diffdim"), ("same", "twin_dim")],
    "thorough": [("same", "diffdim"), ("diffdim", "same"), ("same", "samedim"), ("same", "same"), ("same", "dimless"), ("dimless", "same"),
                 ("same", "percent"), ("percent", "diffdim"), ("same", "barray"), ("same", "blist"), ("barray", "diffdim"),
                 ("same", "twin_dim"), ("twin_dim", "same"), ("same", "twin_scale"), ("redim_old", "redim_new")],
}
# binary ufuncs: the extents NumPy's broadcasting allows next to an empty partner
EMPTY_UF_SHAPES = [(E0, E0), (E0, ()), ((), E0), (E0, (1,)), ((1,), E0), ((0, 2), E2), ((2, 0), (2, 0))]
EMPTY_UF_FORMS = ["call", "call_kw", "op", "out_q", "out_b", "outer", "iop"]
EMPTY_UF_PAIRS = {
    "quick": [("same", "diffdim"), ("diffdim", "same"), ("same", "samedim"), ("same", "dimless"), ("dimless", "same"), ("same", "percent"),
              ("same", "barray"), ("barray", "same"), ("same", "blist"), ("same", "twin_dim")],
    "thorough": [("same", "diffdim"), ("diffdim", "same"), ("same", "samedim"), ("same", "same"), ("same", "dimless"), ("dimless", "same"),
                 ("same", "percent"), ("percent", "diffdim"), ("same", "barray"), ("barray", "same"), ("same", "blist"),
                 ("same", "twin_dim"), ("twin_dim", "same"), ("same", "twin_scale"), ("redim_old", "redim_new")],
}


def _af_entry(fname):
    for t in (AF, AF_TARGET, AF_E, AF_E_TARGET):
        if fname in t:
            return t[fname]
    raise KeyError(fname)


def empty_af_applicable(fname, k0, k1, s0, s1):
    if k1 == "blist" and (0 not in s1 or len(s1) != 1 or fname.split("@")[0] in ("linspace", "append")):
        return False  # the python list [] stands where the empty operand stands
    if k0 == "barray" and fname in AF_E_TARGET:
        return False
    return twin_ok(k0, k1)


# CALL SPELLINGS (argument-form axis): the same call shape with its arguments handed over in every other way NumPy's signature
# permits - an optional parameter positionally instead of by keyword (or the reverse), the operands themselves by keyword, the
# container as a tuple instead of a list, an explicit default. The oracle does not change with the spelling: the merged / assigned
# operands are x0 and x1 whatever the spelling. Written from NumPy's documented signatures, not from unyt's handlers.
AF_SPELL = {
    "concatenate": {"axis_pos": lambda np_, x0, x1: np_.concatenate([x0, x1], 0),
                    "tuple_axis_kw": lambda np_, x0, x1: np_.concatenate((x0, x1), axis=0),
                    "axis_none": lambda np_, x0, x1: np_.concatenate([x0, x1], axis=None),
                    "dtype_kw": lambda np_, x0, x1: np_.concatenate([x0, x1], 0, None, dtype=None)},
    "stack": {"kw": lambda np_, x0, x1: np_.stack(arrays=[x0, x1]),
              "axis_pos": lambda np_, x0, x1: np_.stack((x0, x1), 1),
              "axis_kw": lambda np_, x0, x1: np_.stack([x0, x1], axis=-1)},
    "vstack": {"kw": lambda np_, x0, x1: np_.vstack(tup=(x0, x1))},
    "hstack": {"kw": lambda np_, x0, x1: np_.hstack(tup=(x0, x1))},
    "dstack": {"kw": lambda np_, x0, x1: np_.dstack(tup=(x0, x1))},
    "column_stack": {"kw": lambda np_, x0, x1: np_.column_stack(tup=(x0, x1))},
    "block": {"kw": lambda np_, x0, x1: np_.block(arrays=[x0, x1]),
              "nested": lambda np_, x0, x1: np_.block([[x0], [x1]])},
    "append": {"kw": lambda np_, x0, x1: np_.append(arr=x0, values=x1),
               "axis_pos": lambda np_, x0, x1: np_.append(x0, x1, None),
               "axis_kw": lambda np_, x0, x1: np_.append(x0, values=x1, axis=None)},
    "where": {"cond_list": lambda np_, x0, x1: np_.where([True, False], x0, x1)},
    "choose": {"kw": lambda np_, x0, x1: np_.choose(a=np.array([0, 1]), choices=[x0, x1]),
               "tuple_mode_kw": lambda np_, x0, x1: np_.choose(np.array([0, 1]), (x0, x1), mode="raise"),
               "out_mode_pos": lambda np_, x0, x1: np_.choose(np.array([0, 1]), [x0, x1], None, "raise")},
    "select": {"kw": lambda np_, x0, x1: np_.select(condlist=[_mask(2), ~_mask(2)], choicelist=[x0, x1], default=_sel_default(x0)),
               "tuple": lambda np_, x0, x1: np_.select((_mask(2), ~_mask(2)), (x0, x1), _sel_default(x0))},
    "select_default": {"kw": lambda np_, x0, x1: np_.select([_mask(2)], [x0], default=x1),
                       "all_kw": lambda np_, x0, x1: np_.select(condlist=[_mask(2)], choicelist=[x0], default=x1)},
    "linspace": {"kw": lambda np_, x0, x1: np_.linspace(start=x0, stop=x1, num=3),
                 "stop_kw": lambda np_, x0, x1: np_.linspace(x0, stop=x1, num=3, endpoint=True)},
    "geomspace": {"kw": lambda np_, x0, x1: np_.geomspace(start=x0, stop=x1, num=3),
                  "stop_kw": lambda np_, x0, x1: np_.geomspace(x0, stop=x1, num=3)},
    "intersect1d": {"kw": lambda np_, x0, x1: np_.intersect1d(ar1=x0, ar2=x1),
                    "unique_pos": lambda np_, x0, x1: np_.intersect1d(x0, x1, False),
                    "ar2_kw": lambda np_, x0, x1: np_.intersect1d(x0, ar2=x1, assume_unique=False)},
    "union1d": {"kw": lambda np_, x0, x1: np_.union1d(ar1=x0, ar2=x1), "ar2_kw": lambda np_, x0, x1: np_.union1d(x0, ar2=x1)},
    "setdiff1d": {"kw": lambda np_, x0, x1: np_.setdiff1d(ar1=x0, ar2=x1),
                  "unique_pos": lambda np_, x0, x1: np_.setdiff1d(x0, x1, False)},
    "isin": {"kw": lambda np_, x0, x1: np_.isin(element=x0, test_elements=x1),
             "unique_invert_pos": lambda np_, x0, x1: np_.isin(x0, x1, False, False),
             "test_kw": lambda np_, x0, x1: np_.isin(x0, test_elements=x1, invert=False)},
    "interp": {"kw": lambda np_, x0, x1: np_.interp(x=x0, xp=x1, fp=np.array([1.0, 2.0])),
               "xp_kw": lambda np_, x0, x1: np_.interp(x0, xp=x1, fp=np.array([1.0, 2.0]))},
    "searchsorted": {"kw": lambda np_, x0, x1: np_.searchsorted(a=x0, v=x1),
                     "side_pos": lambda np_, x0, x1: np_.searchsorted(x0, x1, "left"),
                     "v_side_kw": lambda np_, x0, x1: np_.searchsorted(x0, v=x1, side="right")},
    "clip": {"a_kw": lambda np_, x0, x1: np_.clip(x0, a_min=x1, a_max=x1),
             "all_kw": lambda np_, x0, x1: np_.clip(a=x0, a_min=x1, a_max=x1),
             "minmax_kw": lambda np_, x0, x1: np_.clip(x0, min=x1, max=x1),
             "out_pos": lambda np_, x0, x1: np_.clip(x0, x1, x1, None)},
    "clip_max": {"a_max_kw": lambda np_, x0, x1: np_.clip(x0, x0.min() if hasattr(x0, "units") else None, a_max=x1),
                 "max_kw": lambda np_, x0, x1: np_.clip(x0, max=x1)},
    # every way of leaving one bound open: None positionally / by keyword (old and new parameter names), the bound omitted
    "clip_hi_none": {"kw_none": lambda np_, x0, x1: np_.clip(x0, a_min=x1, a_max=None),
                     "omitted_a_min_kw": lambda np_, x0, x1: np_.clip(x0, a_min=x1),
                     "omitted_min_kw": lambda np_, x0, x1: np_.clip(x0, min=x1),
                     "omitted_pos": lambda np_, x0, x1: np_.clip(x0, x1),
                     "min_kw_max_none": lambda np_, x0, x1: np_.clip(x0, min=x1, max=None),
                     "out_pos": lambda np_, x0, x1: np_.clip(x0, x1, None, None)},
    "clip_lo_none": {"kw_none": lambda np_, x0, x1: np_.clip(x0, a_min=None, a_max=x1),
                     "omitted_a_max_kw": lambda np_, x0, x1: np_.clip(x0, a_max=x1),
                     "omitted_max_kw": lambda np_, x0, x1: np_.clip(x0, max=x1),
                     "max_kw_min_none": lambda np_, x0, x1: np_.clip(x0, min=None, max=x1),
                     "all_kw": lambda np_, x0, x1: np_.clip(a=x0, a_min=None, a_max=x1, out=None)},
    "clip_out_lo_none": {"omitted_max_kw": lambda np_, c, x1: np_.clip(c, max=x1, out=c),
                         "kw_none": lambda np_, c, x1: np_.clip(c, a_min=None, a_max=x1, out=c)},
    "pad_const": {"mode_pos": lambda np_, x0, x1: np_.pad(x0, 1, "constant", constant_values=x1),
                  "kw_pair": lambda np_, x0, x1: np_.pad(array=x0, pad_width=(1, 1), mode="constant", constant_values=(x1, x1))},
    "diff_prepend": {"pos": lambda np_, x0, x1: np_.diff(x0, 1, -1, x1),
                     "kw_all": lambda np_, x0, x1: np_.diff(a=x0, n=1, axis=-1, prepend=x1)},
    "diff_append": {"pos_prepend_open": lambda np_, x0, x1: np_.diff(x0, 1, -1, np._NoValue, x1),
                    "both": lambda np_, x0, x1: np_.diff(x0, prepend=x0[:1], append=x1)},
    "ediff1d_end": {"pos": lambda np_, x0, x1: np_.ediff1d(x0, x1), "begin_none": lambda np_, x0, x1: np_.ediff1d(x0, to_end=x1, to_begin=None)},
    "ediff1d_begin": {"pos_end_open": lambda np_, x0, x1: np_.ediff1d(x0, None, x1), "kw_all": lambda np_, x0, x1: np_.ediff1d(ary=x0, to_begin=x1)},
    "isclose": {"kw": lambda np_, x0, x1: np_.isclose(a=x0, b=x1), "tol_pos": lambda np_, x0, x1: np_.isclose(x0, x1, 1e-5, 1e-8)},
    "insert": {"values_kw": lambda np_, x0, x1: np_.insert(x0, 0, values=x1),
               "kw": lambda np_, x0, x1: np_.insert(arr=x0, obj=0, values=x1),
               "axis_pos": lambda np_, x0, x1: np_.insert(x0, 0, x1, 0)},
    "place": {"vals_kw": lambda np_, c, x1: np_.place(c, _mask(2), vals=x1),
              "kw": lambda np_, c, x1: np_.place(arr=c, mask=_mask(2), vals=x1)},
    "put": {"v_kw": lambda np_, c, x1: np_.put(c, [0], v=x1),
            "kw": lambda np_, c, x1: np_.put(a=c, ind=[0], v=x1),
            "mode_pos": lambda np_, c, x1: np_.put(c, [0], x1, "raise")},
    "putmask": {"values_kw": lambda np_, c, x1: np_.putmask(c, _mask(2), values=x1),
                "kw": lambda np_, c, x1: np_.putmask(c, mask=_mask(2), values=x1)},
    "put_along_axis": {"kw": lambda np_, c, x1: np_.put_along_axis(arr=c, indices=np.array([0]), values=x1, axis=0),
                       "values_kw": lambda np_, c, x1: np_.put_along_axis(c, np.array([0]), values=x1, axis=0)},
    "fill_diagonal": {"val_kw": lambda np_, c, x1: np_.fill_diagonal(c, val=x1),
                      "kw": lambda np_, c, x1: np_.fill_diagonal(a=c, val=x1),
                      "wrap_pos": lambda np_, c, x1: np_.fill_diagonal(c, x1, False)},
    # without a mask (the whole of dst is overwritten: the known relabelling defect, whatever the spelling)
    "copyto": {"casting_pos": lambda np_, c, x1: np_.copyto(c, x1, "same_kind"),
               "casting_kw": lambda np_, c, x1: np_.copyto(c, x1, casting="same_kind"),
               "where_true_kw": lambda np_, c, x1: np_.copyto(c, x1, where=True),
               "where_true_pos": lambda np_, c, x1: np_.copyto(c, x1, "same_kind", True)},
    # with a mask: every way of handing over casting and where
    "copyto_where": {"pos": lambda np_, c, x1: np_.copyto(c, x1, "same_kind", _mask(2)),
                     "casting_pos": lambda np_, c, x1: np_.copyto(c, x1, "same_kind", where=_mask(2)),
                     "casting_kw": lambda np_, c, x1: np_.copyto(c, x1, casting="same_kind", where=_mask(2)),
                     "kw_reversed": lambda np_, c, x1: np_.copyto(c, x1, where=_mask(2), casting="unsafe"),
                     "mask_list_pos": lambda np_, c, x1: np_.copyto(c, x1, "same_kind", [True, False]),
                     "mask_all_true": lambda np_, c, x1: np_.copyto(c, x1, where=np.array([True, True]))},
}
SPELL_K0 = {"quick": ["same", "diffdim"], "thorough": ["same", "diffdim", "dimless", "percent", "barray"]}
SPELL_K1 = {"quick": ["same", "samedim", "diffdim", "dimless", "percent", "bscalar", "barray", "qlist_diff", "qlist_mixed"],
            "thorough": [k for k in KINDS if k not in TWIN_KINDS] + ["qlist_bC", "qlist_tup_mixed"]}


# call shapes whose second operand may have any length / may be a (1, 2) row next to a (2,) first operand
AF_ANYLEN = ["concatenate", "concatenate3", "hstack", "intersect1d", "union1d", "setdiff1d", "isin", "searchsorted", "insert", "place",
             "put", "putmask"]
AF_ROW = ["vstack", "where", "clip", "isin", "union1d", "searchsorted", "place", "put", "putmask"]


def af_shapes(fname, k1):
    """the shape pairs on which a call shape is run with second operand kind k1"""
    shapes = (AF_TARGET if fname in AF_TARGET else AF)[fname][2]
    if k1 in SEQ3:
        return [((2,), (3,))] if fname in AF_ANYLEN else []
    if k1 in SEQ_NEST:
        return [((2,), (1, 2))] if fname in AF_ROW else []
    return shapes


def af_applicable(fname, k0, k1, s1):
    if not (k0 in QUANTITY_KINDS or k1 in QUANTITY_KINDS) or not twin_ok(k0, k1):
        return False
    if k1 == "bscalar" and s1 != ():
        return False
    if k1 in QLIST_KINDS and s1 != seq_shape(k1):
        return False
    if k1 == "blist" and s1 != (2,):
        return False
    if fname in ("linspace", "geomspace") and k1 in LISTS:
        return False
    if fname == "append" and k1 in LISTS:
        return False  # np.append ravels a python list to a bare ndarray before any unyt handler is entered (see OUTSIDE)
    if fname == "in1d" and not hasattr(np, "in1d"):
        return False
    return True


def make_af_case(fname, k0, k1, shapes, dims, spell=None, history=()):
    target = fname in AF_TARGET or fname in AF_E_TARGET
    klass0, fn, _ = _af_entry(fname)
    base = fname.split("@")[0]  # <call shape>@<variant>: the size-0 extent variants of a call shape
    if spell is not None:
        fn = AF_SPELL[fname][spell]
    s0, s1 = shapes

    def h(ctx):
        W = World(ctx, *dims)
        run_history(ctx, W, history, k0, k1)
        a = W.operand(k0, s0, "p")
        b = W.operand(k1, s1, "q")
        tgt = a.copy("target") if target else a
        # an EMPTY bare operand has neither a unit nor an element: nothing of it is combined (only what carries units is compared)
        klass = "assign" if any(o.bare and not o.elems for o in (tgt, b)) else klass0
        res = xcall(fn, np, tgt.value, b.value)
        known = L_COPYLIST if (fname.startswith("copyto") and k1 in QLIST_KINDS) else AF_KNOWN.get(base)
        if base in ("isclose", "allclose") and res[0] == "ok" and not no_demand([tgt, b], klass):
            dl = [o for o in (tgt, b) if o.dim == "dimensionless" and is_unyt(ctx, o.value)]
            if k1 in QLIST_KINDS:
                # known defect: only `.units` of an operand is looked at; a python sequence of quantities has none and is read as
                # bare numbers in the other operand's unit (same hole as L_COPYLIST)
                known = L_CLOSELIST
            elif dl:
                # known defect: a quantity whose unit EQUALS `dimensionless` (scale 1 up to unyt's 1e-9 band) is treated like a bare
                # number and read in the other operand's unit. Must hold even so: no other dimensionless unit is let through
                known = L_CLOSE
                ctx.require(f"{fname}({k0},{k1}): returned normally for incommensurable operands beyond the known defect",
                            And(*[And(o.value.units.base_value >= 1 - 2e-9, o.value.units.base_value <= 1 + 2e-9) for o in dl]))
        judge(ctx, W, f"{fname}({k0},{k1})", fname, res, [tgt, b], klass, known)
        W.flush()
    # (the size-0 variants keep the id prefix of their call shape: a defect listed for the call shape is the same defect here)
    cid = (f"C01/af/{base}/{k0}+{k1}/{shstr(s0)}_{shstr(s1)}" + ("/empty-extent" + ("-" + fname.split("@")[1] if fname.split("@")[1] else "") if "@" in fname else "")
           + (f"/as-{spell}" if spell else "")) + (f"/after-{hist_id(history)}" if history else "")
    return Case(cid, h, bounds="symbolic: elements, scales", budget_s=3000, max_paths=6000,
                weight=4, conform=fname != "geomspace")


# ------------------------------------------------------------------------------------------------ assignment, methods, conversion

SETITEM = {
    "item": (lambda c, v: c.__setitem__(0, v), ()),
    "slice": (lambda c, v: c.__setitem__(slice(None), v), (2,)),
    "mask": (lambda c, v: c.__setitem__(_mask(2), v), ()),
    "ellipsis": (lambda c, v: c.__setitem__(Ellipsis, v), (2,)),
    "slice_bcast": (lambda c, v: c.__setitem__(slice(None), v), ()),
    # (value shape, target shape): index forms that take a sequence of values
    "fancy": (lambda c, v: c.__setitem__([0, 1], v), (2,)),
    "mask_all": (lambda c, v: c.__setitem__(np.array([True, True]), v), (2,)),
    "slice_part": (lambda c, v: c.__setitem__(slice(0, 2), v), (2,), (3,)),
    "fancy_part": (lambda c, v: c.__setitem__(np.array([0, 2]), v), (2,), (3,)),
    "mask_part": (lambda c, v: c.__setitem__(np.array([True, False, True]), v), (2,), (3,)),
    "slice3": (lambda c, v: c.__setitem__(slice(None), v), (3,), (3,)),
    "ellipsis3": (lambda c, v: c.__setitem__(Ellipsis, v), (3,), (3,)),
    "row": (lambda c, v: c.__setitem__(slice(0, 1), v), (1, 2), (2, 2)),
    "rows_bcast": (lambda c, v: c.__setitem__(Ellipsis, v), (1, 2), (2, 2)),
    "row_item": (lambda c, v: c.__setitem__(0, v), (2,), (2, 2)),
}
SETITEM_CORE = ["item", "slice", "mask", "ellipsis", "slice_bcast"]
# OPERAND EXTENT axis: an empty value stored into an empty selection (value shape, target shape)
SETITEM_E = {
    "empty_slice00": (lambda c, v: c.__setitem__(slice(0, 0), v), (0,), (2,)),
    "empty_fancy": (lambda c, v: c.__setitem__([], v), (0,), (2,)),
    "empty_mask_none": (lambda c, v: c.__setitem__(np.array([False, False]), v), (0,), (2,)),
    "empty_slice_all": (lambda c, v: c.__setitem__(slice(None), v), (0,), (0,)),
    "empty_ellipsis": (lambda c, v: c.__setitem__(Ellipsis, v), (0,), (0,)),
    "empty_rows": (lambda c, v: c.__setitem__(slice(0, 0), v), (0, 2), (2, 2)),
    "empty_target_scalar": (lambda c, v: c.__setitem__(slice(None), v), (), (0,)),
    "empty_target_bcast": (lambda c, v: c.__setitem__(Ellipsis, v), (1,), (0,)),
}
METHODS_E = {
    "empty_put": (lambda c, v: c.put([], v), (0,), (2,)),
    "empty_searchsorted": (lambda c, v: c.searchsorted(v), (0,), (2,)),
    "empty_fill": (lambda c, v: c.fill(v), (), (0,)),
}
EMPTY_SET_PAIRS = [("same", "diffdim"), ("diffdim", "same"), ("same", "samedim"), ("same", "dimless"), ("same", "percent"), ("dimless", "same"),
                   ("same", "barray"), ("same", "blist"), ("same", "twin_dim")]
METHODS = {
    "fill": (lambda c, v: c.fill(v), ()),
    "put": (lambda c, v: c.put([0], v), ()),
    "searchsorted": (lambda c, v: c.searchsorted(v), ()),
}


def assign_applicable(k1, s1):
    if k1 == "bscalar" and s1 != ():
        return False
    if k1 in QLIST_KINDS:
        return s1 == seq_shape(k1)
    if k1 == "blist" and s1 == ():
        return False
    return True


def make_assign_case(group, form, k0, k1, table, dims, history=()):
    fn, s1 = table[form][:2]
    s0 = table[form][2] if len(table[form]) > 2 else (2,)

    def h(ctx):
        W = World(ctx, *dims)
        run_history(ctx, W, history, k0, k1)
        a = W.operand(k0, s0, "p")
        b = W.operand(k1, s1, "q")
        tgt = a.copy("target")
        tag = f"{group}.{form}({k0},{k1})"
        known = None
        if group == "setitem":
            if b.dim == "dimensionless" and not b.bare:  # (a list of quantities is validated since 24f44a2)
                known = L_SETD
            elif k1 in SEQ_NEST:  # ... but only its top level is looked at
                known = L_SETNEST
        else:
            known = L_METHOD
        res = xcall(fn, tgt.value, b.value)
        if known == L_SETD and res[0] == "ok" and not commensurable([tgt, b]):
            # must hold even with the known defect: only a unit equal to 'dimensionless' itself (scale 1 up to unyt's
            # 1e-9 band) is let through
            sc = b.value.units.base_value
            ctx.require(f"{tag}: returned normally for incommensurable operands beyond the known defect",
                        And(sc >= 1 - 2e-9, sc <= 1 + 2e-9))
        judge(ctx, W, tag, group, res, [tgt, b], "assign", known)
        W.flush()
    return Case(f"C01/{group}/{form}/{k0}+{k1}" + (f"/after-{hist_id(history)}" if history else ""), h, bounds="symbolic: elements, scales",
                budget_s=3000, max_paths=6000, weight=3)


CTOR = {
    "array": lambda ua, v, reg: ua(v),
    "array_reg": lambda ua, v, reg: ua(v, registry=reg),
    # other spellings of the same two calls (argument-form axis)
    "array_kw": lambda ua, v, reg: ua(input_array=v),
    "array_units_none": lambda ua, v, reg: ua(v, None),
    "array_reg_pos": lambda ua, v, reg: ua(v, None, reg),
    "array_reg_kw": lambda ua, v, reg: ua(input_array=v, units=None, registry=reg),
}


def make_ctor_case(form, k1, dims):
    """unyt_array(sequence) without a unit argument merges the members into one array labelled with ONE unit: the members
    (a bare member is a dimensionless one) must be commensurable or the call must raise and leave every member as it was"""
    def h(ctx):
        W = World(ctx, *dims)
        b = W.operand(k1, seq_shape(k1) if k1 in SEQ else (2,), "q")
        members = SEQ[k1][2] if k1 in SEQ else "bb"
        # known defect: the constructor decides by the FIRST member whether the sequence carries units (and never looks inside
        # a nested one); any other sequence goes to np.asarray, which strips the units
        known = L_CTOR if (k1 in SEQ and (members[0] == "b" or SEQ[k1][1])) else None
        res = xcall(CTOR[form], ctx.mods["unyt"].unyt_array, b.value, W.reg)
        judge(ctx, W, f"ctor.{form}({k1})", "ctor", res, [b], "merge", known)
        W.flush()
    return Case(f"C01/ctor/{form}/{k1}", h, bounds="symbolic: elements, scales", budget_s=600, weight=2)


def make_ctor_empty_case(form, cont, members, shape, dims):
    """unyt_array(sequence of EMPTY arrays): members A / B / C = empty quantity in xa / xb / xc, p = in xp, b = empty bare ndarray,
    l = the list []. The empty quantities carry units and are merged under one label: they must be commensurable or the call raises"""
    def h(ctx):
        W = World(ctx, *dims)
        kinds = {"A": "same", "B": "samedim", "C": "diffdim", "p": "percent", "b": "barray", "l": "blist"}
        ops = [W.operand(kinds[m], shape if m != "l" else (0,), f"q{i}") for i, m in enumerate(members)]
        seq = cont([o.value for o in ops])
        res = xcall(CTOR[form], ctx.mods["unyt"].unyt_array, seq, W.reg)
        klass = "assign" if any(o.bare for o in ops) else "merge"
        judge(ctx, W, f"ctor.{form}(empty {members})", "ctor", res, ops, klass)
        if res[0] == "raise":
            ctx.require(f"ctor.{form}(empty {members}): sequence unchanged after raise",
                        len(seq) == len(ops) and all(x is o.value for x, o in zip(seq, ops)))
        W.flush()
    return Case(f"C01/ctor-empty/{form}/{cont.__name__}-{members}/{shstr(shape)}", h, bounds="symbolic: scales", budget_s=600, weight=2)


CONVERT = {
    "to": lambda q, u: q.to(u),
    "in_units": lambda q, u: q.in_units(u),
    "to_value": lambda q, u: q.to_value(u),
    "convert_to_units": lambda q, u: q.convert_to_units(u),
}
# the same four entry points with the target handed over by keyword / with the optional parameters spelled out (argument-form axis)
CONVERT_SPELL = {
    "to": {"kw": lambda q, u: q.to(units=u), "equiv_pos": lambda q, u: q.to(u, None)},
    "in_units": {"kw": lambda q, u: q.in_units(units=u), "equiv_kw": lambda q, u: q.in_units(u, equivalence=None)},
    "to_value": {"kw": lambda q, u: q.to_value(units=u), "equiv_pos": lambda q, u: q.to_value(u, None)},
    "convert_to_units": {"kw": lambda q, u: q.convert_to_units(units=u), "equiv_pos": lambda q, u: q.convert_to_units(u, None)},
}


def make_convert_case(entry, cat, as_string, label=""):
    """q (unit of dimension i, scale xa_s) converted to the unit of dimension j (scale xc_s), every ordered pair"""
    def h(ctx):
        unyt = ctx.mods["unyt"]
        reg = ctx.registry([])
        sa, sc = ctx.real("xa_s", pos=True), ctx.real("xc_s", pos=True)
        W = World.__new__(World)
        W.ctx, W.reg, W.deferred = ctx, reg, {}
        for i, (dn, Dm) in enumerate(cat):
            ctx.add_row(reg, "xl" + _dname(i), Dm, sa)
            ctx.add_row(reg, "xr" + _dname(i), Dm, sc)
        for i, (dn, Dm) in enumerate(cat):
            for j, (dm, _) in enumerate(cat):
                q = ctx.quantity(W.vals("p", (2,)), "xl" + _dname(i), reg)
                a = Opd("source", q, dn, elements(q.d), [q], False, (2,))
                tu = unyt.Unit("xr" + _dname(j), registry=reg)
                t = Opd("target-unit", tu, dm, [], [], False, ())
                facts = (str(tu), tu.dimensions, tu.base_value, tu.base_offset)
                tag = f"{entry}[{dn}>{dm}]"
                res = xcall(CONVERT[entry], q, "xr" + _dname(j) if as_string else tu)
                judge(ctx, W, tag, entry, res, [a, t], "merge")
                if res[0] == "raise":
                    now = (str(tu), tu.dimensions, tu.base_value, tu.base_offset)
                    ctx.require(f"{tag}: target unit unchanged after raise",
                                And(now[0] == facts[0], now[1] == facts[1], exact_eq(now[2], facts[2]), exact_eq(now[3], facts[3])))
        W.flush()
    return Case(f"C01/convert/{entry}/{label}{'str' if as_string else 'unit'}", h, bounds=f"{len(cat)}x{len(cat)} ordered dimension pairs",
                budget_s=3000, max_paths=2000, weight=20, conform=False)


def make_convert_pair_case(entry, k0, k1, dims, spell=None, as_string=False, history=()):
    """q of kind k0 converted onto the unit of an operand of kind k1 (Unit object or its string), optionally in another call
    spelling and after earlier calls on the same unit pair"""
    fn = CONVERT_SPELL[entry][spell] if spell else CONVERT[entry]

    def h(ctx):
        W = World(ctx, *dims)
        run_history(ctx, W, history, k0, k1)
        a = W.operand(k0, (2,), "p")
        b = W.operand(k1, (), "q")
        tu = b.value.units
        t = Opd("target-unit", tu, b.dim, [], [], False, ())
        facts = (str(tu), tu.dimensions, tu.base_value, tu.base_offset)
        tag = f"{entry}[{k0}>{k1}]"
        res = xcall(fn, a.value, str(tu) if as_string else tu)
        judge(ctx, W, tag, entry, res, [a, t], "merge")
        if res[0] == "raise":
            now = (str(tu), tu.dimensions, tu.base_value, tu.base_offset)
            ctx.require(f"{tag}: target unit unchanged after raise",
                        And(now[0] == facts[0], now[1] == facts[1], exact_eq(now[2], facts[2]), exact_eq(now[3], facts[3])))
        W.flush()
    cid = (f"C01/convert/{entry}/pair/{k0}>{k1}/{'str' if as_string else 'unit'}" + (f"/as-{spell}" if spell else "")
           + (f"/after-{hist_id(history)}" if history else ""))
    return Case(cid, h, bounds="symbolic: elements, scales", budget_s=600, weight=2)


def make_convert_twin_case(entry, dims):
    """q in xa (registry 1) converted to the Unit object xa of another registry: same spelling and scale but another dimension
    (must raise), same spelling and dimension but another scale (no demand), and the re-dimensioned xa of one registry"""
    def h(ctx):
        W = World(ctx, *dims)
        for src, tgt in (("same", "twin_dim"), ("twin_dim", "same"), ("same", "twin_scale"), ("redim_old", "redim_new"),
                         ("redim_new", "redim_old")):
            a = W.operand(src, (2,), "p")
            tu = W.twin_unit(tgt) if tgt in TWIN_KINDS else ctx.mods["unyt"].Unit("xa", registry=W.reg)
            tdim = {"twin_dim": W.n1, "twin_scale": W.n0, "redim_old": W.n0, "redim_new": W.n1, "same": W.n0}[tgt]
            t = Opd("target-unit", tu, tdim, [], [], False, ())
            facts = (str(tu), tu.dimensions, tu.base_value, tu.base_offset)
            tag = f"{entry}[{src}>{tgt}]"
            res = xcall(CONVERT[entry], a.value, tu)
            judge(ctx, W, tag, entry, res, [a, t], "merge")
            if res[0] == "raise":
                now = (str(tu), tu.dimensions, tu.base_value, tu.base_offset)
                ctx.require(f"{tag}: target unit unchanged after raise",
                            And(now[0] == facts[0], now[1] == facts[1], exact_eq(now[2], facts[2]), exact_eq(now[3], facts[3])))
        W.flush()
    return Case(f"C01/convert/{entry}/twin", h, bounds="same symbol in two registries / re-dimensioned symbol", budget_s=600, weight=3)


def make_setitem_dims_case(cat, form):
    """a[0] = q / a[:] = q for every ordered pair of dimensions of the catalogue (target unit of scale xa_s, value of scale xc_s)"""
    def h(ctx):
        reg = ctx.registry([])
        sa, sc = ctx.real("xa_s", pos=True), ctx.real("xc_s", pos=True)
        W = World.__new__(World)
        W.ctx, W.reg, W.deferred = ctx, reg, {}
        for i, (dn, Dm) in enumerate(cat):
            ctx.add_row(reg, "xl" + _dname(i), Dm, sa)
            ctx.add_row(reg, "xr" + _dname(i), Dm, sc)
        for i, (dn, _) in enumerate(cat):
            for j, (dm, _) in enumerate(cat):
                if True:
                    t = ctx.quantity(W.vals("p", (2,)), "xl" + _dname(i), reg)
                    v = ctx.quantity(W.vals("q", ()), "xr" + _dname(j), reg)
                    a = Opd("target", t, dn, elements(t.d), [t], False, (2,))
                    b = Opd("value", v, dm, elements(v.d), [v], False, ())
                    known = L_SETD if (dm == "dimensionless" and dn != "dimensionless") else None
                    res = xcall(SETITEM[form][0], t, v)
                    if known and res[0] == "ok":
                        ctx.require(f"setitem.{form}[{dn}<{dm}]: returned normally for incommensurable operands beyond the known defect",
                                    And(sc >= 1 - 2e-9, sc <= 1 + 2e-9))
                    judge(ctx, W, f"setitem.{form}[{dn}<{dm}]", "setitem", res, [a, b], "assign", known)
        W.flush()
    return Case(f"C01/setitem/dims/near-{form}", h, bounds=f"{len(cat)}x{len(cat)} ordered dimension pairs", budget_s=3000, max_paths=2000,
                weight=30, conform=False)


def make_unit_addsub_case(cat):
    """Unit + Unit, Unit - Unit (and in-place): never a value, whatever the dimensions; both units intact"""
    def h(ctx):
        unyt = ctx.mods["unyt"]
        reg = ctx.registry([])
        sa, sc = ctx.real("xa_s", pos=True), ctx.real("xc_s", pos=True)
        us = []
        for i, (dn, Dm) in enumerate(cat):
            ctx.add_row(reg, "xl" + _dname(i), Dm, sa)
            ctx.add_row(reg, "xr" + _dname(i), Dm, sc)
        for i, (dn, Dm) in enumerate(cat):
            us.append((dn, unyt.Unit("xl" + _dname(i), registry=reg), unyt.Unit("xr" + _dname(i), registry=reg)))
        f = lambda u: (str(u), u.dimensions, u.base_value, u.base_offset)
        for (dn, ul, _), (dm, _, ur) in itertools.product(us, us):
            for opn, op in (("+", operator.add), ("-", operator.sub), ("+=", operator.iadd), ("-=", operator.isub)):
                b0, b1 = f(ul), f(ur)
                res = xcall(op, ul, ur)
                tag = f"Unit{opn}[{dn}|{dm}]"
                ctx.observe(tag, "ok" if res[0] == "ok" else type(res[1]).__name__)
                if res[0] == "ok":
                    ctx.require(f"{tag}: returned a value", dn == dm)
                else:
                    n0, n1 = f(ul), f(ur)
                    ctx.require(f"{tag}: units unchanged after raise",
                                And(n0[0] == b0[0], n0[1] == b0[1], exact_eq(n0[2], b0[2]), exact_eq(n0[3], b0[3]),
                                    n1[0] == b1[0], n1[1] == b1[1], exact_eq(n1[2], b1[2]), exact_eq(n1[3], b1[3])), to_solver=True)
    return Case("C01/unit/addsub", h, bounds=f"{len(cat)}x{len(cat)} ordered dimension pairs", budget_s=3000, weight=10, conform=False)


# ------------------------------------------------------------------------------------------------ case list

# history axis: operand-kind pairs of the call under test (the pairs whose verdict differs between operations: a dimensionless /
# bare operand is accepted by ordering comparisons and by the free keys, refused elsewhere; another dimension is answered by the
# ==/!= constant and by the free keys, refused elsewhere; same spelling in another registry) ...
HIST_UF_PAIRS = {
    "quick": [("same", "dimless"), ("same", "percent"), ("same", "bscalar"), ("dimless", "same"), ("same", "diffdim"),
              ("same", "twin_dim"), ("same", "qlist_diff")],
    "thorough": [("same", "dimless"), ("same", "percent"), ("same", "bscalar"), ("same", "barray"), ("dimless", "same"),
                 ("percent", "same"), ("bscalar", "same"), ("barray", "same"), ("same", "diffdim"), ("diffdim", "same"),
                 ("same", "samedim"), ("same", "twin_dim"), ("twin_dim", "same"), ("same", "twin_scale"), ("redim_old", "redim_new"),
                 ("same", "qlist_diff"), ("same", "qlist_same"), ("same", "qlist_mixed"), ("same", "blist"), ("diffdim", "percent")],
}
# ... and the earlier calls: an ordering comparison (call and operator form, both operand orders), ==, a free key, a logical key,
# a commensurability-requiring key on the same pair (refused, or let through by the zero exemption), on the left unit with itself
# and with a commensurable partner, a conversion attempt and a merging array function
HIST_UF_MAIN = [(("uf", "less", "call", "same"),), (("uf", "multiply", "call", "same"),)]
HIST_UF = HIST_UF_MAIN + [
    (("uf", "greater_equal", "op", "same"),), (("uf", "less", "call", "swap"),), (("uf", "equal", "call", "same"),),
    (("uf", "logical_and", "call", "same"),), (("uf", "add", "call", "same"),), (("uf", "add", "call", "zero"),),
    (("uf", "add", "call", "self"),), (("uf", "maximum", "call", "comm"),), (("to", "swap"),), (("af", "concatenate", "same"),),
    (("uf", "add", "op", "comm"), ("uf", "greater", "call", "same")), (("uf", "add", "call", "tscale"),), (("to", "tscale"),),
]
HIST_UF_PAIRS_MAIN = [("same", "dimless"), ("same", "bscalar"), ("same", "diffdim"), ("bscalar", "same")]
HIST_UF_QUICK_KEYS = ("add", "maximum", "less")
HIST_AF_PAIRS = {"quick": [("same", "diffdim"), ("same", "dimless"), ("same", "twin_dim")],
                 "thorough": [("same", "diffdim"), ("diffdim", "same"), ("same", "dimless"), ("dimless", "same"), ("same", "percent"),
                              ("same", "twin_dim"), ("same", "qlist_diff"), ("barray", "same")]}
HIST_SET_PAIRS = {"quick": [("same", "diffdim"), ("same", "percent"), ("same", "twin_dim")],
                  "thorough": [("same", "diffdim"), ("same", "percent"), ("same", "twin_dim"), ("dimless", "same"), ("same", "qlist_diff"),
                               ("diffdim", "same"), ("same", "bscalar")]}
CONVERT_PAIRS = {"quick": [("same", "samedim"), ("same", "diffdim"), ("same", "dimless"), ("dimless", "same"), ("same", "twin_dim")],
                 "thorough": [("same", "samedim"), ("same", "diffdim"), ("diffdim", "same"), ("same", "dimless"), ("same", "percent"),
                              ("dimless", "same"), ("percent", "diffdim"), ("same", "twin_dim"), ("twin_dim", "same"), ("same", "twin_scale")]}
HIST_CONVERT = {"quick": [(("uf", "less", "call", "same"),), (("uf", "multiply", "call", "same"),), (("to", "comm"),), (("to", "self"),),
                          (("to", "tscale"),)],
                "thorough": [(("uf", "less", "call", "same"),), (("uf", "multiply", "call", "same"),), (("uf", "equal", "call", "swap"),),
                             (("to", "comm"),), (("to", "self"),), (("af", "concatenate", "comm"),), (("uf", "add", "call", "zero"),),
                             (("to", "tscale"),), (("uf", "add", "call", "tscale"),)]}
CTOR_SPELL_KINDS = ["blist", "qlist_same", "qlist_diff", "qlist_mixed", "qlist_bC", "qlist_tup_mixed", "qlist_nest_mixed"]


def hist_ok(hist, k0, k1):
    """'tscale' steps only before a call whose operands share the spelling xa (same + twin_dim)"""
    return not any(st[-1] == "tscale" for st in hist) or (k0, k1) == ("same", "twin_dim")


def hist_af(fname, tier):
    """earlier calls before an array-function call: a comparison / a free key on the same unit pair, the same call shape on
    commensurable operands (other unit of the dimension; the unit with itself), a conversion between commensurable units"""
    h = [(("uf", "less", "call", "same"),), (("af", fname, "comm"),), (("af", fname, "self"),), (("af", fname, "tscale"),)]
    if tier != "quick":
        h += [(("uf", "multiply", "call", "same"),), (("to", "comm"),), (("uf", "equal", "call", "swap"),),
              (("af", "concatenate" if fname != "concatenate" else "where", "comm"),)]
    return h


def _kind_pairs():
    for k0, k1 in itertools.product(KINDS, KINDS):
        if (k0 in QUANTITY_KINDS or k1 in QUANTITY_KINDS) and twin_ok(k0, k1):
            yield k0, k1


def _ok_shape(k, s):
    if k == "bscalar":
        return s == ()
    if k in LISTS:
        return s in ((), (2,))
    return True


def dim_key(expr):
    """oracle identity of a dimension: its exponent vector over the base dimension symbols (two catalogue names such as
    tension and specific_flux, or charge_cgs and magnetic_flux_cgs, are one dimension)"""
    import sympy
    pw = sympy.sympify(expr).as_powers_dict()
    return "*".join(sorted(f"{b}^{e}" for b, e in pw.items() if e != 0)) or "dimensionless"


def cases(tier, mods):
    from symx import kernels
    # the interp handler calls np.interp(...) (not ._implementation) on the stripped arrays: let the A8 kernel model answer it
    kernels.FuncProxy.call_fallback = True
    check_names(mods, NAMES)
    cat, seen = [], set()
    for n, Dm in dims_catalogue(mods, tier):
        k = dim_key(Dm)
        if k not in seen:  # one representative per distinct dimension
            seen.add(k)
            cat.append((n if k != "dimensionless" else "dimensionless", Dm))
    check_names(mods, ["xl" + _dname(i) for i in range(len(cat))] + ["xr" + _dname(i) for i in range(len(cat))])
    byname = dict(cat)
    dims = (("length", byname["length"]), ("time", byname["time"]))
    near = near_catalogue(mods, tier)
    if len(near) > len(cat):
        check_names(mods, ["xl" + _dname(i) for i in range(len(near))] + ["xr" + _dname(i) for i in range(len(near))])
    out = []
    names = binary_keys(mods)
    quick = tier == "quick"
    # shape pair -> forms run on it
    plan = {((), ()): FORMS, ((2,), ()): ["call", "op", "out_b", "at", "reduce_initial", "iop"] if quick else FORMS,
            ((2,), (2,)): ["call", "iop"] if quick else FORMS}
    if not quick:
        plan.update({((), (2,)): FORMS, ((2, 2), (2,)): ["call", "op", "iop", "out_q"], ((2,), (2, 2)): ["call", "op"],
                     ((2, 2), ()): ["call", "iop", "at", "reduce_initial"], ((2, 2), (2, 2)): ["call"]})
    left = QUANTITY_KINDS + ["bscalar", "barray"] if quick else KINDS
    for name in names:
        if name in REQUIRE:
            for k0, k1 in _kind_pairs():
                if k0 not in left:
                    continue
                for (s0, s1), forms in plan.items():
                    if not (_ok_shape(k0, s0) and _ok_shape(k1, s1)):
                        continue
                    if quick and (s0, s1) != ((), ()) and name not in QUICK_SHAPED:
                        continue  # quick tier: array shapes for one key of each family (the shape logic does not depend on the key)
                    if (s0, s1) == ((2,), ()) and (k0 in LISTS or k1 in LISTS):
                        continue  # a list has 2 elements whatever the nominal shape: covered by ((),()) and ((2,),(2,))
                    if (2, 2) in (s0, s1) and name in FORKING and not (k0 in QUANTITY_KINDS and k1 in QUANTITY_KINDS):
                        continue  # zero-scan forks x element-comparison forks: thousands of paths per case; cut (see BOUNDS)
                    if (s0, s1) == ((2,), (2,)) and name in FORKING:
                        forms = [f for f in forms if f != "outer"]  # 4 element pairs x 3 outcomes each on top of the zero scan
                    out.append(make_ufunc_case(name, k0, k1, s0, s1, *dims, forms=forms))
            # the further unit-carrying sequences next to a quantity: the coercion of a sequence operand is one step shared by all
            # keys, so the quick tier runs one key per family; left position in the thorough tier
            if not quick or name in QUICK_SHAPED:
                for kq, ks in itertools.product(("same", "diffdim") if quick else ("same", "diffdim", "dimless"), SEQ_NEW):
                    shp = seq_shape(ks)
                    if quick and ks in SEQ_COERCIBLE:
                        # these are coerced like the core list kinds (whose full matrix is run): two keys, call / operator form
                        if name in ("add", "less", "equal") and ks in SEQ_QUICK_COERCIBLE:
                            out.append(make_ufunc_case(name, kq, ks, (), shp, *dims, forms=["call", "op"]))
                        continue
                    run = [((), shp, FORMS)]
                    if ks in SEQ2 and not quick:
                        run.append(((2,), shp, ["call", "op", "iop", "out_q"]))
                    elif ks in SEQ2 and name in ("add", "less", "equal", "maximum"):
                        run.append(((2,), shp, ["call", "iop"]))
                    for s0, s1, forms in run:
                        out.append(make_ufunc_case(name, kq, ks, s0, s1, *dims, forms=forms))
                    if not quick and kq != "dimless":
                        out.append(make_ufunc_case(name, ks, kq, shp, (), *dims, forms=["call", "op"]))
            out.append(make_dims_case(name, cat, False))
            out.append(make_dims_case(name, cat, True))
            out.append(make_dims_twin_case(name, cat))
            # near-miss dimension pairs (written as exponent vectors): call form, operator form in the thorough tier
            out.append(make_dims_case(name, near, False, label="near", ops=not quick))
        elif name in FREE and name not in FREE_NOT_RUN:
            sh = [((2,), (2,))] if name in ("matmul", "vecdot") else [((), ()), ((2,), (2,))]
            for k0, k1 in (("same", "diffdim"), ("same", "bscalar"), ("barray", "diffdim"), ("same", "qlist_mixed"), ("diffdim", "percent"),
                           ("same", "twin_dim"), ("redim_old", "redim_new")):
                for s0, s1 in sh:
                    if _ok_shape(k0, s0) and _ok_shape(k1, s1):
                        out.append(make_ufunc_case(name, k0, k1, s0, s1, *dims, forms=["call", "op", "out_q", "outer"], group="free"))
    for fname in list(AF) + list(AF_TARGET):
        for k0 in AF_K0:
            for shp in (AF_TARGET if fname in AF_TARGET else AF)[fname][2]:
                for k1 in AF_K1:
                    if af_applicable(fname, k0, k1, shp[1]):
                        out.append(make_af_case(fname, k0, k1, shp, dims))
        # the further unit-carrying sequences (heterogeneous, tuples, 0-d array members, three members, nested) as second operand
        for k1 in SEQ_NEW:
            for k0 in (("same", "diffdim") if quick else ("same", "diffdim", "dimless", "percent", "barray")):
                for shp in af_shapes(fname, k1):
                    if af_applicable(fname, k0, k1, shp[1]):
                        out.append(make_af_case(fname, k0, k1, shp, dims))
        # argument-form axis: every other spelling of the call shape
        for spell in AF_SPELL.get(fname, ()):
            for k0 in SPELL_K0[tier]:
                for shp in (AF_TARGET if fname in AF_TARGET else AF)[fname][2]:
                    for k1 in SPELL_K1[tier]:
                        if af_applicable(fname, k0, k1, shp[1]) and not (k1 in SEQ_NEW and shp not in af_shapes(fname, k1)):
                            out.append(make_af_case(fname, k0, k1, shp, dims, spell=spell))
        # history axis: the call (canonical spelling, and in the thorough tier every spelling) after earlier calls on the same units
        shp0 = (AF_TARGET if fname in AF_TARGET else AF)[fname][2][0]
        for k0, k1 in HIST_AF_PAIRS[tier]:
            if not af_applicable(fname, k0, k1, shp0[1]):
                continue
            for hist in hist_af(fname, tier):
                if not hist_ok(hist, k0, k1):
                    continue
                out.append(make_af_case(fname, k0, k1, shp0, dims, history=hist))
                if not quick and (k0, k1) == ("same", "diffdim") and hist[0][:2] in (("uf", "less"), ("af", fname)):
                    for spell in AF_SPELL.get(fname, ()):
                        out.append(make_af_case(fname, k0, k1, shp0, dims, spell=spell, history=hist))
    # history axis for the ufunc keys: (earlier call) x (key under test) on one unit pair
    for name in names:
        if name not in REQUIRE:
            continue
        done = set()

        def add_hist(k0, k1, s0, forms, hist, name=name, done=done):
            if hist == (("uf", name, "call", "same"),) or (k0, k1, s0, hist) in done or not hist_ok(hist, k0, k1):
                return  # (the forms of one case already follow each other in one path)
            done.add((k0, k1, s0, hist))
            out.append(make_ufunc_case(name, k0, k1, s0, shape_of(k1, ()), *dims, forms=forms, history=hist))
        if quick:
            # every key after the two main earlier calls on the pairs that decide; three keys (one per unit rule: sum-like,
            # min/max-like, comparison) after every earlier call on every pair; the in-place / at / out= forms on arrays
            for k0, k1 in HIST_UF_PAIRS_MAIN:
                for hist in HIST_UF_MAIN:
                    add_hist(k0, k1, (), ["call", "op"], hist)
            if name in HIST_UF_QUICK_KEYS:
                for k0, k1 in HIST_UF_PAIRS["quick"]:
                    for hist in HIST_UF:
                        add_hist(k0, k1, (), ["call", "op"], hist)
            if name in INPLACE or name == "maximum":
                for k0, k1 in (("same", "bscalar"), ("same", "dimless"), ("same", "diffdim")):
                    for hist in HIST_UF_MAIN:
                        add_hist(k0, k1, (2,), ["call", "iop", "at", "out_b"], hist)
        else:
            for k0, k1 in HIST_UF_PAIRS["thorough"]:
                for hist in HIST_UF:
                    add_hist(k0, k1, (), ["call", "op", "out_q", "outer"], hist)
                    if k0 in QUANTITY_KINDS and hist in HIST_UF_MAIN and (name in INPLACE or name in ("maximum", "less", "hypot")):
                        add_hist(k0, k1, (2,), ["call", "iop", "at", "out_b"], hist)
    for form in SETITEM_CORE:
        for k0, k1 in HIST_SET_PAIRS[tier]:
            if not assign_applicable(k1, SETITEM[form][1]):
                continue
            for hist in [(("uf", "less", "call", "same"),), (("uf", "multiply", "call", "same"),), (("setitem", form, "comm"),),
                         (("setitem", form, "self"),), (("to", "comm"),), (("setitem", form, "tscale"),), (("to", "tscale"),)]:
                if hist_ok(hist, k0, k1):
                    out.append(make_assign_case("setitem", form, k0, k1, SETITEM, dims, history=hist))
    for form in SETITEM:
        for k0, k1 in itertools.product(QUANTITY_KINDS if form in SETITEM_CORE else ("same", "diffdim", "dimless", "percent"), KINDS):
            if assign_applicable(k1, SETITEM[form][1]) and twin_ok(k0, k1):
                out.append(make_assign_case("setitem", form, k0, k1, SETITEM, dims))
        for k0, k1 in itertools.product(("same", "diffdim", "dimless", "percent"), SEQ_NEW):
            if assign_applicable(k1, SETITEM[form][1]):
                out.append(make_assign_case("setitem", form, k0, k1, SETITEM, dims))
    # OPERAND EXTENT axis: size-0 operands in every family that merges values
    for fname in list(AF_E) + list(AF_E_TARGET):
        for shp in _af_entry(fname)[2]:
            for k0, k1 in EMPTY_AF_PAIRS[tier]:
                if empty_af_applicable(fname, k0, k1, *shp):
                    out.append(make_af_case(fname, k0, k1, shp, dims))
        if not quick or fname.split("@")[0] in ("concatenate", "union1d", "where", "insert", "place", "searchsorted", "clip"):
            # ... and after earlier calls on non-empty operands of the same units
            shp = _af_entry(fname)[2][0]
            for hist in [(("uf", "less", "call", "same"),), (("af", "concatenate", "comm"),)]:
                out.append(make_af_case(fname, "same", "diffdim", shp, dims, history=hist))
    for name in names:
        if name not in REQUIRE:
            continue
        full = not quick or name in QUICK_SHAPED
        for k0, k1 in (EMPTY_UF_PAIRS[tier] if full else [("same", "diffdim"), ("same", "dimless"), ("same", "barray")]):
            for s0, s1 in (EMPTY_UF_SHAPES if not quick else EMPTY_UF_SHAPES[:5] if full else EMPTY_UF_SHAPES[:1]):
                if k1 == "blist" and s1 != E0:
                    continue
                forms = [f for f in EMPTY_UF_FORMS if not (f == "outer" and name in FORKING and () not in (s0, s1) and 0 not in s0 + s1)]
                out.append(make_ufunc_case(name, k0, k1, s0, s1, *dims, forms=forms, group="uf-empty"))
    for form in SETITEM_E:
        for k0, k1 in EMPTY_SET_PAIRS:
            if not (k1 == "blist" and SETITEM_E[form][1] != (0,)):
                out.append(make_assign_case("setitem", form, k0, k1, SETITEM_E, dims))
    for form in METHODS_E:
        for k0, k1 in (("same", "diffdim"), ("same", "dimless"), ("dimless", "same")):
            out.append(make_assign_case("method", form, k0, k1, METHODS_E, dims))
    for form in ("array", "array_reg") if quick else CTOR:
        for cont in (list, tuple):
            for members in ("AA", "AB", "AC", "CA", "Ap", "pC", "AAC", "CAA", "bC", "Cb", "lC", "Cl"):
                for shape in ((0,), (0, 2)) if quick or cont is tuple else ((0,), (0, 2), (2, 0)):
                    if cont is list or members in ("AC", "CA", "bC"):
                        out.append(make_ctor_empty_case(form, cont, members, shape, dims))
    for form in METHODS:
        for k0, k1 in itertools.product(("same", "dimless"), KINDS):
            if assign_applicable(k1, METHODS[form][1]) and twin_ok(k0, k1):
                out.append(make_assign_case("method", form, k0, k1, METHODS, dims))
    for form in CTOR:
        for k1 in ["blist"] + QLIST_KINDS:
            if quick and form not in ("array", "array_reg") and k1 not in CTOR_SPELL_KINDS:
                continue
            out.append(make_ctor_case(form, k1, dims))
    for entry in CONVERT:
        for as_string in (True, False):
            out.append(make_convert_case(entry, cat, as_string))
        out.append(make_convert_twin_case(entry, dims))
        out.append(make_convert_case(entry, near, False, label="near-"))
        if not quick or entry == "to":
            out.append(make_convert_case(entry, near, True, label="near-"))
        # argument-form and history axes of the conversion entry points
        for k0, k1 in CONVERT_PAIRS[tier]:
            for as_string in (False, True):
                if as_string and (k1 in TWIN_KINDS or k0 in TWIN_KINDS):
                    continue  # a string names the unit of the array's own registry
                for spell in [None] + list(CONVERT_SPELL[entry]):
                    if quick and as_string and spell != "kw":
                        continue
                    out.append(make_convert_pair_case(entry, k0, k1, dims, spell=spell, as_string=as_string))
            for hist in HIST_CONVERT[tier]:
                if hist_ok(hist, k0, k1):
                    out.append(make_convert_pair_case(entry, k0, k1, dims, history=hist))
    out.append(make_setitem_dims_case(near, "item"))
    out.append(make_setitem_dims_case(near, "slice_bcast"))
    out.append(make_unit_addsub_case(cat))
    return out
