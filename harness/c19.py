"""C19 - unit-checking helpers decide by physical equality, not by spelling."""
import warnings
from fractions import Fraction

import numpy as np

from .common import (PREFIX, And, Case, Iff, Implies, Not, Or, call, check_names, dims_catalogue, elements, eqmath,
                     exact_eq, vabs)

LEVEL = "other"
MANIFEST = dict(
    category="other",
    text=("Bounded symbolic execution of the real helpers (symx): allclose_units, assert_allclose_units, "
          "assert_array_equal_units, the numpy isclose/allclose/array_equal/array_equiv handlers and the accepts/returns "
          "decorators run on quantities whose values, unit scales, rtol and atol are z3 reals; per path z3 proves "
          "verdict <=> verdict computed on SI magnitudes (boundary band excused) for ALL values/scales/tolerances; models "
          "are replayed on plain unyt. Spelling twins (the same unit symbol with another scale or another dimension in a second "
          "registry, re-registered, built by hand, or re-assigned on the same object) and two-/three-call histories inside one "
          "path check that no verdict depends on how a unit is spelled or on earlier calls. The electromagnetic unit family - "
          "SI and Gaussian spellings of one quantity, commensurable although their dimension expressions differ - is walked through "
          "every helper (both systems, SI prefixes, tolerance in either system, symbolic-scale rows of an EM dimension), and the "
          "decorators are walked with a different declared dimension per checked position over all tuples of values that alias "
          "each other (same Unit object, same quantity object, prefixed, other dimension, bare). Every dimension is also checked against "
          "ALL its neighbours D*b**p (b each of unyt's 8 base dimensions, p in {1,-1,2}; one symbol and compound spelling, both "
          "directions) and table units carrying a bookkeeping dimension (rad, sr, rpm, dB, K, cd, lm ...) against their dimension with "
          "one base dropped / inverted / doubled. Objects the caller keeps: the same operand (and tolerance) objects go through 2-3 "
          "calls, both arguments wrap one buffer under two units, one object is both arguments, operands are views of larger arrays - "
          "every call carries the oracle on the values written down before the first call and must leave values and units of every "
          "object as they were; payload axis z3 terms / real float64, float32, int64 arrays (then rtol and atol are the symbols). "
          "Bounded: argument kinds, tolerance spellings, dimension choices, shapes <= (2,), histories of <= 3 calls."),
    design="DESIGN.md section 4 C19",
    technique="symbolic execution of the real Python code over z3 real terms; SMT (QF_NRA) obligations per path; counterexample replay")
EXPLANATION = (
    "The real allclose_units, assert_allclose_units, assert_array_equal_units, the __array_function__ handlers of "
    "numpy.isclose/allclose/array_equal/array_equiv with _array_comp_helper, and accepts/returns/_has_dimensions are executed "
    "on operands whose values, unit scales (custom registry rows), rtol and atol are z3 reals. The oracle is the verdict on SI "
    "magnitudes: commensurable and for every (broadcast) element |a*sa - d*sd| <= atol_SI + rtol*|d*sd| (written divided by "
    "sa > 0), a bare atol being read in the desired value's unit, a unit-carrying one in its own unit. Per path z3 decides "
    "pc & not(verdict <=> oracle), the exact boundary (|lhs-rhs| within 1e-6 of the operand magnitudes) excused both ways; "
    "re-expressing an operand in another unit must not change the verdict; the array_equal family must also see equal units; a "
    "decorated function body runs exactly when all checked arguments / return values have the declared dimension and its result "
    "object is handed through untouched (the decision never branches on a value or a scale: one path per case covers them all). "
    "Where a known finding makes the documented oracle fail, a twin obligation states the reading the code actually implements "
    "and must hold, so that any other deviation in those cells still alarms. "
    "Spelling and history independence: the single-call cases take all units of a call from one registry and make one call per "
    "path, so C19/twins/* and C19/decorator-history/* put the SAME spelling (plain, SI-prefixed, squared, in a product) into "
    "several registries of one path with other symbolic scales or another dimension (also: symbol removed and re-added, "
    "Unit(spelling, base_value=, dimensions=) built by hand, the units attribute of one quantity object re-assigned), mix them "
    "within one call (actual ~ desired ~ atol) and run histories of two and three calls inside one path (the runner clears "
    "unyt's caches only at the start of a path; harness unit names of the decorator histories are unique per case so that "
    "process-level state of a changed library cannot leak between cases). Every call of a history carries the oracle of the "
    "single-call cases, which knows neither spellings nor earlier calls; for the decorators the subjects of a history agree "
    "pairwise on exactly one candidate memo key (spelling / unit without declared dimension / declared dimension without unit / "
    "decorated function object / quantity object) and differ in the expected verdict, and what comes through a passing check "
    "must have the SI magnitude that went in (z3). "
    "Commensurable is not the same as 'equal dimension expression': C19/em-* take the operands (and the tolerance) from the "
    "electromagnetic family, where the SI spelling (C, A, T, V, ohm; dimensions with current_mks) and the Gaussian spelling (statC, "
    "statA, G, statV, statohm; fractional powers of mass and length) of one quantity convert into each other. The oracle's factors "
    "are physics written down in the harness (1 C = c/10 statC, 1 T = 1e4 G, 1 statV = c*1e-8 V, 1 statohm = c**2*1e-9 ohm), the "
    "values, rtol and atol are symbols, a harness row of an EM dimension with a symbolic scale serves as actual's unit; pairs of "
    "different electromagnetic quantities must be refused, re-expressing an operand in the other system must keep the verdict, "
    "and for the array_equal family units of the two systems are never equal units. "
    "Several checked values in one call: C19/decorators-multi/* give every checked position (2 or 3 arguments / return values, "
    "accepts stacked with returns in both orders) its own declared dimension out of {D0, D1, dimensionless} and walk ALL tuples of "
    "value kinds that alias each other - two values carrying one Unit object, the very same quantity object at two positions, the "
    "unit SI-prefixed, a unit of the other dimension, bare numbers, 'dimensionless' - through one decorated function per "
    "declaration; the call must go through untouched iff every position holds its declared dimension (harness table of kinds). "
    "Neighbour dimensions: the wrong dimensions of the decorator cases come from elsewhere in the catalogue, so C19/decorators-neighbour/* "
    "checks every dimension D against ALL dimensions that differ from it in ONE base dimension - N = D*b**p for b in {mass, length, time, "
    "temperature, angle, current, luminous intensity, logarithmic}, p in {1,-1,2}: a value of N at a slot declared D and a value of D at "
    "a slot declared N are refused, a value of N at a slot declared N passes (N spelled as one symbol of symbolic scale in a fresh registry "
    "and as the compound of the unit of D with the base row) through accepts positional/keyword, returns single/tuple, returns over "
    "accepts and _has_dimensions; C19/decorators-table/* holds table units whose dimension carries a base dimension easily taken for "
    "nothing (rad, degree, arcsec, sr, rpm, rad/s, dB, Np, K, cd, lm, lx ...) against their own dimension (pass) and that dimension with "
    "each base dropped, inverted, doubled (refused). "
    "Objects the caller keeps (C19/reuse/*): all cases above build fresh independent operands per call, so a helper that writes to its "
    "arguments answers them correctly. Here the same two operand objects and ONE tolerance object go through two and three calls (also "
    "swapped), actual and desired wrap ONE buffer under two units, one object is given as both arguments, operands are views into larger "
    "arrays the caller holds; every call carries the single-call oracle on the values the harness wrote down before the first call, and "
    "after every call each object, its base buffer and the atol quantity must still hold their values (z3 equality for symbolic payloads) and "
    "unit. Payload axis: z3 terms in object arrays with symbolic scales, and REAL float64 / float32 / int64 arrays of constants with constant "
    "scales (exactly representable) where rtol and atol remain symbols - so code that branches on the payload's dtype runs the branch it "
    "runs in production while every verdict is still decided by z3 for all tolerances."
)
BOUNDS = {
    "quick": "functions {allclose_units, assert_allclose_units, numpy.allclose, numpy.isclose, numpy.array_equal, "
             "numpy.array_equiv, assert_array_equal_units, accepts, returns, _has_dimensions}; operand forms {unyt_quantity, "
             "unyt_array (2,), bare scalar/ndarray/list} x units {same row, same dimension other symbolic scale, SI-prefixed, "
             "compound, other dimension, 'dimensionless', user dimensionless unit of symbolic scale}; atol {default, explicit 0, "
             "bare, 'dimensionless' quantity, own unit same dimension (plain/prefixed), own unit other dimension, user "
             "dimensionless unit}; rtol {bare symbolic, default, dimensionless quantity of scale 1 / symbolic scale, dimensional}; "
             "a selection of the product: every operand form with the finding-free tolerance spellings, the cells where the known "
             "findings fire (bare atol x different units, unit-carrying atol for the numpy handlers with scalar operands, rtol "
             "quantity) a few each; re-expression via another row / a prefixed unit; decorators x 4 usages over the 12-dimension "
             "quick catalogue, spellings {plain, k-prefixed, M-prefixed array, compound of base rows} and 4-6 wrong dimensions each; "
             "spelling twins and histories (C19/twins): registries {base, same spellings other scales, same spellings with xa a time} "
             "x 7 one-call mixes (actual~desired same spelling other scale / other dimension, prefixed, atol spelled like an operand "
             "unit with other scale / other dimension), 8 two-call histories (repeat with fresh values, swapped operands, "
             "same-then-cross, cross-then-same, twin scale, accepted-then-twin-dimension and reverse, prefixed twin) and 4 three-call "
             "histories for allclose_units/assert_allclose_units x atol {default, own unit, bare}, a selection of them for the numpy "
             "handlers, 11 one-/two-/three-call histories for array_equal/array_equiv/assert_array_equal_units; decorator histories "
             "(C19/decorator-history): subjects {unit, spelling twin of the other dimension, spelling twin of the same dimension "
             "and other scale, other spelling of the other dimension} x declared {own, other dimension}: ALL 64 ordered two-call "
             "histories x 4 kinds of twin {second registry, remove+add, hand-built Unit, units attribute re-assigned on the same "
             "object} (288 cases), 176 three-call histories (x,y,x / x,x,y / x,y,y) with the kind rotating; rotating over 26 dimension pairs "
             "(incl. EM counterparts, dimensionless), spellings {plain, k-prefixed, squared, product with a time row}, usages "
             "{accepts positional/keyword, returns single/tuple, _has_dimensions} same for all calls through one shared decorated "
             "function or mixed with a fresh decoration per call; electromagnetic family (C19/em-*): the 5 SI/Gaussian table pairs "
             "{C~statC, T~G, A~statA, V~statV, ohm~statohm} in both orders for all four closeness functions with the finding-free atol, "
             "forms q (and (2,) for the first pairs of allclose_units/np.allclose), atol written in actual's / desired's system, "
             "SI-prefixed, in another EM quantity, in a mechanical unit (a selection per function), bare atol and numpy's bare default on "
             "4 pairs (known-finding cells), 6 SI-prefixed cross pairs, 4 symbolic-scale rows (charge and magnetic field, both systems) as "
             "actual's unit, same-system operands with the tolerance in the other system, 7 pairs of different EM quantities, "
             "re-expression of actual/desired in the other system (5 quantities), 12 pairs for the array_equal family; several checked "
             "values in one call (C19/decorators-multi): 13 dimensions x 4 of the 10 usages {returns 2/3 values, accepts 2 positional / 2 "
             "keyword (reversed order) / positional+keyword / with an unchecked argument between / 3 positional, returns over accepts, "
             "accepts over returns positional / keyword}, other dimension rotating over 2-3 partners (incl. the EM counterpart), "
             "declarations {(D0,D1),(D1,D0),(D0,D0),(D0,N),(N,D0)} x ALL 64 pairs of the 8 value kinds, {(D0,D0,D1),(D0,D1,D0),(D1,D0,D0),"
             "(D0,D1,N)} x ALL 64 triples of 4 kinds; neighbour dimensions (C19/decorators-neighbour): the 12 dimensions of the quick catalogue x 8 "
             "base dimensions x powers {1,-1,2} x 2 spellings x 5 checks x 6 usages, 23 table units (C19/decorators-table) x every base of "
             "their dimension x {dropped, inverted, doubled} x 6 usages; kept objects (C19/reuse): 7 sharing patterns {reuse, reuse-swapped, "
             "reuse-3, shared-buffer, shared-buffer-swapped, same-object, views-of-a-base} x payload {z3 terms, float64} x atol {default, own "
             "unit, bare} for allclose_units, default atol for np.allclose, float32/int64 payloads and the other two closeness functions "
             "rotating (a third of the cells each), the array_equal family on symbolic payloads x the 6 patterns of <= 2 calls",
    "thorough": "same axes; all 10 same-dimension operand pairs x all atol spellings for both *_units helpers, bare atol on every "
                "pair, numpy handlers on all pairs, unit-carrying atol also with (2,) operands, re-expression with (2,) operands "
                "and via a third spelling; decorators: all 9 usages over all 53 dimensions of unyt.dimensions and the default unit "
                "table, spellings plus root ('xr**0.5') and square; twins: every history x every atol spelling x forms q and (2,) "
                "(three-call histories scalar only; the numpy handlers with a unit-carrying atol in two-call histories scalar only "
                "and without the prefixed twin) for all four closeness functions and the array_equal family; decorator "
                "histories: all 64 two-call histories x 4 kinds x 4 spellings x {same usage through one shared decorated function, "
                "mixed usages decorated afresh}, ALL 512 three-call histories x 4 kinds; electromagnetic family: every table pair in "
                "both orders x forms {q~q, a~a, a~q} x all unit-carrying tolerance spellings (own system, other system, prefixed, other EM "
                "quantity, mechanical unit) for all four functions, bare atol / numpy's bare default on all 10 ordered pairs for "
                "allclose_units and np.allclose and on 4 for the other two (known-finding cells), all prefixed pairs, rows, re-expressions (also with a "
                "unit-carrying atol and (2,) operands) and array_equal pairs; decorators-multi: all 10 usages for each of the 53 "
                "dimensions, returns-2/accepts-positional-2 against every partner dimension; neighbour dimensions for all 53 dimensions; kept objects: "
                "all 7 patterns x 4 payloads x all four closeness functions, unit-carrying and bare atol for histories of <= 2 calls, the "
                "array_equal family on all 7 patterns",
}
OUTSIDE = ("electromagnetic family: the SI/Gaussian factors are constants of unyt's table, so the unit scales of C19/em-* are "
           "concrete except for the harness rows, which unyt reaches only as the conversion TARGET (actual's unit): a user-defined "
           "unit of an EM dimension as the SOURCE of a cross-system conversion is refused by unyt's conversion layer (only the ten table "
           "names, SI-prefixed, are converted - stated limit of _check_em_conversion, C03's subject) and is not walked; compound units "
           "containing EM units; Mx/Wb and other EM-dimensioned table units without a counterpart row; decorators-multi: more than "
           "three checked positions, keyword-only parameters, *args/**kwargs of the wrapped function; "
           "histories longer than three calls, state carried between processes or through pickling (C11), spelling twins inside "
           "compound units other than square/product, twins of the tolerance's unit in histories (single calls only), memos "
           "keyed by object identity are only met through the re-assigned-units subject (identity reuse after garbage "
           "collection is not provoked); IEEE rounding/overflow/nan/inf and equal_nan (A1); units with an offset (degC, degF: a relative tolerance on an "
           "offset scale is not unit-invariant by construction); negative rtol/atol; array-valued atol/rtol; complex payloads, integer and "
           "float32 payloads other than the constant arrays of C19/reuse (there the values and unit scales are constants, only the "
           "tolerances are symbols); kept objects: sharing between an operand and the TOLERANCE's buffer, non-contiguous / read-only / "
           "0-d views, unyt_quantity operands, more than three calls; neighbour dimensions differing in two or more base dimensions at once "
           "(met only through the rotating catalogue partners); shapes beyond (2,); unit scales that differ by less than 1e-8 relative without being identical (unyt "
           "deliberately treats units within 1e-9 as the same unit); rtol given as a quantity to numpy.isclose/allclose; default "
           "values of a decorated function's parameters are never seen by accepts (not claimed either way); a function returning "
           "fewer values than returns() lists; for numpy.isclose/allclose an operand without units or in the unit 'dimensionless' "
           "adopts the unit of a DIMENSIONAL other operand - unyt's stated comparison rule ('we allow comparisons between data "
           "with units and dimensionless data', pinned upstream by test_isclose) - and is checked as such, so "
           "np.allclose(unyt_quantity(1,'dimensionless'), 1 m) == True is not reported; assert_array_equal_units refusing through "
           "the ValueError numpy.testing raises around a UnitOperationError counts as a refusal")
ASSUMPTIONS = [
    "A4+ when rtol/atol handed to numpy.isclose/allclose inside unyt._array_functions carries units, the stand-in evaluates the "
    "body of numpy.isclose (less_equal(abs(x-y), atol + rtol*abs(y)) | (x == y), isfinite(y) taken as true) with NumPy's own "
    "ufuncs, so that unyt's __array_ufunc__ meets the tolerance exactly as in production (symx/kernels.py _isclose_body)",
]

NAMES = ["xa", "xd", "xc", "xe", "xn", "xt", "xs", "xq", "xr", "xw", "xbm", "xbl", "xbt", "xbk", "xbg", "xbi", "xbj", "xbo", "xgq", "xhq",
         "xgb", "xhb"]
TOL = 1e-6
SEP = 1e-8


# ----------------------------------------------------------------------------------------------- operands

class Side:
    """oracle view of one operand: flat element values, SI scale of its unit, dimension tag, bare?, shape"""

    def __init__(self, obj, vals, scale, dim, bare, shape, ustr=None):
        self.obj, self.vals, self.scale, self.dim, self.bare, self.shape, self.ustr = obj, vals, scale, dim, bare, shape, ustr


def _dims(ctx, tag):
    D = ctx.mods["unyt"].dimensions
    if tag in EM_DIMS:
        return getattr(D, EM_DIMS[tag])
    return {"L": D.length, "T": D.time, "N": D.dimensionless, "C": D.length**2 / D.time}[tag]


# ---- the electromagnetic unit family: the SI and the Gaussian spelling of one physical quantity have DIFFERENT dimension
# expressions (charge_mks = current_mks*time, charge_cgs = length**1.5*mass**0.5/time) and are nevertheless commensurable:
# in_units()/to() converts between them. Dimension tags: <quantity letter><system>, e.g. "Qm" (coulomb side), "Qc" (statC side).
# The factors are physics, written down here independently of unyt's em_conversions table:
#   1 C = c/10 statC, 1 A = c/10 statA, 1 T = 1e4 G, 1 statV = c*1e-8 V (299.79 V), 1 statohm = c**2*1e-9 ohm   (c in cm/s)
C_CM = 29979245800.0
EM_DIMS = {"Qm": "charge_mks", "Qc": "charge_cgs", "Im": "current_mks", "Ic": "current_cgs", "Bm": "magnetic_field_mks",
           "Bc": "magnetic_field_cgs", "Pm": "electric_potential_mks", "Pc": "electric_potential_cgs", "Rm": "resistance_mks",
           "Rc": "resistance_cgs"}
# table name -> (dimension tag, reading of one unit in the SI partner unit, size of one unit in kg-m-s terms: 1 statC =
# 1 g**0.5 cm**1.5 / s = 10**-4.5 kg**0.5 m**1.5 / s ...)
EM_UNITS = {"C": ("Qm", 1.0, 1.0), "statC": ("Qc", 10.0 / C_CM, 10.0**-4.5),
            "A": ("Im", 1.0, 1.0), "statA": ("Ic", 10.0 / C_CM, 10.0**-4.5),
            "T": ("Bm", 1.0, 1.0), "G": ("Bc", 1.0e-4, 10.0**-0.5),
            "V": ("Pm", 1.0, 1.0), "statV": ("Pc", C_CM * 1.0e-8, 10.0**-2.5),
            "ohm": ("Rm", 1.0, 1.0), "statohm": ("Rc", C_CM**2 * 1.0e-9, 100.0)}
# harness rows of an EM dimension with a SYMBOLIC scale (kg-m-s size s): as the conversion TARGET unyt reaches them from the
# table unit of the other system
EM_ROWS = {"xgq": "Qc", "xhq": "Qm", "xgb": "Bc", "xhb": "Bm"}
EM_PREFIXES = ("k", "m", "u", "M")


def em_split(spec):
    """'mstatC' -> ('m', 'statC') | None ('G', 'T', 'M...' read as table names first, as unyt does)"""
    if spec in EM_UNITS:
        return "", spec
    if spec[:1] in EM_PREFIXES and spec[1:] in EM_UNITS:
        return spec[0], spec[1:]
    return None


def em_quantity(tag):
    return tag[0] if tag in EM_DIMS else None


def commensurable(d1, d2):
    """same dimension tag, or the SI and the Gaussian side of one electromagnetic quantity"""
    return d1 == d2 or (em_quantity(d1) is not None and em_quantity(d1) == em_quantity(d2))


def kms_size(ctx, reg, spec):
    """size of one unit in kg-m-s terms (what unyt calls base_value) - only used to STATE the reading the code implements where
    a known finding makes the documented oracle fail"""
    sp = em_split(spec)
    if sp is not None:
        return EM_UNITS[sp[1]][2] * (PREFIX[sp[0]] if sp[0] else 1.0)
    return _row(ctx, reg, spec, EM_ROWS[spec])


# unyt's table (pinned by its test_electromagnetic: "1 statV = 1e8/c V") has the volt/statvolt factor upside down; the reading
# the code implements is kept beside the physical one so that the cells of that known finding still alarm on anything else
def pinned_scale(spec, scale):
    sp = em_split(spec) if spec else None
    if sp is not None and sp[1] == "statV":
        return scale * ((1.0e8 / C_CM) / (C_CM * 1.0e-8))
    return scale


def twin_registry(ctx, tag, dims=None):
    """a further registry of the same path in which the harness rows are spelled the same but carry their own scale symbols
    (`<name>_s<tag>`) and, for the names in `dims` (name -> dimension tag), another dimension: the spelling twins"""
    reg = ctx.registry([])
    reg._c19_tag = tag
    reg._c19_dims = dict(dims or {})
    return reg


def _dimtag(reg, name, default):
    return getattr(reg, "_c19_dims", {}).get(name, default)


def _row(ctx, reg, name, tag, prefixable=False):
    """harness unit `name` with a symbolic positive scale (created once per path and registry); a registry carrying
    `_c19_fixed` (name -> number) gets that constant scale instead (payloads of a real float/int dtype, see C19/reuse)"""
    fixed = getattr(reg, "_c19_fixed", None)
    s = fixed[name] if fixed is not None else ctx.real(name + "_s" + getattr(reg, "_c19_tag", ""), pos=True)
    if name not in reg.lut:
        ctx.add_row(reg, name, _dims(ctx, _dimtag(reg, name, tag)), s, 0.0, prefixable=prefixable)
    return s


LROWS = ("xa", "xd", "xc", "xe")


def unit_of(ctx, reg, spec):
    """spec -> (unit string, SI scale, dimension tag). 'xa','xd','xc','xe' length rows of symbolic scale; 'kxa' SI-prefixed;
    'xa**2/xs' compound; '1000*xa' scaled spelling; 'xt' time row; 'xn' dimensionless row of symbolic scale; 'dimensionless'"""
    if spec == "dimensionless":
        return spec, 1.0, "N"
    if spec == "xn":
        return spec, _row(ctx, reg, "xn", "N"), "N"
    if spec == "xt":
        return spec, _row(ctx, reg, "xt", "T"), "T"
    if spec in LROWS:
        return spec, _row(ctx, reg, spec, "L", prefixable=True), _dimtag(reg, spec, "L")
    if spec[0] in ("k", "c", "u") and spec[1:] in LROWS:
        s = _row(ctx, reg, spec[1:], "L", prefixable=True)
        return spec, s * PREFIX[spec[0]], _dimtag(reg, spec[1:], "L")
    if spec.endswith("**2/xs"):
        if _dimtag(reg, spec[:-6], "L") != "L":
            raise KeyError("compound spelling of a re-dimensioned twin row: " + spec)
        s = _row(ctx, reg, spec[:-6], "L", prefixable=True)
        st = _row(ctx, reg, "xs", "T")
        return spec, s * s / st, "C"
    if spec.startswith("1000*"):
        u, s, d = unit_of(ctx, reg, spec[5:])
        return spec, s * 1000.0, d
    sp = em_split(spec)
    if sp is not None:
        tag, si_reading, _ = EM_UNITS[sp[1]]
        return spec, si_reading * (PREFIX[sp[0]] if sp[0] else 1.0), tag
    if spec in EM_ROWS:
        # symbolic kg-m-s size s: one unit is s/size(table unit of its system) table units
        tag = EM_ROWS[spec]
        s = _row(ctx, reg, spec, tag)
        tab = next(v for v in EM_UNITS.values() if v[0] == tag)
        return spec, s * (tab[1] / tab[2]), tag
    raise KeyError(spec)


FORMS = {"q": (), "a": (2,), "bs": (), "ba": (2,), "bl": (2,)}


def operand(ctx, reg, name, form, spec):
    """form: 'q' unyt_quantity, 'a' unyt_array (2,), 'bs' bare scalar, 'ba' bare ndarray (2,), 'bl' bare list of 2"""
    shape = FORMS[form]
    x = ctx.reals(name, shape)
    vals = elements(x)
    if form in ("q", "a"):
        ustr, s, dim = unit_of(ctx, reg, spec)
        return Side(ctx.quantity(x, ustr, reg), vals, s, dim, False, shape, ustr)
    obj = vals[0] if form == "bs" else (x if form == "ba" else list(vals))
    return Side(obj, vals, 1.0, "N", True, shape)


def separate(ctx, s1, s2):
    """scales are identical or differ by more than 1e-8 relative (OUTSIDE: unyt's 'same unit up to 1e-9' band)"""
    if isinstance(s1, float) and isinstance(s2, float):
        return
    ctx.assume(Or(exact_eq(s1, s2), s1 > s2 * (1 + SEP), s2 > s1 * (1 + SEP)))


def pairs(A, D):
    n = max(len(A.vals), len(D.vals))
    return list(zip(A.vals * (n // len(A.vals)), D.vals * (n // len(D.vals))))


# ----------------------------------------------------------------------------------------------- tolerance spellings

def make_atol(ctx, reg, how, tag=""):
    """-> (kwargs, atol number, SI scale of its unit or None when bare, dim tag | 'bare')"""
    if how == "default":
        return {}, None, None, "bare"
    if how == "zero":
        return {"atol": 0.0}, 0.0, None, "bare"
    t = ctx.real("atol" + tag, lo=0)
    if how == "bare":
        return {"atol": t}, t, None, "bare"
    ustr, s, dim = unit_of(ctx, reg, how)
    return {"atol": ctx.quantity(t, ustr, reg)}, t, s, dim


def make_rtol(ctx, reg, how, default, tag=""):
    """-> (kwargs, the relative tolerance as a pure number per physical reading, dim tag, the raw number)"""
    if how == "default":
        return {}, default, "N", default
    r = ctx.real("rtol" + tag, lo=0)
    if how == "bare":
        return {"rtol": r}, r, "N", r
    ustr, s, dim = unit_of(ctx, reg, how)
    return {"rtol": ctx.quantity(r, ustr, reg)}, r * s, dim, r


def margins(A, D, rel_d, atol_rel, rtol):
    """per element pair (lhs <= rhs, lhs - rhs, band) of the SI inequality |a*sa - d*sd| <= atol_SI + rtol*|d*sd| divided by
    sa > 0: rel_d = sd/sa, atol_rel = atol_SI/sa. The band is relative to the operands: near the boundary rhs <=
    (1+TOL)*(|a|+|y|) anyway."""
    out = []
    for a, d in pairs(A, D):
        y = d * rel_d
        lhs = vabs(a - y)
        rhs = atol_rel + rtol * vabs(y)
        out.append((lhs <= rhs, lhs - rhs, (vabs(a) + vabs(y)) * TOL))
    return out


def agrees(v, mb):
    """verdict v (conjunction over the elements in mb) <=> the oracle, the exact boundary excused both ways:
    v => every element holds exactly or within the band; not v => some element fails exactly or within the band.
    (The exact atom is kept as a disjunct beside its banded weakening so that the proof is propositional when the
    implementation computes the very inequality of the oracle.)"""
    return And(Implies(v, And(*[Or(le, m <= b) for le, m, b in mb])),
               Implies(Not(v), Or(*[Or(Not(le), m >= -b) for le, m, b in mb])))


def near(mb):
    return Or(*[And(m <= b, m >= -b) for le, m, b in mb])


def as_bool(v):
    if isinstance(v, (np.bool_, bool)):
        return bool(v)
    return v


def ratio(x, y):
    return x / y


# ----------------------------------------------------------------------------------------------- closeness family

NP_FAMILY = ("np.allclose", "np.isclose")


def run_close(ctx, fn_name, a_obj, d_obj, kw):
    """-> ('verdict', [v...]) one verdict (allclose) or one per broadcast element (isclose) | ('raise', exc)"""
    mods = ctx.mods
    if fn_name == "allclose_units":
        r = call(mods["UA"].allclose_units, a_obj, d_obj, **kw)
        return ("verdict", [as_bool(r[1])]) if r[0] == "ok" else r
    if fn_name == "assert_allclose_units":
        r = call(mods["UT"].assert_allclose_units, a_obj, d_obj, **kw)
        if r[0] == "ok":
            return "verdict", [r[1] is None]
        if type(r[1]) is AssertionError:
            return "verdict", [False]
        return r
    if fn_name == "np.allclose":
        r = call(np.allclose, a_obj, d_obj, **kw)
        return ("verdict", [as_bool(r[1])]) if r[0] == "ok" else r
    if fn_name == "np.isclose":
        r = call(np.isclose, a_obj, d_obj, **kw)
        return ("verdict", [as_bool(e) for e in elements(r[1])]) if r[0] == "ok" else r
    raise KeyError(fn_name)


def refused(ctx, fn_name, out):
    """the documented way of saying 'not comparable': False / AssertionError for the *_units helpers, a unit error for numpy's"""
    if fn_name in NP_FAMILY:
        ex = ctx.mods["unyt"].exceptions
        return out[0] == "raise" and isinstance(out[1], (ex.UnitConversionError, ex.UnitOperationError))
    return out[0] == "verdict" and len(out[1]) == 1 and out[1][0] is False


def check_verdicts(ctx, label, fn_name, vs, mb, also_near=None):
    """also_near: margins of a second reading whose exact boundary is excused as well (the threshold the code really computes
    in a known-finding cell: a model sitting on it would not survive IEEE rounding in the replay)"""
    if fn_name == "np.isclose":
        if len(vs) != len(mb):
            ctx.require(label + " [shape]", False, got=len(vs), want=len(mb))
            return
        if also_near is None:
            ctx.require(label, And(*[agrees(v, [x]) for v, x in zip(vs, mb)]))
        else:
            ctx.require(label, And(*[Or(agrees(v, [x]), near([y])) for v, x, y in zip(vs, mb, also_near)]))
    else:
        ctx.require(label, agrees(vs[0], mb) if also_near is None else Or(agrees(vs[0], mb), near(also_near)))


def is_null(S):
    return S.bare or S.ustr == "dimensionless"


def effective_sides(fn_name, A, D, relabel_dimensionless=False):
    """numpy family: an operand without units, or in the unit 'dimensionless', adopts the unit of a DIMENSIONAL other operand
    (unyt's comparison rule, OUTSIDE). Against an operand in another dimensionless unit (percent ...) it is commensurable and
    is converted - as unyt's own `==`/`<=` do; relabel_dimensionless=True gives the handlers' actual reading instead."""
    sa, da, sd, dd = A.scale, A.dim, D.scale, D.dim
    if fn_name in NP_FAMILY:
        if is_null(D) and not is_null(A) and (da != "N" or relabel_dimensionless):
            sd, dd = sa, da
        elif is_null(A) and not is_null(D) and (dd != "N" or relabel_dimensionless):
            sa, da = sd, dd
    return sa, da, sd, dd


def close_step(ctx, fn_name, rega, fa, ua, regd, fd, ud, atol_how, rtol_how, tag="", lp="", regt=None):
    """ONE call of a closeness helper and its obligations. `actual` is written in a unit of registry `rega`, `desired` in a
    unit of `regd`, a unit-carrying tolerance in a unit of `regt` (default `rega`); `tag` keeps the symbols of several calls
    of one path apart, `lp` prefixes the obligation labels (which call of a history)."""
    npf = fn_name in NP_FAMILY
    regt = rega if regt is None else regt
    A = operand(ctx, rega, "a" + tag, fa, ua)
    Dd = operand(ctx, regd, "d" + tag, fd, ud)
    kwa, atol, atol_scale, atol_dim = make_atol(ctx, regt, atol_how, tag)
    if atol is None:
        atol = 1e-8 if npf else 0.0
    kwr, rtol, rtol_dim, rtol_raw = make_rtol(ctx, regt, rtol_how, 1e-5 if npf else 1e-7, tag)
    kw = dict(kwa, **kwr)
    sa, da, sd, dd = effective_sides(fn_name, A, Dd)
    separate(ctx, sa, sd)
    if atol_scale is not None:
        separate(ctx, atol_scale, sa)
    out = run_close(ctx, fn_name, A.obj, Dd.obj, kw)
    ctx.observe("outcome" + tag, out[0] if out[0] == "verdict" else type(out[1]).__name__)
    if not commensurable(da, dd):
        ctx.require(lp + "incommensurable operands are refused", refused(ctx, fn_name, out), got=str(out)[:200])
        return
    if rtol_dim != "N":
        ctx.require(lp + "dimensional rtol raises RuntimeError", out[0] == "raise" and type(out[1]) is RuntimeError, got=str(out)[:200])
        return
    if atol_dim != "bare" and not commensurable(atol_dim, da):
        ctx.require(lp + "atol of another dimension is refused", refused(ctx, fn_name, out), got=str(out)[:200])
        return
    if out[0] != "verdict":
        ctx.require(lp + f"commensurable operands and tolerances give a verdict (raised {type(out[1]).__name__})", False, got=repr(out[1])[:200])
        return
    vs = out[1]
    rel_d = ratio(sd, sa)
    # electromagnetic operands: the reading the code implements where a known finding makes the documented oracle fail
    # (volt/statvolt factor of unyt's table; a bare atol across the two systems is rescaled by the kg-m-s sizes of the units)
    sa_i, sd_i = pinned_scale(A.ustr, sa), pinned_scale(Dd.ustr, sd)
    at_i = None if atol_scale is None else pinned_scale(atol_how, atol_scale)
    mixed = da != dd or (atol_dim != "bare" and atol_dim != da)
    if npf and da == "N" and is_null(A) != is_null(Dd) and atol_how == "zero":
        # a unitless operand against a dimensionless unit of another scale (percent, ppm ...)
        check_verdicts(ctx, lp + "verdict == SI oracle, unitless operand against a dimensionless unit of other scale", fn_name, vs,
                       margins(A, Dd, rel_d, 0.0, rtol))
    elif atol_dim == "bare":
        # a bare atol is in the unit of `desired` (the as-implemented twin "read in actual's unit" was dropped when
        # 14b8216 / a284d7d repaired the defect)
        doc = margins(A, Dd, rel_d, atol * rel_d, rtol)
        impl = None
        if da != dd:
            impl = margins(A, Dd, ratio(sd_i, sa_i), atol * ratio(kms_size(ctx, regd, ud), kms_size(ctx, rega, ua)), rtol)
        check_verdicts(ctx, lp + "verdict == SI oracle, bare atol read in desired's unit", fn_name, vs, doc, also_near=impl)
        if da != dd:
            check_verdicts(ctx, lp + "as implemented: bare atol across the SI/Gaussian systems rescaled by the units' kg-m-s sizes", fn_name, vs, impl)
    else:
        mb = margins(A, Dd, rel_d, atol * ratio(atol_scale, sa), rtol)
        lab = "verdict == SI oracle, atol in its own unit"
        if rtol_how not in ("default", "bare"):
            lab += ", rtol a dimensionless quantity"
        impl = None
        if mixed and (sa_i is not sa or sd_i is not sd or at_i is not atol_scale):
            impl = margins(A, Dd, ratio(sd_i, sa_i), atol * ratio(at_i, sa_i), rtol)
        check_verdicts(ctx, lp + lab, fn_name, vs, mb, also_near=impl)
        if impl is not None:
            check_verdicts(ctx, lp + "as implemented: volt/statvolt factor as unyt's table has it", fn_name, vs, impl)


def make_close_case(fn_name, fa, ua, fd, ud, atol_how, rtol_how):
    npf = fn_name in NP_FAMILY

    def h(ctx):
        reg = ctx.registry([])
        close_step(ctx, fn_name, reg, fa, ua, reg, fd, ud, atol_how, rtol_how)
    if rtol_how not in ("default", "bare") and atol_how in ("default", "bare"):
        raise ValueError("rtol-quantity cases use a unit-carrying atol (labels)")
    return Case(f"C19/{fn_name}/{fa}:{ua}~{fd}:{ud}/atol={atol_how}/rtol={rtol_how}", h,
                bounds="symbolic: values, scales, rtol, atol", oblig_timeout_ms=60000, budget_s=600,
                weight=(3 if "a" in (fa, fd) else 1) * (20 if npf and atol_how in ("xc", "xt", "xn", "dimensionless") else 1))


def make_reexpr_case(fn_name, which, fa, fd, atol_how, via):
    """verdict(actual, desired) == verdict with one operand re-expressed in another unit of the same dimension"""
    npf = fn_name in NP_FAMILY

    def h(ctx):
        reg = ctx.registry([])
        A = operand(ctx, reg, "a", fa, "xa")
        Dd = operand(ctx, reg, "d", fd, "xd")
        kwa, atol, atol_scale, atol_dim = make_atol(ctx, reg, atol_how)
        if atol is None:
            atol = 1e-8 if npf else 0.0
        kwr, rtol, _, _ = make_rtol(ctx, reg, "bare", None)
        kw = dict(kwa, **kwr)
        ustr, s2, _ = unit_of(ctx, reg, via)
        for s, t in ((A.scale, Dd.scale), (A.scale, s2), (Dd.scale, s2)):
            separate(ctx, s, t)
        if atol_scale is not None:
            separate(ctx, atol_scale, A.scale)
            separate(ctx, atol_scale, s2)
        out1 = run_close(ctx, fn_name, A.obj, Dd.obj, kw)
        if which == "actual":
            out2 = run_close(ctx, fn_name, A.obj.to(ustr), Dd.obj, kw)
        else:
            out2 = run_close(ctx, fn_name, A.obj, Dd.obj.to(ustr), kw)
        if out1[0] != "verdict" or out2[0] != "verdict":
            ctx.require("commensurable operands and tolerances give a verdict", False, got=str((out1, out2))[:200])
            return
        rel_d = ratio(Dd.scale, A.scale)
        if atol_dim == "bare":
            mb = margins(A, Dd, rel_d, atol * rel_d, rtol)     # documented reading
            lab = f"re-expressing {which} keeps the verdict (bare atol in desired's unit)"
        else:
            mb = margins(A, Dd, rel_d, atol * ratio(atol_scale, A.scale), rtol)
            lab = f"re-expressing {which} keeps the verdict"
        if fn_name == "np.isclose":
            ctx.require(lab, And(*[Or(Iff(v1, v2), near([x])) for v1, v2, x in zip(out1[1], out2[1], mb)]))
        else:
            ctx.require(lab, Or(Iff(out1[1][0], out2[1][0]), near(mb)))
    return Case(f"C19/{fn_name}/reexpress-{which}/{fa}~{fd}/atol={atol_how}/via={via}", h, oblig_timeout_ms=60000, budget_s=600,
                weight=(4 if "a" in (fa, fd) else 2) * (10 if atol_how == "bare" else 1))


# ----------------------------------------------------------------------------------------------- array_equal family

def run_equal(ctx, fn_name, x, y):
    """-> ('verdict', v) | ('raise', exc)"""
    if fn_name == "np.array_equal":
        r = call(np.array_equal, x, y)
        return ("verdict", as_bool(r[1])) if r[0] == "ok" else r
    if fn_name == "np.array_equiv":
        r = call(np.array_equiv, x, y)
        return ("verdict", as_bool(r[1])) if r[0] == "ok" else r
    if fn_name == "assert_array_equal_units":
        r = call(ctx.mods["UT"].assert_array_equal_units, x, y)
        if r[0] == "ok":
            return "verdict", r[1] is None
        ex = ctx.mods["unyt"].exceptions
        if isinstance(r[1], (AssertionError, ValueError, ex.UnitOperationError)):
            # numpy.testing wraps a unit error met while building the failure report into ValueError
            return "verdict", False
        return r
    raise KeyError(fn_name)


def equal_step(ctx, fn_name, rega, fa, ua, regb, fb, ub, tag="", lp=""):
    """ONE call of a member of the array_equal family and its obligation"""
    A = operand(ctx, rega, "a" + tag, fa, ua)
    B = operand(ctx, regb, "b" + tag, fb, ub)
    equal_oblig(ctx, fn_name, A, B, lp)


def equal_oblig(ctx, fn_name, A, B, lp=""):
    """the call of a member of the array_equal family on two prepared operands (Side) and its obligation"""
    separate(ctx, A.scale, B.scale)
    out = run_equal(ctx, fn_name, A.obj, B.obj)
    if out[0] != "verdict":
        ctx.require(lp + "verdict or documented refusal", False, got=repr(out[1])[:200])
        return
    v = out[1]
    units_equal = And(A.dim == B.dim, eqmath(A.scale, B.scale))
    if fn_name == "np.array_equal":
        shapes_ok = A.shape == B.shape
    else:
        shapes_ok = True   # () and (2,) broadcast
    values_equal = And(*[eqmath(a, b) for a, b in pairs(A, B)])
    # values are compared as physical magnitudes when the units differ; the units themselves must be equal as well
    ctx.require(lp + "verdict == (equal units and equal values)", Iff(v, And(shapes_ok, units_equal, values_equal)))


def make_equal_case(fn_name, fa, ua, fb, ub):
    def h(ctx):
        reg = ctx.registry([])
        equal_step(ctx, fn_name, reg, fa, ua, reg, fb, ub)
    return Case(f"C19/{fn_name}/{fa}:{ua}~{fb}:{ub}", h, oblig_timeout_ms=60000, weight=2)


# ----------------------------------------------------------------------------------------------- electromagnetic unit family
#
# Everywhere above "commensurable" coincides with "equal dimension expression". For the electromagnetic quantities it does
# not: the SI spelling (C, A, T, V, ohm) and the Gaussian spelling (statC, statA, G, statV, statohm) of one quantity have
# different dimension expressions and unyt converts between them. The cases below walk that family through every helper:
# table units of both systems with SI prefixes (concrete physical factors, see EM_UNITS), harness rows of an EM dimension with
# a symbolic scale as the unit of `actual` (the conversion target), the tolerance written in either system, pairs of
# DIFFERENT electromagnetic quantities (refused), re-expression of an operand in the other system, and the array_equal
# family (units of the two systems are never equal units). Values, rtol, atol stay symbols.

def em_system(spec):
    if spec is None or spec in ("default", "zero", "bare"):
        return None
    sp = em_split(spec)
    tag = EM_UNITS[sp[1]][0] if sp is not None else EM_ROWS.get(spec)
    return tag[1] if tag else None


def make_em_close_case(fn_name, fa, ua, fd, ud, atol_how, rtol_how="bare"):
    systems = {em_system(x) for x in (ua, ud, atol_how)} - {None}
    kind = "em-cross" if len(systems) > 1 else "em-same"
    npf = fn_name in NP_FAMILY

    def h(ctx):
        reg = ctx.registry([])
        close_step(ctx, fn_name, reg, fa, ua, reg, fd, ud, atol_how, rtol_how)
    return Case(f"C19/{kind}/{fn_name}/{fa}:{ua}~{fd}:{ud}/atol={atol_how}/rtol={rtol_how}", h,
                bounds="symbolic: values, rtol, atol, scales of harness rows; enumerated: electromagnetic quantity, system and SI prefix of "
                       "each unit (table factors are constants)", oblig_timeout_ms=60000, budget_s=600,
                weight=(3 if "a" in (fa, fd) else 1) * (10 if npf and atol_how not in ("zero", "default", "bare") else 1))


def make_em_reexpr_case(fn_name, which, fa, ua, fd, ud, atol_how, via):
    """verdict(actual, desired) == verdict with one operand re-expressed in the unit `via` (of the other system)"""
    npf = fn_name in NP_FAMILY

    def h(ctx):
        reg = ctx.registry([])
        A = operand(ctx, reg, "a", fa, ua)
        Dd = operand(ctx, reg, "d", fd, ud)
        kwa, atol, atol_scale, atol_dim = make_atol(ctx, reg, atol_how)
        if atol is None:
            atol = 1e-8 if npf else 0.0
        kwr, rtol, _, _ = make_rtol(ctx, reg, "bare", None)
        kw = dict(kwa, **kwr)
        ustr, s2, d2 = unit_of(ctx, reg, via)
        out1 = run_close(ctx, fn_name, A.obj, Dd.obj, kw)
        conv = call((A if which == "actual" else Dd).obj.to, ustr)
        if conv[0] != "ok":
            ctx.require(f"{which} can be re-expressed in {via}", False, got=repr(conv[1])[:200])
            return
        if which == "actual":
            out2 = run_close(ctx, fn_name, conv[1], Dd.obj, kw)
        else:
            out2 = run_close(ctx, fn_name, A.obj, conv[1], kw)
        if out1[0] != "verdict" or out2[0] != "verdict":
            ctx.require("commensurable operands and tolerances give a verdict", False, got=str((out1, out2))[:200])
            return
        # the excuse band around the exact boundary, in the code's own reading of the volt/statvolt factor (known finding) so
        # that it sits where the two computed verdicts can legitimately part
        sa, sd = pinned_scale(A.ustr, A.scale), pinned_scale(Dd.ustr, Dd.scale)
        rel_d = ratio(sd, sa)
        if atol_dim == "bare":
            mb = margins(A, Dd, rel_d, atol * rel_d, rtol)
        else:
            mb = margins(A, Dd, rel_d, atol * ratio(pinned_scale(atol_how, atol_scale), sa), rtol)
        lab = f"re-expressing {which} in the other system keeps the verdict"
        if fn_name == "np.isclose":
            ctx.require(lab, And(*[Or(Iff(v1, v2), near([x])) for v1, v2, x in zip(out1[1], out2[1], mb)]))
        else:
            ctx.require(lab, Or(Iff(out1[1][0], out2[1][0]), near(mb)))
    return Case(f"C19/em-reexpress/{fn_name}/{which}/{fa}:{ua}~{fd}:{ud}/atol={atol_how}/via={via}", h, oblig_timeout_ms=60000,
                budget_s=600, weight=(4 if "a" in (fa, fd) else 2))


def make_em_equal_case(fn_name, fa, ua, fb, ub):
    def h(ctx):
        reg = ctx.registry([])
        equal_step(ctx, fn_name, reg, fa, ua, reg, fb, ub)
    return Case(f"C19/em-equal/{fn_name}/{fa}:{ua}~{fb}:{ub}", h, oblig_timeout_ms=60000, weight=2)


EM_TABLE_PAIRS = [("C", "statC"), ("T", "G"), ("A", "statA"), ("V", "statV"), ("ohm", "statohm")]


def em_cases(tier):
    thorough = tier == "thorough"
    out = []
    UNITS_FNS = ("allclose_units", "assert_allclose_units")
    both = []
    for si, cg in EM_TABLE_PAIRS:
        both += [(si, cg), (cg, si)]
    prefixed = [("mC", "statC"), ("kG", "T"), ("uT", "mG"), ("statA", "kA"), ("mV", "kstatV"), ("Mstatohm", "ohm")]
    rows = [("xgq", "C"), ("xhq", "statC"), ("xgb", "mT"), ("xhb", "kG")]          # symbolic-scale unit of `actual`, table unit of the other system
    other_quantity = [("C", "A"), ("statC", "G"), ("C", "G"), ("T", "statC"), ("V", "statohm"), ("statA", "statC"), ("xgq", "T")]
    for fn in UNITS_FNS + NP_FAMILY:
        npf = fn in NP_FAMILY
        first = fn in ("allclose_units", "np.allclose")
        free = "zero" if npf else "default"
        # --- the table pairs in both orders
        for k, (ua, ud) in enumerate(both):
            for fa, fd in ([("q", "q"), ("a", "a"), ("a", "q")] if thorough else ([("q", "q"), ("a", "a")] if first and k < 4 else [("q", "q")])):
                out.append(make_em_close_case(fn, fa, ua, fd, ud, free))
            if thorough or first or k % 4 == 0:
                # the tolerance written in actual's, in desired's spelling; a unit of another EM quantity; a mechanical unit
                for atol in ((ua, ud) + ((("m" + ud), "T" if ua not in ("T", "G") else "C", "xt") if thorough or k < 2 else ())):
                    if npf and not (thorough or k < 2):
                        continue
                    out.append(make_em_close_case(fn, "q", ua, "q", ud, atol))
            # bare atol (and numpy's bare default): the known-finding cells, a few each
            if (first and (thorough or k < 4)) or (thorough and k < 4):
                out.append(make_em_close_case(fn, "q", ua, "q", ud, "bare"))
                if npf:
                    out.append(make_em_close_case(fn, "q", ua, "q", ud, "default", "default"))
        out.append(make_em_close_case(fn, "q", "C", "q", "statC", free, "default"))
        for k, (ua, ud) in enumerate(prefixed):
            if not (thorough or first or k < 2):
                continue
            out.append(make_em_close_case(fn, "q", ua, "q", ud, free))
            out.append(make_em_close_case(fn, "a" if k % 2 else "q", ud, "q", ua, free))
            if thorough or (first and k < 3):
                out.append(make_em_close_case(fn, "q", ua, "q", ud, ud))
        for k, (ua, ud) in enumerate(rows):
            if not (thorough or first or k < 2):
                continue
            out.append(make_em_close_case(fn, "q", ua, "q", ud, free))
            if thorough or (first and k < 2):
                out.append(make_em_close_case(fn, "a", ua, "a", ud, free))
                out.append(make_em_close_case(fn, "q", ua, "q", ud, ud))
        # --- one system on both sides, the tolerance in the other one; same system throughout (fractional-power dimensions)
        for k, (ua, ud, atol) in enumerate([("C", "mC", "statC"), ("G", "kG", "T"), ("statV", "statV", "mV"), ("G", "mG", free),
                                            ("statC", "kstatC", "statC"), ("xgq", "statC", "C")]):
            if thorough or first or k < 2:
                out.append(make_em_close_case(fn, "q", ua, "q", ud, atol))
        # --- different electromagnetic quantities, in one system and across the systems
        for k, (ua, ud) in enumerate(other_quantity):
            if thorough or first or k < 3:
                out.append(make_em_close_case(fn, "q" if k % 2 == 0 else "a", ua, "q" if k % 2 == 0 else "a", ud, free))
        # --- re-expression in the other system
        for k, (ua, ud, via) in enumerate([("C", "mC", "statC"), ("G", "kG", "T"), ("statA", "statA", "kA"), ("V", "mV", "statV"),
                                           ("ohm", "ohm", "statohm")]):
            if not (thorough or first or k < 2):
                continue
            for which in ("actual", "desired"):
                for atol in ([free, ua] if thorough or (first and k < 2) else [free]):
                    if npf and atol != free and not thorough:
                        continue
                    out.append(make_em_reexpr_case(fn, which, "q", ua, "q", ud, atol, via))
            if thorough and first:
                out.append(make_em_reexpr_case(fn, "actual", "a", ua, "a", ud, free, via))
    eq_pairs = [("a", "C", "a", "statC"), ("q", "G", "q", "T"), ("a", "mT", "a", "kG"), ("q", "statA", "q", "A"), ("a", "V", "a", "statV"),
                ("q", "ohm", "q", "statohm"), ("a", "statC", "a", "statC"), ("a", "G", "a", "mG"), ("q", "kG", "q", "1000*G"),
                ("a", "xgq", "a", "C"), ("q", "xgq", "q", "statC"), ("a", "C", "a", "A")]
    for fn in ("np.array_equal", "np.array_equiv", "assert_array_equal_units"):
        for k, (fa, ua, fb, ub) in enumerate(eq_pairs):
            if thorough or fn == "np.array_equal" or k % 2 == 0:
                out.append(make_em_equal_case(fn, fa, ua, fb, ub))
    return out


# ----------------------------------------------------------------------------------------------- spelling twins and call histories
#
# Every case above makes ONE call per path with all units taken from ONE registry, so a verdict that depends on how a unit is
# SPELLED (its symbol / sympy expression) rather than on its scale and dimension, or on which calls were made EARLIER in the
# process (a memo, a fast path remembered from the last call), is invisible to them. The cases below put the same spelling
# into several registries of one path (another symbolic scale / another dimension) and run two- and three-call histories
# inside one path (the runner clears unyt's caches at the start of a path only). The oracle of every call is the one of the
# single-call cases: it knows nothing of spellings or of earlier calls.

# registries of a path: "1" the base registry, "2" the same spellings with other (symbolic) scales, "3" the same spellings
# where `xa` is a TIME (xd, xc stay lengths)
def _registries(ctx):
    regs = {}

    def get(k):
        if k not in regs:
            regs[k] = {"1": lambda: ctx.registry([]), "2": lambda: twin_registry(ctx, "t"),
                       "3": lambda: twin_registry(ctx, "u", {"xa": "T"})}[k]()
        return regs[k]
    return get


# step of a closeness history: (registry of actual, unit of actual, registry of desired, unit of desired, registry of atol's unit)
CLOSE_HISTORIES = {
    # ---- one call, operands (or the tolerance) from different registries: the same spelling within ONE call
    "cross-scale": [("1", "xa", "2", "xa", "1")],                 # xa ~ xa, same dimension, scales differ
    "cross-dim": [("1", "xa", "3", "xa", "1")],                   # xa ~ xa, a length against a time
    "cross-dim-rev": [("3", "xa", "1", "xa", "1")],
    "cross-prefixed": [("1", "kxa", "2", "kxa", "2")],
    "cross-atol-scale": [("1", "xa", "1", "xd", "2")],            # atol spelled like a unit of the call, other scale
    "cross-atol-like-actual": [("1", "xc", "1", "xd", "2")],      # atol spelled exactly like actual's unit, other scale
    "cross-atol-dim": [("1", "xd", "1", "xd", "3")],              # (with atol=xa: spelled like a length, is a time)
    # ---- two calls
    "repeat": [("1", "xa", "1", "xd", "1")] * 2,                  # same units, fresh values and tolerances
    "swap": [("1", "xa", "1", "xd", "1"), ("1", "xd", "1", "xa", "1")],
    "same-then-cross": [("1", "xa", "1", "xa", "1"), ("1", "xa", "2", "xa", "1")],
    "cross-then-same": [("1", "xa", "2", "xa", "1"), ("1", "xa", "1", "xa", "1")],
    "twin-scale": [("1", "xa", "1", "xd", "1"), ("2", "xa", "2", "xd", "2")],
    "accepted-then-twin-dim": [("1", "xa", "1", "xd", "1"), ("3", "xa", "3", "xd", "3")],
    "twin-dim-then-accepted": [("3", "xa", "3", "xd", "3"), ("1", "xa", "1", "xd", "1")],
    "prefixed-twin-scale": [("1", "kxa", "1", "xd", "1"), ("2", "kxa", "2", "xd", "2")],
    # ---- three calls
    "twin-scale-and-back": [("1", "xa", "1", "xd", "1"), ("2", "xa", "2", "xd", "2"), ("1", "xa", "1", "xd", "1")],
    "twin-dim-and-back": [("1", "xa", "1", "xd", "1"), ("3", "xa", "3", "xd", "3"), ("1", "xa", "1", "xd", "1")],
    "refused-accepted-refused": [("3", "xa", "3", "xd", "3"), ("1", "xa", "1", "xd", "1"), ("3", "xa", "3", "xd", "3")],
    "same-cross-same": [("1", "xa", "1", "xa", "1"), ("1", "xa", "2", "xa", "1"), ("2", "xa", "2", "xa", "2")],
}


def make_close_history_case(fn_name, hname, form, atol_how, rtol_how="bare"):
    steps = CLOSE_HISTORIES[hname]
    npf = fn_name in NP_FAMILY

    def h(ctx):
        regs = _registries(ctx)
        for i, (ra, ua, rd, ud, rt) in enumerate(steps):
            close_step(ctx, fn_name, regs(ra), form, ua, regs(rd), form, ud, atol_how, rtol_how,
                       tag="" if i == 0 else str(i + 1), lp="" if len(steps) == 1 else f"call {i + 1} of {len(steps)}: ", regt=regs(rt))
    return Case(f"C19/twins/{fn_name}/{hname}/{form}/atol={atol_how}/rtol={rtol_how}", h,
                bounds="symbolic: values, scales of every registry, rtol, atol of every call; enumerated: which registry each unit comes from, the call history",
                oblig_timeout_ms=60000, budget_s=600, weight=(4 if npf else 2) * len(steps) ** 2)


EQUAL_HISTORIES = {
    "cross-scale": [("1", "xa", "2", "xa")],
    "cross-dim": [("1", "xa", "3", "xa")],
    "cross-prefixed": [("1", "kxa", "2", "kxa")],
    "repeat": [("1", "xa", "1", "xa")] * 2,
    "same-then-cross": [("1", "xa", "1", "xa"), ("1", "xa", "2", "xa")],
    "cross-then-same": [("1", "xa", "2", "xa"), ("1", "xa", "1", "xa")],
    "same-then-twin-dim": [("1", "xa", "1", "xa"), ("1", "xa", "3", "xa")],
    "twin-dim-then-same": [("1", "xa", "3", "xa"), ("2", "xa", "2", "xa")],
    "other-unit-then-same": [("1", "xa", "1", "xd"), ("1", "xa", "1", "xa")],
    "same-cross-same": [("1", "xa", "1", "xa"), ("1", "xa", "2", "xa"), ("2", "xa", "2", "xa")],
    "cross-same-twin-dim": [("1", "xa", "2", "xa"), ("1", "xa", "1", "xa"), ("3", "xa", "1", "xa")],
}


def make_equal_history_case(fn_name, hname, form):
    steps = EQUAL_HISTORIES[hname]

    def h(ctx):
        regs = _registries(ctx)
        for i, (ra, ua, rb, ub) in enumerate(steps):
            equal_step(ctx, fn_name, regs(ra), form, ua, regs(rb), form, ub, tag="" if i == 0 else str(i + 1),
                       lp="" if len(steps) == 1 else f"call {i + 1} of {len(steps)}: ")
    return Case(f"C19/twins/{fn_name}/{hname}/{form}", h, oblig_timeout_ms=60000, budget_s=600, weight=2 * len(steps) ** 2,
                bounds="symbolic: values and the scales of every registry; enumerated: which registry each unit comes from, the call history")


NP_QUICK_HISTORIES = {"np.allclose": ("repeat", "swap", "same-then-cross", "cross-then-same", "twin-scale", "accepted-then-twin-dim",
                                      "twin-dim-then-accepted", "twin-dim-and-back"),
                      "np.isclose": ("repeat", "same-then-cross", "twin-scale", "twin-dim-then-accepted")}


def twin_cases(tier):
    """cost: a history of n calls has the product of the calls' path counts (2-10 each), so the numpy handlers (5-10 paths a
    call) and assert_array_equal_units on arrays (19 paths a call) get a selection of the histories in the quick tier"""
    thorough = tier == "thorough"
    out = []
    for fn in ("allclose_units", "assert_allclose_units") + NP_FAMILY:
        npf = fn in NP_FAMILY
        free = "zero" if npf else "default"     # the spelling without a tolerance unit
        for hname, steps in CLOSE_HISTORIES.items():
            n = len(steps)
            if npf and n > 1 and not thorough and hname not in NP_QUICK_HISTORIES[fn]:
                continue
            if "atol" in hname:
                atols = ["xa"] if hname == "cross-atol-dim" else (["xc"] if hname == "cross-atol-like-actual" else ["xa", "kxa"])
            elif npf:
                # a unit-carrying atol costs ~10 paths per call in the numpy handlers (100 for two calls, with non-linear
                # obligations): scalar operands only, and not for the heaviest histories
                heavy = hname == "prefixed-twin-scale" or (fn == "np.isclose" and hname == "twin-scale")
                atols = [free] + (["xc"] if n == 1 or (thorough and n == 2 and not heavy) else [])
            elif fn == "assert_allclose_units" and n == 3 and not thorough:
                atols = [free]
            else:
                atols = [free, "xc"] + (["bare"] if n <= 2 or thorough else [])
            for form in (("q", "a") if (thorough and n < 3) or (n == 1 and not npf) else ("q",)):
                for atol in atols:
                    if npf and n > 1 and form == "a" and atol != free:
                        continue
                    out.append(make_close_history_case(fn, hname, form, atol))
    for fn in ("np.array_equal", "np.array_equiv", "assert_array_equal_units"):
        for hname, steps in EQUAL_HISTORIES.items():
            n = len(steps)
            if fn == "assert_array_equal_units":
                forms = ("a", "q") if n == 1 else ("q",)
            else:
                forms = ("a", "q") if thorough or n == 1 else ("a",)
            for form in forms:
                out.append(make_equal_history_case(fn, hname, form))
    return out


# ----------------------------------------------------------------------------------------------- decorators

BASE_ROWS = [("mass", "xbm"), ("length", "xbl"), ("time", "xbt"), ("temperature", "xbk"), ("angle", "xbg"),
             ("current_mks", "xbi"), ("luminous_intensity", "xbj"), ("logarithmic", "xbo")]


def _powers(Dm, dim):
    """dimension -> {base dimension name: Fraction exponent}"""
    import sympy
    out = {}
    for b, p in sympy.sympify(dim).as_powers_dict().items():
        if b == 1:
            continue
        nm = next((n for n, _ in BASE_ROWS if getattr(Dm, n) is b or getattr(Dm, n) == b), None)
        if nm is None:
            raise KeyError(b)
        out[nm] = Fraction(int(p.p), int(p.q))
    return out


def _compound_string(ctx, reg, Dm, dim):
    rows = dict(BASE_ROWS)
    parts = []
    for nm, p in sorted(_powers(Dm, dim).items()):
        r = rows[nm]
        if r not in reg.lut:
            ctx.add_row(reg, r, getattr(Dm, nm), ctx.real(r + "_s", pos=True), 0.0)
        parts.append(f"{r}**({p.numerator}/{p.denominator})" if p.denominator != 1 else f"{r}**({p.numerator})")
    return "*".join(parts) if parts else None


def dim_variants(ctx, reg, Dm, dim, others, tier):
    """quantities (label, object, has the dimension `dim`?) written in units of symbolic scale"""
    import sympy
    out = []
    is_dimless = sympy.sympify(dim) == 1
    v = lambda n: ctx.real(n)  # noqa: E731
    ctx.add_row(reg, "xq", dim, ctx.real("xq_s", pos=True), 0.0, prefixable=True)
    out.append(("plain", ctx.quantity(v("v_plain"), "xq", reg), True))
    out.append(("prefixed", ctx.quantity(v("v_pref"), "kxq", reg), True))
    out.append(("array", ctx.quantity(ctx.reals("v_arr", (2,)), "Mxq", reg), True))
    comp = _compound_string(ctx, reg, Dm, dim)
    if comp is not None:
        out.append(("compound", ctx.quantity(v("v_comp"), comp, reg), True))
        out.append(("bare number", v("v_bare"), False))
        out.append(("dimensionless quantity", ctx.quantity(v("v_dl"), "dimensionless", reg), False))
    if is_dimless:
        out.append(("bare number", v("v_bare"), True))
        out.append(("bare list", [v("v_l0"), v("v_l1")], True))
        out.append(("'dimensionless'", ctx.quantity(v("v_dl"), "dimensionless", reg), True))
    if tier == "thorough" and not is_dimless:
        ctx.add_row(reg, "xr", dim**2, ctx.real("xr_s", pos=True), 0.0)
        out.append(("root", ctx.quantity(v("v_root"), "xr**0.5", reg), True))
        out.append(("square", ctx.quantity(v("v_sq"), "xr", reg), False))
    for i, (on, od) in enumerate(others):
        nm = ["xw", "xe", "xc"][i]
        ctx.add_row(reg, nm, od, ctx.real(nm + "_s", pos=True), 0.0)
        out.append((f"other:{on}", ctx.quantity(v(f"v_o{i}"), nm, reg), False))
    return out


def make_decorator_case(dname, dim, others, usage, tier):
    def h(ctx):
        unyt = ctx.mods["unyt"]
        Dm = unyt.dimensions
        reg = ctx.registry([])
        variants = dim_variants(ctx, reg, Dm, dim, others, tier)
        good = variants[0][1]
        calls = []

        def body(x, y=None, z=None):
            ret = ("result", x, y, z)
            calls.append(ret)
            return ret

        def expect(label, r, should_pass, args_seen):
            n0 = expect.n
            if should_pass:
                ok = (r[0] == "ok" and len(calls) == n0 + 1 and r[1] is calls[-1]
                      and all(p is q for p, q in zip(calls[-1][1:], args_seen)))
            else:
                ok = r[0] == "raise" and type(r[1]) is TypeError and len(calls) == n0
            expect.n = len(calls)
            ctx.require(label, ok, got=str(r)[:160], calls=len(calls) - n0)
        expect.n = 0

        if usage == "accepts-positional":
            f = Dm.accepts(x=dim)(body)
            for lab, q, m in variants:
                expect(f"accepts(x=D) f({lab}) {'runs' if m else 'raises TypeError without calling'}", call(f, q), m, (q, None, None))
        elif usage == "accepts-keyword":
            f = Dm.accepts(y=dim)(body)
            for lab, q, m in variants:
                expect(f"accepts(y=D) f(1, y={lab}) {'runs' if m else 'raises TypeError without calling'}", call(f, 1.0, y=q), m, (1.0, q, None))
        elif usage == "accepts-second-positional":
            f = Dm.accepts(y=dim)(body)
            for lab, q, m in variants:
                expect(f"accepts(y=D) f(1, {lab}) {'runs' if m else 'raises TypeError without calling'}", call(f, 1.0, q), m, (1.0, q, None))
        elif usage == "accepts-two":
            f = Dm.accepts(x=dim, z=dim)(body)
            for lab, q, m in variants:
                expect(f"accepts(x=D,z=D) f(good, 1, {lab})", call(f, good, 1.0, q), m, (good, 1.0, q))
                expect(f"accepts(x=D,z=D) f({lab}, z=good)", call(f, q, z=good), m, (q, None, good))
            # unchecked argument is free
            for lab, q, m in variants:
                expect(f"accepts(x=D,z=D) unchecked y={lab}", call(f, good, q, good), True, (good, q, good))
        elif usage == "accepts-default":
            def body2(x, y=good):
                ret = ("result", x, y, None)
                calls.append(ret)
                return ret
            f = Dm.accepts(x=dim, y=dim)(body2)
            for lab, q, m in variants:
                expect(f"accepts(x=D,y=D) f({lab}) with default y", call(f, q), m, (q, good, None))
        elif usage == "returns-single":
            for lab, q, m in variants:
                box = []

                def g(q=q, box=box):
                    box.append(q)
                    return q
                r = call(Dm.returns(dim)(g))
                ok = (r[0] == "ok" and r[1] is q) if m else (r[0] == "raise" and type(r[1]) is TypeError)
                ctx.require(f"returns(D) result {lab} {'handed through' if m else 'raises TypeError'}", ok and len(box) == 1, got=str(r)[:160])
        elif usage == "returns-tuple":
            for lab, q, m in variants:
                for order in (0, 1):
                    t = (good, q) if order == 0 else (q, good)
                    r = call(Dm.returns(dim, dim)(lambda t=t: t))
                    ok = (r[0] == "ok" and r[1] is t) if m else (r[0] == "raise" and type(r[1]) is TypeError)
                    ctx.require(f"returns(D,D) result tuple with {lab} at {1 - order} {'handed through' if m else 'raises TypeError'}", ok, got=str(r)[:160])
        elif usage == "returns-r_unit":
            for lab, q, m in variants:
                with warnings.catch_warnings():
                    warnings.simplefilter("ignore")
                    dec = Dm.returns(r_unit=dim)
                r = call(dec(lambda q=q: q))
                ok = (r[0] == "ok" and r[1] is q) if m else (r[0] == "raise" and type(r[1]) is TypeError)
                ctx.require(f"returns(r_unit=D) result {lab} {'handed through' if m else 'raises TypeError'}", ok, got=str(r)[:160])
        elif usage == "has-dimensions":
            for lab, q, m in variants:
                ctx.require(f"_has_dimensions({lab}, D) is {m}", Dm._has_dimensions(q, dim) is m)
        else:
            raise KeyError(usage)
    return Case(f"C19/decorators/{usage}/{dname}", h, bounds="symbolic: values and unit scales; the dimension and the spelling are enumerated")


USAGES = ["accepts-positional", "accepts-keyword", "accepts-second-positional", "accepts-two", "accepts-default", "returns-single",
          "returns-tuple", "returns-r_unit", "has-dimensions"]


def decorator_cases(tier, mods):
    Dm = mods["unyt"].dimensions
    cat = dims_catalogue(mods, tier)
    cat = [(n, d) for n, d in cat if _decomposable(Dm, d)]
    out = []
    for i, (n, d) in enumerate(cat):
        others = [cat[(i + 1) % len(cat)], cat[(i + 7) % len(cat)]]
        em = Dm.em_dimensions.get(d)
        if em is not None:
            others.append(("em_counterpart", em))
        others = [(on, od) for on, od in others if od != d][:3]
        usages = USAGES if tier == "thorough" else [USAGES[i % 3], USAGES[3 + i % 2], USAGES[5 + i % 3], "has-dimensions"]
        for u in usages:
            out.append(make_decorator_case(n, d, others, u, tier))
    return out


# ----------------------------------------------------------------------------------------------- several checked values in ONE call
#
# The decorator cases above declare the SAME dimension for every checked position of a call and vary one value at a time, so
# a check that is answered for one position and reused for another (keyed by the value's unit, by the value object, by the
# declared dimension, by "all values share a unit" ...) is never contradicted. Here every checked position has its OWN
# declared dimension - all assignments of {D0, D1, dimensionless} the list MV_DECLARED gives - and the values of a call are
# drawn from kinds that alias each other in every way two values can: the same Unit object on two values, the very same
# quantity object at two positions, the same unit SI-prefixed, a unit of the other dimension, bare numbers, 'dimensionless'.
# ALL tuples of kinds are walked for every declaration (one decorated function per declaration, so the calls of a case are a
# history as well). Expected: the call goes through, result and arguments untouched, iff EVERY position holds a value of its
# declared dimension - read off the harness' own table of kinds, never from unyt.

MV_KINDS = ("A", "A2", "Aobj", "kA", "E", "E2", "bare", "dl")
MV_KIND_TEXT = {"A": "a value in unit u0 (dimension D0)", "A2": "another value carrying the same Unit object u0",
                "Aobj": "the very same quantity object as A", "kA": "a value in k-prefixed u0", "E": "a value in unit u1 (dimension D1)",
                "E2": "another value carrying the same Unit object u1", "bare": "a bare number", "dl": "a value in 'dimensionless'"}
MV_KIND_DIM = {"A": "0", "A2": "0", "Aobj": "0", "kA": "0", "E": "1", "E2": "1", "bare": "N", "dl": "N"}
MV_KINDS3 = ("A", "A2", "E", "bare")
MV_DECLARED = {2: [("0", "1"), ("1", "0"), ("0", "0"), ("0", "N"), ("N", "0")],
               3: [("0", "0", "1"), ("0", "1", "0"), ("1", "0", "0"), ("0", "1", "N")]}
MV_USAGES = ("returns-2", "accepts-positional-2", "accepts-keyword-2", "stacked-returns-over-accepts", "accepts-mixed-2", "accepts-gap-2",
             "returns-3", "accepts-3", "stacked-accepts-over-returns", "stacked-accepts-over-returns-keyword")
MV_STACKED = ("stacked-returns-over-accepts", "stacked-accepts-over-returns", "stacked-accepts-over-returns-keyword")


def make_multi_value_case(dname, D0, oname, D1, usage):
    n = 3 if usage.endswith("-3") else 2

    def h(ctx):
        import itertools
        unyt = ctx.mods["unyt"]
        Dm = unyt.dimensions
        reg = ctx.registry([])
        ctx.add_row(reg, "xq", D0, ctx.real("xq_s", pos=True), 0.0, prefixable=True)
        ctx.add_row(reg, "xw", D1, ctx.real("xw_s", pos=True), 0.0)
        u0 = unyt.Unit("xq", registry=reg)
        u1 = unyt.Unit("xw", registry=reg)
        dims = {"0": D0, "1": D1, "N": Dm.dimensionless}
        val = {"A": ctx.quantity(ctx.real("vA"), u0), "A2": ctx.quantity(ctx.real("vA2"), u0), "kA": ctx.quantity(ctx.real("vkA"), "kxq", reg),
               "E": ctx.quantity(ctx.real("vE"), u1), "E2": ctx.quantity(ctx.real("vE2"), u1), "bare": ctx.real("vb"),
               "dl": ctx.quantity(ctx.real("vdl"), "dimensionless", reg)}
        val["Aobj"] = val["A"]
        # the harness' premise, read off the objects: the aliasing relations are really there
        if not (val["A"].units is val["A2"].units and val["E"].units is val["E2"].units and val["A"].units is not val["kA"].units):
            ctx.require("premise: the aliased values carry one Unit object", False)
            return

        def has(kind, tag):
            return bool(dims[MV_KIND_DIM[kind]] == dims[tag])   # sympy equality of the harness' own dimension objects

        kinds = MV_KINDS if n == 2 else MV_KINDS3
        unchecked_positional = []
        for decl in MV_DECLARED[n]:
            dd = [dims[t] for t in decl]
            calls = []

            def body(x=None, y=None, z=None):
                ret = ("result", x, y, z)
                calls.append(ret)
                return ret

            def give(*t):
                calls.append(t)
                return t

            def mid(x):
                # returns the value it closes over (set per call) - for the stacked usage
                calls.append(mid.out)
                return mid.out

            if usage in ("returns-2", "returns-3"):
                f = Dm.returns(*dd)(give)
            elif usage in ("accepts-positional-2", "accepts-keyword-2", "accepts-mixed-2"):
                f = Dm.accepts(x=dd[0], y=dd[1])(body)
            elif usage == "accepts-gap-2":
                f = Dm.accepts(x=dd[0], z=dd[1])(body)
            elif usage == "accepts-3":
                f = Dm.accepts(x=dd[0], y=dd[1], z=dd[2])(body)
            elif usage == "stacked-returns-over-accepts":
                f = Dm.returns(dd[1])(Dm.accepts(x=dd[0])(mid))
            elif usage in MV_STACKED:
                f = Dm.accepts(x=dd[0])(Dm.returns(dd[1])(mid))
            else:
                raise KeyError(usage)
            for ks in itertools.product(kinds, repeat=n):
                vs = [val[k] for k in ks]
                oks = [has(k, t) for k, t in zip(ks, decl)]
                expected = all(oks)
                n0 = len(calls)
                if usage.startswith("returns"):
                    r = call(f, *vs)
                    ran = 1
                    seen = calls[-1] if len(calls) > n0 else None
                    same = r[0] == "ok" and r[1] is seen and all(p is q for p, q in zip(r[1], vs))
                elif usage in MV_STACKED:
                    mid.out = vs[1]
                    r = call(f, x=vs[0]) if usage.endswith("keyword") else call(f, vs[0])
                    ran = 1 if oks[0] else 0          # a refused argument must not reach the function
                    same = r[0] == "ok" and r[1] is vs[1]
                else:
                    if usage == "accepts-keyword-2":
                        r = call(f, y=vs[1], x=vs[0])
                        want = (vs[0], vs[1], None)
                    elif usage == "accepts-mixed-2":
                        r = call(f, vs[0], y=vs[1])
                        want = (vs[0], vs[1], None)
                    elif usage == "accepts-gap-2":
                        r = call(f, vs[0], val["E"], vs[1])      # the middle argument is not checked
                        want = (vs[0], val["E"], vs[1])
                    else:
                        r = call(f, *vs)
                        want = tuple(vs) + (None,) * (3 - n)
                    ran = 1 if expected else 0
                    same = (r[0] == "ok" and len(calls) == n0 + 1 and r[1] is calls[-1]
                            and all(p is q for p, q in zip(calls[-1][1:], want)))
                if expected:
                    ok = same and len(calls) == n0 + 1
                else:
                    ok = r[0] == "raise" and type(r[1]) is TypeError and len(calls) == n0 + ran
                # (accepts stacked over returns used to read the parameter names off the wrapper returns() made, so a positional
                # argument was not checked at all; repaired in /repo by 5813670, the cells are held to the documented meaning)
                ctx.require(f"{usage} declared ({','.join('D' + t for t in decl)}) given ({', '.join(ks)}): "
                            + ("goes through untouched" if expected else "TypeError"), ok, got=str(r)[:160], calls=len(calls) - n0,
                            values="; ".join(MV_KIND_TEXT[k] for k in ks))
    return Case(f"C19/decorators-multi/{usage}/{dname}~{oname}", h,
                bounds="symbolic: values and unit scales; enumerated: the dimension pair, the declared dimension of every position, the kind of "
                       "value at every position (all tuples), the usage")


def multi_value_cases(tier, mods):
    Dm = mods["unyt"].dimensions
    thorough = tier == "thorough"
    cat = [(n, d) for n, d in dims_catalogue(mods, tier) if _decomposable(Dm, d)]
    out = []
    for i, (n, d) in enumerate(cat):
        others = [cat[(i + 1) % len(cat)], cat[(i + 5) % len(cat)]]
        em = Dm.em_dimensions.get(d)
        if em is not None:
            others.append(("em_counterpart", em))
        others = [(on, od) for on, od in others if od != d]
        if thorough:
            todo = [(u, others[k % len(others)]) for k, u in enumerate(MV_USAGES)]
            todo += [(u, o) for u in ("returns-2", "accepts-positional-2") for o in others[1:]]
        else:
            todo = [(MV_USAGES[(i + k) % 6], others[(i + k) % len(others)]) for k in (0, 3)]
            todo.append((MV_USAGES[6 + i % 4], others[0]))
            todo.append((MV_USAGES[i % 2], others[-1]))
        seen = set()
        for u, (on, od) in todo:
            if (u, on) not in seen:
                seen.add((u, on))
                out.append(make_multi_value_case(n, d, on, od, u))
    return out


# ----------------------------------------------------------------------------------------------- decorator call histories
#
# The cases above give every spelling ONE dimension per process and make every check once, so a verdict remembered from an
# earlier call (keyed by the unit's spelling, by the unit without the declared dimension, by the declared dimension without
# the unit, by the decorated function, by the identity of the quantity object ...) is never contradicted. Here two- and
# three-call histories run inside one path over subjects that agree pairwise on exactly one of those keys:
#   A  value in the unit <nm> (dimension D0)                      B  value in a unit SPELLED <nm> whose dimension is D1
#   C  value in a unit spelled <nm>, dimension D0, other scale     E  value in another spelling <ne>, dimension D1
# each checked against a declared dimension D0 or D1; expected verdict = (dimension tag of the subject == declared tag),
# which knows nothing of spellings or of earlier calls.

DH_SUBJECT_DIM = {"A": 0, "B": 1, "C": 0, "E": 1}
DH_SUBJECT_TEXT = {"A": "a value in the unit", "B": "a value in its spelling twin of the OTHER dimension",
                   "C": "a value in its spelling twin of the same dimension and another scale", "E": "a value in another spelling of the other dimension"}
# how the spelling twin B comes about
DH_KINDS = ("registry",     # the same symbol registered with the other dimension in a second UnitRegistry
            "redim",        # the symbol removed from the registry and added again with the other dimension (A's Unit stays alive)
            "direct",       # Unit(<spelling>, base_value=..., dimensions=...) built by hand
            "reassigned")   # the SAME quantity object as A whose .units attribute is re-assigned between the calls
DH_SPELLINGS = ("plain", "prefixed", "square", "product")
DH_USAGES = ("accepts-positional", "accepts-keyword", "returns-single", "returns-tuple", "has-dimensions")
DH_STEPS = [(subj, d) for subj in "ABCE" for d in (0, 1)]


def _unique_name(prefix, text):
    """a harness unit name that no other case of the run uses: state a changed library keeps between the cases of one worker
    process (a module-level memo the runner does not know of) then cannot make a symbolic verdict differ from its replay"""
    import hashlib
    h = int.from_bytes(hashlib.sha1(text.encode()).digest()[:8], "big")
    out = ""
    for _ in range(7):
        out += "abcdefghijklmnopqrstuvwxyz"[h % 26]
        h //= 26
    return prefix + out


def dh_names(cid):
    return [_unique_name(pfx, cid) for pfx in ("xh", "xi", "xj", "xv")]


def make_decorator_history_case(pname, D0, D1, kind, spelling, script, usages, share):
    """script: tuple of (subject, declared tag); usages: the decorator usage of each step; share: steps with the same usage and
    declared dimension go through the SAME decorated function object (else every step decorates afresh)"""
    cid = (f"C19/decorator-history/{pname}/{kind}/{spelling}/{'shared' if share else 'fresh'}/"
           + "+".join(f"{u}:{subj}:D{d}" for u, (subj, d) in zip(usages, script)))
    nm, ne, ng0, ng1 = dh_names(cid)

    def h(ctx):
        from .common import close, payload
        unyt = ctx.mods["unyt"]
        Dm = unyt.dimensions
        dims = (D0, D1)

        def sdim(D):
            return {"plain": D, "prefixed": D, "square": D**2, "product": D * Dm.time}[spelling]

        def spell(n):
            return {"plain": n, "prefixed": "k" + n, "square": f"{n}**2", "product": f"{n}*xs"}[spelling]

        def sscale(s, st):
            return {"plain": s, "prefixed": s * 1000.0, "square": s * s, "product": s * st}[spelling]

        def registry(tag):
            reg = ctx.registry([])
            st = 1.0
            if spelling == "product":
                st = ctx.real("xs_s" + tag, pos=True)
                ctx.add_row(reg, "xs", Dm.time, st)
            return reg, st

        def unit_in(reg, st, name, D, sym):
            """row `name` of dimension D and symbolic scale in `reg` -> (Unit object of the spelling, its SI scale)"""
            s = ctx.real(sym, pos=True)
            ctx.add_row(reg, name, D, s, 0.0, prefixable=True)
            return unyt.Unit(spell(name), registry=reg), sscale(s, st)

        regA, stA = registry("")
        uA, kA = unit_in(regA, stA, nm, D0, "sA")
        uE, kE = unit_in(regA, stA, ne, D1, "sE")
        uG = [unit_in(regA, stA, ng0, D0, "sG0"), unit_in(regA, stA, ng1, D1, "sG1")]
        regC, stC = registry("c")
        uC, kC = unit_in(regC, stC, nm, D0, "sC")
        if kind in ("registry", "reassigned"):
            regB, stB = registry("b")
            uB, kB = unit_in(regB, stB, nm, D1, "sB")
        elif kind == "redim":
            regA.remove(nm)
            uB, kB = unit_in(regA, stA, nm, D1, "sB")
        elif kind == "direct":
            regB, stB = registry("b")
            kB = sscale(ctx.real("sB", pos=True), stB)
            uB = unyt.Unit(spell(nm), base_value=kB, dimensions=sdim(D1), registry=regB)
        else:
            raise KeyError(kind)
        vals = {k: ctx.real("v" + k) for k in "ABCE"}
        objs = {"A": ctx.quantity(vals["A"], uA), "C": ctx.quantity(vals["C"], uC), "E": ctx.quantity(vals["E"], uE)}
        if kind == "reassigned":
            objs["B"] = objs["A"]
            vals["B"] = vals["A"]
        else:
            objs["B"] = ctx.quantity(vals["B"], uB)
        units = {"A": (uA, kA), "B": (uB, kB), "C": (uC, kC), "E": (uE, kE)}
        comp = [ctx.quantity(ctx.real(f"vG{i}"), uG[i][0]) for i in (0, 1)]
        # the harness' own premise, read off the objects and not through the code under test
        for k, (u, _) in units.items():
            if not (u.dimensions == sdim(dims[DH_SUBJECT_DIM[k]]) and str(u.expr) == str(uA.expr if k != "E" else uE.expr)):
                ctx.require(f"premise: subject {k} has its spelling and dimension", False, unit=str(u), dims=str(u.dimensions))
                return
        calls = []
        made = {}

        def body(x, y=None):
            ret = ("result", x, y)
            calls.append(ret)
            return ret

        def ident(q):
            calls.append(q)
            return q

        def decorated(usage, d):
            key = (usage, d)
            if share and key in made:
                return made[key]
            decl = sdim(dims[d])
            if usage == "accepts-positional":
                f = Dm.accepts(x=decl)(body)
            elif usage == "accepts-keyword":
                f = Dm.accepts(y=decl)(body)
            elif usage == "returns-single":
                f = Dm.returns(decl)(ident)
            elif usage == "returns-tuple":
                def pair(q, c=comp[d]):
                    t = (c, q)
                    calls.append(t)
                    return t
                f = Dm.returns(decl, decl)(pair)
            else:
                f = None
            made[key] = f
            return f

        n = len(script)
        for i, (usage, (subj, d)) in enumerate(zip(usages, script)):
            q = objs[subj]
            u, k = units[subj]
            if kind == "reassigned" and subj in "AB":
                q.units = u
            expected = DH_SUBJECT_DIM[subj] == d
            n0 = len(calls)
            f = decorated(usage, d)
            seen = None
            if usage == "has-dimensions":
                got = Dm._has_dimensions(q, sdim(dims[d]))
                ok = got is expected
                seen = q if expected else None
                info = dict(got=got)
            else:
                r = call(f, 1.0, y=q) if usage == "accepts-keyword" else call(f, q)
                info = dict(got=str(r)[:160], calls=len(calls) - n0)
                if usage.startswith("accepts"):
                    if expected:
                        ok = r[0] == "ok" and len(calls) == n0 + 1 and r[1] is calls[-1]
                        if ok:
                            seen = r[1][2] if usage == "accepts-keyword" else r[1][1]
                            ok = seen is q
                    else:
                        ok = r[0] == "raise" and type(r[1]) is TypeError and len(calls) == n0
                else:
                    # the wrapped function always runs exactly once; its result is handed through or TypeError is raised
                    if expected:
                        ok = r[0] == "ok" and len(calls) == n0 + 1 and r[1] is calls[-1]
                        if ok:
                            seen = r[1][1] if usage == "returns-tuple" else r[1]
                            ok = seen is q
                    else:
                        ok = r[0] == "raise" and type(r[1]) is TypeError and len(calls) == n0 + 1
            label = (f"call {i + 1} of {n}, {usage}: {DH_SUBJECT_TEXT[subj]}, checked against "
                     f"{'the dimension of the unit' if d == 0 else 'the other dimension'}, "
                     + (f"gives {expected}" if usage == "has-dimensions" else ('passes untouched' if expected else 'is refused with TypeError')))
            if ok and seen is not None:
                # what came through is physically the value that went in (SI magnitude; decided by the solver)
                ctx.require(label, And(ok, close(payload(seen)[0] * seen.units.base_value, vals[subj] * k)), to_solver=True, **info)
            else:
                ctx.require(label, ok, **info)
    return Case(cid, h, bounds="symbolic: values and unit scales; enumerated: dimension pair, kind of spelling twin, spelling, usages, history")


def decorator_history_cases(tier, mods):
    Dm = mods["unyt"].dimensions
    thorough = tier == "thorough"
    cat = [(n, d) for n, d in dims_catalogue(mods, "quick") if _decomposable(Dm, d)]
    dpairs = []
    for i, (n, d) in enumerate(cat):
        for j in (1, 5):
            m, e = cat[(i + j) % len(cat)]
            if e != d:
                dpairs.append((f"{n}~{m}", d, e))
        em = Dm.em_dimensions.get(d)
        if em is not None and em != d:
            dpairs.append((f"{n}~em_counterpart", d, em))
    U = DH_USAGES
    mixed2 = [(a, b) for a in U for b in U if a != b]
    two = [(x, y) for x in DH_STEPS for y in DH_STEPS]
    if thorough:
        three = [(x, y, z) for x in DH_STEPS for y in DH_STEPS for z in DH_STEPS]
    else:
        three = []
        for x, y in two:
            for t in ((x, y, x), (x, x, y), (x, y, y)):
                if t not in three:
                    three.append(t)
    out = []
    k = 0

    def add(script, kind, spelling, same, share):
        nonlocal k
        k += 1
        pname, D0, D1 = dpairs[k % len(dpairs)]
        if same:
            usages = (U[k % len(U)],) * len(script)
        else:
            a, b = mixed2[k % len(mixed2)]
            usages = (a, b) + ((U[(k // 3) % len(U)],) if len(script) == 3 else ())
        out.append(make_decorator_history_case(pname, D0, D1, kind, spelling, script, usages, share))

    for si, script in enumerate(two):
        for ki, kind in enumerate(DH_KINDS):
            if thorough:
                for spelling in DH_SPELLINGS:
                    add(script, kind, spelling, True, True)
                    add(script, kind, spelling, False, False)
            else:
                same = (si + ki) % 2 == 0
                add(script, kind, DH_SPELLINGS[(si + ki) % 4], same, same)
                if same and (si // 2 + ki) % 4 == 0:
                    add(script, kind, DH_SPELLINGS[(si + ki + 1) % 4], False, False)
    for si, script in enumerate(three):
        for ki, kind in enumerate(DH_KINDS):
            if not thorough and ki != si % 4:
                continue
            same = (si + ki) % 2 == 0
            add(script, kind, DH_SPELLINGS[(si // 4 + ki) % 4], same, same or (si % 3 == 0))
    names = []
    for c in out:
        names += dh_names(c.id)
    if len(set(names)) != len(names):
        raise ValueError("decorator-history unit names collide")
    check_names(mods, names)
    return out


# ----------------------------------------------------------------------------------------------- neighbour dimensions
#
# The decorator cases above take the WRONG dimensions of a slot from elsewhere in the catalogue (two rotating partners and
# the EM counterpart), so a predicate that is right except that it discounts (or forgets to compare) ONE base dimension -
# plane angle read as dimensionless, a logarithmic or temperature factor ignored, an exponent compared by sign only - is
# met only if the catalogue happens to hold the two dimensions next to each other. Here every dimension D is checked against
# ALL its neighbours N = D * b**p for every base dimension b of unyt (mass, length, time, temperature, angle, current,
# luminous intensity, logarithmic) and p in {+1, -1, +2}: a value of dimension N reaching a slot declared D is refused, a
# value of dimension D reaching a slot declared N is refused, a value of dimension N reaching a slot declared N passes -
# through every usage of the predicate. N is spelled as a single unit (one symbol, registered afresh per neighbour, symbolic
# scale) and as the compound 'xq*<base row>**p'. C19/decorators-table/* does the same for table units of the default registry
# that carry a 'bookkeeping' dimension (rad, degree, sr, rpm, dB, Np, K, cd, lm ...).

NB_USAGES = ("accepts-positional", "accepts-keyword", "returns-single", "returns-tuple", "returns-over-accepts", "has-dimensions")
NB_POWERS = (1, -1, 2)


def decorator_verdict(Dm, usage, declared, q, good=None):
    """one check of the value q against the declared dimension through `usage` -> (passed untouched?, refused as documented?, info)"""
    calls = []
    if usage == "has-dimensions":
        got = Dm._has_dimensions(q, declared)
        return got is True, got is False, dict(got=str(got))
    if usage in ("accepts-positional", "accepts-keyword"):
        def body(x=None, y=None):
            ret = ("result", x, y)
            calls.append(ret)
            return ret
        if usage == "accepts-positional":
            r = call(Dm.accepts(x=declared)(body), q)
            want = (q, None)
        else:
            r = call(Dm.accepts(y=declared)(body), 1.0, y=q)
            want = (1.0, q)
        passed = r[0] == "ok" and len(calls) == 1 and r[1] is calls[0] and all(p is w for p, w in zip(r[1][1:], want))
        refused = r[0] == "raise" and type(r[1]) is TypeError and not calls
    elif usage == "returns-single":
        def g():
            calls.append(q)
            return q
        r = call(Dm.returns(declared)(g))
        passed = r[0] == "ok" and r[1] is q and len(calls) == 1
        refused = r[0] == "raise" and type(r[1]) is TypeError and len(calls) == 1
    elif usage == "returns-tuple":
        t = (good[0], q)

        def g2():
            calls.append(t)
            return t
        r = call(Dm.returns(good[1], declared)(g2))
        passed = r[0] == "ok" and r[1] is t and len(calls) == 1
        refused = r[0] == "raise" and type(r[1]) is TypeError and len(calls) == 1
    elif usage == "returns-over-accepts":
        def g3(x):
            calls.append(x)
            return x
        r = call(Dm.returns(declared)(Dm.accepts(x=declared)(g3)), q)
        passed = r[0] == "ok" and r[1] is q and len(calls) == 1
        refused = r[0] == "raise" and type(r[1]) is TypeError and not calls
    else:
        raise KeyError(usage)
    return passed, refused, dict(got=str(r)[:160], calls=len(calls))


def _dec_require(ctx, Dm, usage, declared, q, expected, label, good, value=None, scale=None):
    from .common import close, payload
    passed, refused, info = decorator_verdict(Dm, usage, declared, q, good)
    ok = passed if expected else refused
    lab = f"{usage}: {label} " + ("passes untouched" if expected else "is refused")
    if ok and expected and value is not None and hasattr(q, "units"):
        # what came through still has the SI magnitude that went in (decided by the solver)
        ctx.require(lab, And(ok, close(payload(q)[0] * q.units.base_value, value * scale)), to_solver=True, **info)
    else:
        ctx.require(lab, ok, **info)


def make_neighbour_case(dname, D):
    def h(ctx):
        unyt = ctx.mods["unyt"]
        Dm = unyt.dimensions
        rows = dict(BASE_ROWS)
        reg = ctx.registry([])
        sq = ctx.real("xq_s", pos=True)
        ctx.add_row(reg, "xq", D, sq, 0.0, prefixable=True)
        v_own = ctx.real("v_own")
        own = ctx.quantity(v_own, "xq", reg)
        good = (own, D)
        for usage in NB_USAGES:
            _dec_require(ctx, Dm, usage, D, own, True, "a value of the declared dimension", good, v_own, sq)
        k = 0
        for bname, brow in BASE_ROWS:
            b = getattr(Dm, bname)
            sb = ctx.real(brow + "_s", pos=True)
            if brow not in reg.lut:
                ctx.add_row(reg, brow, b, sb, 0.0)
            for p in NB_POWERS:
                k += 1
                N = D * b**p
                if N == D:
                    continue
                # the neighbour as ONE symbol (a fresh registry per neighbour: the same spelling 'xw' over and over) ...
                regn = ctx.registry([])
                sn = ctx.real(f"xw_s{k}", pos=True)
                ctx.add_row(regn, "xw", N, sn, 0.0)
                vn = ctx.real(f"v_n{k}")
                single = ctx.quantity(vn, "xw", regn)
                # ... and as a compound of the unit of D and the base row
                vc = ctx.real(f"v_c{k}")
                comp = ctx.quantity(vc, f"xq*{brow}**({p})", reg)
                if not (single.units.dimensions == N and comp.units.dimensions == N):
                    ctx.require("premise: the neighbour units have the neighbour dimension", False, dims=str(comp.units.dimensions))
                    return
                what = f"{bname}**{p}"
                for usage in NB_USAGES:
                    _dec_require(ctx, Dm, usage, D, single, False, f"declared D, a value of dimension D*{what} (one symbol)", good)
                    _dec_require(ctx, Dm, usage, D, comp, False, f"declared D, a value of dimension D*{what} (compound)", good)
                    _dec_require(ctx, Dm, usage, N, own, False, f"declared D*{what}, a value of dimension D", good)
                    _dec_require(ctx, Dm, usage, N, single, True, f"declared D*{what}, a value of dimension D*{what} (one symbol)", good, vn, sn)
                    _dec_require(ctx, Dm, usage, N, comp, True, f"declared D*{what}, a value of dimension D*{what} (compound)", good, vc, sq * sb**p)
    return Case(f"C19/decorators-neighbour/{dname}", h,
                bounds="symbolic: values and unit scales; enumerated: the dimension, the base dimension and power by which the neighbour "
                       "differs, spelling of the neighbour (one symbol / compound), usage")


# table units of the default registry whose dimension carries a base dimension that is easily taken for 'nothing'
TABLE_SUBJECTS = ("rad", "degree", "arcmin", "arcsec", "sr", "rpm", "rad/s", "degree/hr", "m**2*rad", "rad/m", "dB", "Np", "Np/m", "K", "K/s",
                  "cd", "lm", "lx", "cd/m**2", "A", "A*s", "kg*rad", "Hz*sr")


def make_table_subject_case(uname):
    def h(ctx):
        import sympy
        unyt = ctx.mods["unyt"]
        Dm = unyt.dimensions
        v = ctx.real("v")
        q = ctx.quantity(v, uname)
        Du = q.units.dimensions
        scale = q.units.base_value
        w = ctx.quantity(ctx.real("w"), "m")
        good = (w, Dm.length)
        for usage in NB_USAGES:
            _dec_require(ctx, Dm, usage, Du, q, True, f"a value in {uname} against its own dimension", good, v, scale)
        done = 0
        for b, e in sorted(sympy.sympify(Du).as_powers_dict().items(), key=lambda t: str(t[0])):
            if b == 1:
                continue
            for wrong, text in ((Du / b**e, f"with {b} dropped"), (Du / b**(2 * e), f"with {b} inverted"), (Du * b**e, f"with {b} doubled")):
                if wrong == Du:
                    continue
                done += 1
                for usage in NB_USAGES:
                    _dec_require(ctx, Dm, usage, wrong, q, False, f"a value in {uname} against its dimension {text}", good)
        if not done:
            ctx.require("premise: the table unit has a base dimension", False)
    return Case(f"C19/decorators-table/{uname}", h, bounds="symbolic: the value; enumerated: table unit, base dimension dropped/inverted/doubled, usage")


def neighbour_cases(tier, mods):
    Dm = mods["unyt"].dimensions
    cat = [(n, d) for n, d in dims_catalogue(mods, tier) if _decomposable(Dm, d)]
    out = [make_neighbour_case(n, d) for n, d in cat]
    out += [make_table_subject_case(u) for u in TABLE_SUBJECTS]
    return out


# ----------------------------------------------------------------------------------------------- the same objects again
#
# Every case above builds fresh, independent operands for every call, so a helper that WRITES to what it was given (converts
# `desired` in place, sorts/relabels an argument, leaves a rescaled buffer behind) answers every one of them correctly. Here the
# operands are objects the caller keeps: the same two objects go through two and three calls (also swapped), `actual` and
# `desired` wrap ONE buffer under two units, the same object is given as both arguments, an operand is a view into a larger
# array. Every call carries the single-call oracle computed from the values the harness wrote down BEFORE the first call, and
# after every call each object must still hold its values and its unit. Payload axis: z3 terms in an object array, and real
# float64 / float32 / int64 arrays (constants; the unit scales are then constants too, rtol and atol stay symbols, so the
# verdict of every call is still decided by z3 for all tolerances) - code that branches on the payload's dtype takes the
# branch it takes in production.

RU_PAYLOADS = ("sym", "f8", "f4", "i8")
RU_FIXED = {"xa": 2.0, "xd": 1.0 / 64, "xc": 0.25, "xe": 8.0, "xn": 0.5, "xt": 3.0, "xs": 1.0}
RU_NUMBERS = {"X": (3.0, 5.0), "Y": (385.0, 640.0), "pad": (7.0, 11.0)}      # 385/128 and all products exact in float32
RU_SCRIPTS = {
    "reuse": ("separate", [("X", "Y"), ("X", "Y")]),
    "reuse-swapped": ("separate", [("X", "Y"), ("Y", "X")]),
    "reuse-3": ("separate", [("X", "Y"), ("Y", "X"), ("X", "Y")]),
    "shared-buffer": ("shared", [("X", "Y")]),
    "shared-buffer-swapped": ("shared", [("Y", "X"), ("X", "Y")]),
    "same-object": ("separate", [("X", "X"), ("X", "Y")]),
    "views-of-a-base": ("views", [("X", "Y"), ("X", "Y")]),
}


def _ru_objects(ctx, reg, payload, layout, ux="xa", uy="xd"):
    """-> {name: Side}, [(label, live buffer, values written down now)]"""
    unyt = ctx.mods["unyt"]
    dt = {"f8": np.float64, "f4": np.float32, "i8": np.int64}.get(payload)

    def buf(name, nums):
        if payload == "sym":
            return ctx.reals(name, (len(nums),))
        return np.array(nums, dtype=dt)
    keep = []
    if layout == "shared":
        raw = buf("r", RU_NUMBERS["X"])
        bx = by = raw
        keep.append(("the shared buffer", raw, list(elements(raw))))
    elif layout == "views":
        basex = buf("bx", RU_NUMBERS["X"] + RU_NUMBERS["pad"][:1])
        basey = buf("by", RU_NUMBERS["pad"][1:] + RU_NUMBERS["Y"])
        bx, by = basex[0:2], basey[1:3]
        keep += [("the base array of actual", basex, list(elements(basex))), ("the base array of desired", basey, list(elements(basey)))]
    else:
        bx, by = buf("x", RU_NUMBERS["X"]), buf("y", RU_NUMBERS["Y"])
    sides = {}
    for nm, b, u in (("X", bx, ux), ("Y", by, uy)):
        ustr, s, dim = unit_of(ctx, reg, u)
        obj = unyt.unyt_array(b, ustr, registry=reg)
        sides[nm] = Side(obj, list(elements(b)), s, dim, False, (2,), ustr)
        keep.append((f"the object {nm}", obj, list(elements(b))))
    if not (np.shares_memory(sides["X"].obj, bx) and np.shares_memory(sides["Y"].obj, by)):
        ctx.require("premise: the quantities wrap the caller's buffers", False)
        return None, None
    return sides, keep


def _ru_unchanged(ctx, lp, sides, keep, extra=()):
    """after a call: every object the caller holds still has its values and its unit"""
    ok = True
    for label, live, before in keep:
        now = elements(np.asarray(live))
        ok = And(ok, len(now) == len(before), *[exact_eq(n, b) for n, b in zip(now, before)])
    for nm, S in sides.items():
        ok = And(ok, str(S.obj.units) == S.ustr, S.obj.shape == S.shape)
    for label, q, before, ustr in extra:
        ok = And(ok, exact_eq(elements(np.asarray(q))[0], before), str(q.units) == ustr)
    ctx.require(lp + "the arguments are left as they were (values, units)", ok)


def make_reuse_case(fn_name, payload, script, atol_how):
    layout, steps = RU_SCRIPTS[script]
    npf = fn_name in NP_FAMILY

    def h(ctx):
        reg = ctx.registry([])
        if payload != "sym":
            reg._c19_fixed = RU_FIXED
        sides, keep = _ru_objects(ctx, reg, payload, layout)
        if sides is None:
            return
        separate(ctx, sides["X"].scale, sides["Y"].scale)
        # ONE tolerance object for all calls of the history (the caller keeps it too)
        kwa, atol, atol_scale, atol_dim = make_atol(ctx, reg, atol_how)
        if atol is None:
            atol = 1e-8 if npf else 0.0
        kwr, rtol, _, _ = make_rtol(ctx, reg, "bare", None)
        kw = dict(kwa, **kwr)
        extra = []
        if atol_scale is not None:
            separate(ctx, atol_scale, sides["X"].scale)
            separate(ctx, atol_scale, sides["Y"].scale)
            extra.append(("atol", kw["atol"], atol, str(kw["atol"].units)))
        for i, (na, nd) in enumerate(steps):
            lp = f"call {i + 1} of {len(steps)} ({na},{nd}): " if len(steps) > 1 else ""
            A, Dd = sides[na], sides[nd]
            out = run_close(ctx, fn_name, A.obj, Dd.obj, kw)
            if out[0] != "verdict":
                ctx.require(lp + f"commensurable operands and tolerances give a verdict (raised {type(out[1]).__name__})", False, got=repr(out[1])[:200])
                return
            rel_d = ratio(Dd.scale, A.scale)
            if atol_dim == "bare":
                mb = margins(A, Dd, rel_d, atol * rel_d, rtol)
                lab = "verdict == SI oracle on the values given, bare atol read in desired's unit"
            else:
                mb = margins(A, Dd, rel_d, atol * ratio(atol_scale, A.scale), rtol)
                lab = "verdict == SI oracle on the values given, atol in its own unit"
            check_verdicts(ctx, lp + lab, fn_name, out[1], mb)
            _ru_unchanged(ctx, lp, sides, keep, extra)
    return Case(f"C19/reuse/{fn_name}/{script}/{payload}/atol={atol_how}", h, oblig_timeout_ms=60000, budget_s=600,
                weight=(4 if npf else 2) * len(steps) ** 2,
                bounds="symbolic: rtol, atol; values and unit scales (z3 terms for payload 'sym', constants for the real float/int dtypes); "
                       "enumerated: payload dtype, which objects are shared between arguments and calls, the call history")


def make_reuse_equal_case(fn_name, script, form):
    layout, steps = RU_SCRIPTS[script]

    def h(ctx):
        reg = ctx.registry([])
        sides, keep = _ru_objects(ctx, reg, "sym", layout)
        if sides is None:
            return
        if form == "q":
            # scalar operands: quantities taken out of the arrays (element views where numpy gives them)
            for nm, S in sides.items():
                S.obj, S.vals, S.shape = S.obj[0:1].reshape(()), S.vals[:1], ()
        for i, (na, nb) in enumerate(steps):
            lp = f"call {i + 1} of {len(steps)} ({na},{nb}): " if len(steps) > 1 else ""
            equal_oblig(ctx, fn_name, sides[na], sides[nb], lp)
            _ru_unchanged(ctx, lp, sides, keep)
    return Case(f"C19/reuse/{fn_name}/{script}/sym/{form}", h, oblig_timeout_ms=60000, budget_s=600, weight=2 * len(steps) ** 2,
                bounds="symbolic: values and unit scales; enumerated: which objects are shared between arguments and calls, the call history")


def reuse_cases(tier):
    thorough = tier == "thorough"
    out = []
    for fn in ("allclose_units", "assert_allclose_units") + NP_FAMILY:
        npf = fn in NP_FAMILY
        first = fn in ("allclose_units", "np.allclose")
        free = "zero" if npf else "default"
        for k, script in enumerate(RU_SCRIPTS):
            n = len(RU_SCRIPTS[script][1])
            for j, payload in enumerate(RU_PAYLOADS):
                if not thorough:
                    # quick: every script with the symbolic and the float64 payload for the first function of each pair, the
                    # other dtypes and functions rotate
                    if not (first and payload in ("sym", "f8")) and (k + j) % 3 != (0 if first else 1):
                        continue
                atols = [free]
                if (thorough or (first and payload in ("sym", "f8"))) and n <= 2 and not (npf and payload == "sym" and n > 1):
                    atols += ["xc"] + ([] if npf else ["bare"])
                for atol in atols:
                    out.append(make_reuse_case(fn, payload, script, atol))
    for fn in ("np.array_equal", "np.array_equiv", "assert_array_equal_units"):
        for script in RU_SCRIPTS:
            n = len(RU_SCRIPTS[script][1])
            if n > 2 and not thorough:
                continue
            form = "q" if fn == "assert_array_equal_units" and n > 1 else "a"
            out.append(make_reuse_equal_case(fn, script, form))
    return out


def _decomposable(Dm, d):
    try:
        _powers(Dm, d)
        return True
    except (KeyError, AttributeError):
        return False


# ----------------------------------------------------------------------------------------------- case table

def cases(tier, mods):
    """Discrete axes. The bare-atol x different-units cells (where the known findings fire, each costing a model search and a
    replay) are a bounded selection; the operand-form axis is covered in full with the tolerance spellings that are
    finding-free (default/zero/unit-carrying atol)."""
    check_names(mods, NAMES)
    out = []
    thorough = tier == "thorough"
    UNITS_FNS = ("allclose_units", "assert_allclose_units")
    same_dim = [("q", "xa", "q", "xd"), ("a", "xa", "a", "xd"), ("a", "xa", "q", "xd"), ("q", "xa", "a", "xd"),
                ("q", "xa", "q", "xa"), ("q", "kxa", "q", "xd"), ("a", "xa", "a", "cxa"), ("q", "xa**2/xs", "q", "xd**2/xs"),
                ("q", "xn", "q", "dimensionless"), ("a", "dimensionless", "a", "xn")]
    bare_dimless = [("bs", None, "q", "xn"), ("a", "xn", "bl", None), ("ba", None, "a", "dimensionless"), ("bl", None, "ba", None),
                    ("q", "dimensionless", "bs", None)]
    incomm = [("q", "xa", "q", "xt"), ("a", "xa", "a", "xa**2/xs"), ("q", "xa", "bs", None), ("bl", None, "a", "xd"),
              ("q", "dimensionless", "q", "xd"), ("a", "xa", "a", "xn")]
    # --- allclose_units / assert_allclose_units
    for fn in UNITS_FNS:
        first = fn == "allclose_units"
        for k, (fa, ua, fd, ud) in enumerate(same_dim):
            if not (thorough or first or k in (0, 1, 5)):
                continue
            dimless = ua in ("xn", "dimensionless")
            atols = ["default", "xc", "xt", "dimensionless"] + (["kxc", "xn"] if thorough or k < 2 else [])
            for atol in atols:
                if dimless and atol in ("xc", "kxc"):
                    continue
                out.append(make_close_case(fn, fa, ua, fd, ud, atol, "bare"))
            out.append(make_close_case(fn, fa, ua, fd, ud, "default", "default"))
            # bare atol: same unit on both sides (finding-free) always; different units in a bounded selection
            if ua == ud or k in (0, 1) or thorough:
                out.append(make_close_case(fn, fa, ua, fd, ud, "bare", "bare"))
        out.append(make_close_case(fn, "q", "xa", "q", "xd", "bare", "default"))
        for k, (fa, ua, fd, ud) in enumerate(bare_dimless):
            for atol in (["default", "xn", "dimensionless", "xt"] if thorough or first else ["xn"]):
                out.append(make_close_case(fn, fa, ua, fd, ud, atol, "bare"))
            if ud != "xn" and ua != "xn" or (thorough and first):
                out.append(make_close_case(fn, fa, ua, fd, ud, "bare", "bare"))
        for fa, ua, fd, ud in incomm:
            for atol in (["default", "bare", "xc", "xt"] if thorough else ["default", "xc"]):
                out.append(make_close_case(fn, fa, ua, fd, ud, atol, "bare"))
        # rtol spellings
        for k, (fa, ua, fd, ud) in enumerate(same_dim[:4] if thorough else same_dim[:2]):
            if k < 2 and (first or thorough):
                out.append(make_close_case(fn, fa, ua, fd, ud, "xc", "xn"))
            out.append(make_close_case(fn, fa, ua, fd, ud, "xc", "dimensionless"))
            out.append(make_close_case(fn, fa, ua, fd, ud, "xc", "xt"))
    # --- numpy.allclose / numpy.isclose handlers (numpy's default atol is a bare 1e-8: 'zero' is the finding-free spelling)
    adopt = [("q", "xa", "bs", None), ("bl", None, "a", "xd"), ("a", "xa", "ba", None), ("q", "dimensionless", "q", "xd"),
             ("ba", None, "a", "dimensionless")]
    unitless_vs_scaled = [("q", "xn", "q", "dimensionless"), ("a", "xn", "bl", None), ("a", "dimensionless", "a", "xn"), ("bs", None, "q", "xn")]
    for fn in NP_FAMILY:
        first = fn == "np.allclose"
        for k, (fa, ua, fd, ud) in enumerate(same_dim[:8]):
            if not (thorough or k in (0, 1, 2, 3, 5, 7)):
                continue
            out.append(make_close_case(fn, fa, ua, fd, ud, "zero", "bare"))
            out.append(make_close_case(fn, fa, ua, fd, ud, "zero", "default"))
            if ua == ud or k == 0 or (k == 1 and (first or thorough)) or (thorough and first and k == 5):
                out.append(make_close_case(fn, fa, ua, fd, ud, "bare", "bare"))
                out.append(make_close_case(fn, fa, ua, fd, ud, "default", "default"))
        # a unit-carrying atol (scalar operands: unyt's ufunc machinery on `atol + rtol*|y|` costs ~100 paths)
        for atol in (("xc", "xt", "dimensionless") if thorough else (("xc", "xt") if first else ("xc", "dimensionless"))):
            out.append(make_close_case(fn, "q", "xa", "q", "xd", atol, "bare"))
        if thorough:
            out.append(make_close_case(fn, "q", "xa", "q", "xd", "xc", "default"))
            out.append(make_close_case(fn, "q", "kxa", "q", "xd", "kxc", "bare"))
            if first:
                out.append(make_close_case(fn, "a", "xa", "q", "xd", "xc", "bare"))
                out.append(make_close_case(fn, "a", "xa", "a", "xd", "xc", "bare"))
        for fa, ua, fd, ud in adopt:
            for atol in (["zero", "bare", "default"] if thorough else ["bare"]):
                out.append(make_close_case(fn, fa, ua, fd, ud, atol, "bare"))
        for fa, ua, fd, ud in (unitless_vs_scaled if thorough else unitless_vs_scaled[:2]):
            out.append(make_close_case(fn, fa, ua, fd, ud, "zero", "bare"))
        for fa, ua, fd, ud in incomm[:2]:
            for atol in (["default", "bare", "xc"] if thorough else ["default"]):
                out.append(make_close_case(fn, fa, ua, fd, ud, atol, "bare"))
    # --- re-expression of one operand
    for fn in UNITS_FNS + NP_FAMILY:
        free = ["default", "xc"] if fn in UNITS_FNS else ["zero"]
        for which in ("actual", "desired"):
            for fa, fd in ([("q", "q"), ("a", "a")] if thorough or fn == "allclose_units" else [("q", "q")]):
                for via in (("xe", "kxa", "uxd") if thorough else ("xe", "kxa")):
                    for atol in free:
                        out.append(make_reexpr_case(fn, which, fa, fd, atol, via))
            if which == "actual" and (thorough or fn in ("allclose_units", "np.isclose")):
                out.append(make_reexpr_case(fn, which, "q", "q", "bare", "xe"))
    # --- array_equal family
    eq_pairs = [("a", "xa", "a", "xa"), ("a", "xa", "a", "xd"), ("a", "kxa", "a", "1000*xa"), ("a", "xa", "a", "xt"),
                ("a", "xa", "ba", None), ("a", "dimensionless", "bl", None), ("ba", None, "a", "dimensionless"),
                ("a", "xn", "ba", None), ("q", "xa", "q", "xa"), ("a", "xa", "q", "xa"), ("q", "xa", "a", "xd"),
                ("q", "xa", "q", "xd"), ("a", "xa**2/xs", "a", "xd**2/xs"), ("q", "xn", "q", "dimensionless"), ("q", "xa", "bs", None)]
    for fn in ("np.array_equal", "np.array_equiv", "assert_array_equal_units"):
        for fa, ua, fb, ub in eq_pairs:
            out.append(make_equal_case(fn, fa, ua, fb, ub))
    out += em_cases(tier)
    out += twin_cases(tier)
    out += decorator_cases(tier, mods)
    out += multi_value_cases(tier, mods)
    out += decorator_history_cases(tier, mods)
    out += neighbour_cases(tier, mods)
    out += reuse_cases(tier)
    return out
