"""C12 - registry edits take effect everywhere, immediately, regardless of history (bounded model checking)."""
import copy
import itertools

import z3

from symx.core import SymReal, lift

import numpy as np

from .common import PREFIX, And, Case, Iff, Implies, Not, Or, band, call, check_names, elements, exact_eq, payload
from .common import close as band_close
from .registry_common import (BAR, BASE_OF_DIM, FOO, NAMES, TABLE, Log, Model, Probe, describe, dims_equal, mc_stats, merge_mc, obs_value,
                              probes, req, state_id)

LEVEL = "model_checking"
MANIFEST = dict(
    category="model_checking",
    text=("Bounded model checking with the real code as transition function: every history of registry operations up to the "
          "bound (add / re-add / modify by float / modify by quantity / remove / define_unit - of an existing symbol, of a NEW "
          "unrelated symbol and of a NEW symbol spelled like an SI-prefixed form of an existing one - interleaved with unit "
          "construction from atomic, prefixed and compound strings, array creation, conversion, multiplication, with the other "
          "ways of asking a registry (reg[...], `in`, products/quotients through Unit.simplify, LaTeX of a compound, keys / "
          "prefixable_units / list_same_dimensions, unit_system_id) and with re-use of units and quantities made earlier (every "
          "copy route, arithmetic, and EPOCH-MIXED pairs: a quantity made earlier meets one made now from the same string in the same "
          "registry under + - == < * / .to / convert_to_units / to_value / get_conversion_factor / Unit ==)) is executed on the real "
          "UnitRegistry / Unit / unyt_array code with every scale a fresh z3 real; "
          "after the history (hence after every prefix, the set of histories being prefix-closed) and, in further families, after "
          "every single step, each probe string is resolved against the live registry and z3 decides whether its scale term and "
          "dimensions equal those of a 20-line reference model (itself checked, state by state, against a cold registry built by the "
          "real code from the model's contents); the rows the registry lists must be implied by the model; units made earlier and "
          "their copies must keep their term; the unit attached to a result computed from operands made now must be what its own "
          "label says under the current contents. A further family repeats a battery of CANCELLING products / quotients (the unit "
          "rule cancels a factor of a compound against the other operand and so reads the rows of the individual factors) at the "
          "start and after every step of every history of edits that exchange scales and dimensions between the factors - among "
          "them the edit pairs that leave scale and dimension of the compound unchanged, i.e. every key a memo could be built on; "
          "there the scales are numerals (sympy cannot cancel z3 terms) and the payloads symbolic. A further family keeps SEVERAL "
          "REGISTRY OBJECTS in one history - a user registry, the process default registry (addressed by leaving registry= out, "
          "edited by define_unit / add, modify / remove refused), a registry nobody has edited, registries created in the middle "
          "and at the end by every constructor form - each with its own reference model: operations on one of them (edits, "
          "requests that fill its memos, an edit that restores the contents) are followed by the probe round on ALL of them, so "
          "an answer that depends on what another registry holds or was asked, or on whether the registry named was ever edited, "
          "differs from the model of the registry named. A further family walks registries that are COPIES OF ONE ANOTHER: a twin is born "
          "from the user registry by copy.copy / copy.deepcopy / deep copy of an array bound to it / Unit.copy(deep=True) / pickle round "
          "trip / from_json(to_json()) at every position of the history, edits (modify / re-add / remove / add new) follow on either twin, "
          "and both twins are asked in both orders, each against its own reference model, every unit also having to name the registry "
          "asked. Histories are enumerated (discrete), scales and payloads are solved for."),
    design="DESIGN.md section 4 C12",
    technique="explicit-state bounded model checking over operation histories, symbolic (z3 real) data, reference-model refinement check per state; counterexample replay on plain unyt")
EXPLANATION = (
    "Transition function = the real UnitRegistry.add/modify/remove/__getitem__/__contains__/keys/prefixable_units/"
    "list_same_dimensions/unit_system_id, define_unit, Unit.__new__ (+ _unit_object_cache), Unit.copy/__deepcopy__/simplify/"
    "latex_repr, _lookup_unit_symbol, Unit.__hash__, the cached unit rules (_multiply_units/_divide_units) and "
    "_check_em_conversion, unyt_array creation/to()/multiplication/division/copy. Caches are cleared only at the start of a path, "
    "one path = one history, so all memo layers are live inside a history. Specification = Model12 (harness.registry_common.Model "
    "+ the documented lookup order: the whole string as a symbol first, then SI prefix + prefixable symbol) and its evaluator for "
    "the probe strings {xfoo, kxfoo, mxfoo, xbar, xfoo*xbar, kxfoo**2/xbar, xfoo/xfoo} (+ {xnew, kxnew, xnew*xbar} in the families "
    "that add symbols). Obligations per observed state: base_value term == model term (1e-6 band) and dimensions equal, or "
    "'unknown symbol' exactly when the model says so; every non-default row the registry lists (keys()) is a model symbol with "
    "its current term or prefix + prefixable model symbol with prefix * CURRENT term, and no model symbol is missing; the model's "
    "answer == the real code's answer on a cold registry holding the model's rows (validation of the specification); outcome "
    "(exception class) of every operation as documented (modify/remove know table rows only, define_unit refuses every spelling "
    "that resolves); reg[s] / s in reg / the listings answer from the current contents; unit_system_id == the id of a fresh "
    "registry holding the same table; units created earlier keep the term they had, every copy of them (Unit.copy shallow/deep, "
    "copy.copy, copy.deepcopy, array .copy(), .units.copy()) has that old term with the string memo cold and warm, and the same "
    "strings requested right after the copies have the current term; arithmetic with old units carries their old term. "
    "Epoch-mixed operands (old_mix): every quantity made earlier (by old_mix itself from xfoo, kxfoo, xfoo*xbar [xnew, kxnew], by "
    "arr_create, by ask_prod) meets a quantity made NOW from the same string against the same registry object - same expression, "
    "same registry, and after an edit another scale or dimension: SI(old + new), SI(new + old), SI(new - old) == x*old_term +- "
    "y*current_term (band relative to the operands), old == new / old < new decided on SI magnitudes (near-ties excused), "
    "SI(old * new), SI(old / new), old.to(string) / copy.convert_to_units(string) / old.to_value(string) == x*old_term/current_term "
    "labelled with the current term, Unit.get_conversion_factor == old_term/current_term, Unit == only inside the band; after a "
    "re-add with another dimension + - < and the conversions must raise UnitOperationError / UnitConversionError and == is False. "
    "Label consistency (label_ok): the unit attached to a product / quotient of operands made now has the scale and dimension its "
    "own expression evaluates to in the model (a result labelled xbar carrying a former scale of xbar is stale although its SI "
    "magnitude is right). Family 'cancel': numeral scales (A, B) in {(2, 3), (0.5, 1.25)}, xfoo = A length (prefixable), xbar = B "
    "time; 12 edits store A or B into either symbol by modify-float / re-add (same or other dimension) / modify-by-quantity (other "
    "dimension) (+ remove); the battery = (xfoo*xbar)/m, (xfoo*xbar)/s, (xfoo*xbar)*(1/m), m/(xfoo*xbar), kxfoo/xfoo, "
    "kxfoo*(xbar/xfoo), in-place /=, np.divide(out=), Unit/Unit .simplify() x3, in_mks(), every operand made from its string at "
    "that moment with a symbolic payload, is run at the start and after EVERY step, so each call is repeated across every edit with "
    "all memo layers (string memo, written-back rows, lru-cached unit rules keyed by Unit hash/eq, _check_em_conversion) warm; "
    "oracle: SI magnitude and dimensions from the model's rows + label consistency. z3 decides "
    "each obligation for all positive scales / all payloads at once; a stale memo shows as a term that still mentions an old symbol. "
    "Family 'multi' (several registry objects, one history): worlds U = user registry with xfoo (length, prefixable) and xbar, D = "
    "unyt's default registry with an xbar of its own (constructions and define_unit address it by leaving registry= out; its "
    "modify / remove must raise TypeError and change nothing), P = UnitRegistry() created before anything else and edited only by "
    "the operations P:add_foo / P:def_foo / P:touch (add + remove of an unrelated symbol: edited, same contents), L = UnitRegistry() "
    "created by the operation 'late' and asked at once, N = registries created after the history by the four constructor forms "
    "(UnitRegistry(), unit_system='cgs', lut=copy of the default table without defaults, lut={own row} + defaults). 12 operations "
    "(define_unit / add / refused remove on D, Unit('kxfoo') / Unit('xfoo*xbar') on D, the three edits and a request on P, a "
    "request and a modify on U, late); at the end the probe round on every world in the order D, L, P, U (+ rows listed, + "
    "cold-registry differential for U), three probe strings + rows on every N, unit_system_id of P and two N forms against a "
    "fresh registry with the same table, then U and P asked again after all the others; each world has its own model with its "
    "own symbolic scales, so a term of another world in an answer is a violation for all values. "
    "Family 'twin' (registries that are copies of one another): world A = user registry with xfoo, xbar; after 0..3 operations on A "
    "a twin B is born by one of 6 routes (copy.copy, copy.deepcopy, copy.deepcopy(quantity bound to A).units.registry, "
    "Unit(...,registry=A).copy(deep=True).registry, pickle.loads(pickle.dumps(A)), UnitRegistry.from_json(A.to_json())); B must be a "
    "registry object of its own listing A's rows; B gets its own reference model (A's contents at birth), every later edit of either "
    "twin carries a fresh solver symbol; at the end 7 probe strings + listed rows on both twins in the order A,B and (separate cases) "
    "B,A, the twin asked first asked again after the other, every unit's .registry must be the registry asked, units made earlier keep "
    "their term. A pickle / JSON text cannot hold a solver term: on these two routes the contents at birth are numerals and only "
    "symbol-free operations precede the birth; edits after the birth are symbolic."
)
BOUNDS = {
    "quick": "4 symbols on top of the default table: xfoo (prefixable), xbar present at the start; kxfoo (stand-alone symbol that shadows "
             "kilo-xfoo) and xnew (prefixable) absent at the start. Seven families, ALL histories up to a length over each alphabet "
             "(16559 histories; prefix-closed, so every prefix is observed too), grouped into cases by their first operation (the first two in the widest families): "
             "end = 21 operations (6 edits of xfoo/xbar, 6 constructions/uses, 6 ways of asking the registry, copies of / arithmetic "
             "with earlier units, old_mix = epoch-mixed pairs) to length 3: 9724; every = 6 edit ops with a full probe round after every step, "
             "length 3: 259; shadow = 14 operations "
             "(add/modify/remove/define_unit of kxfoo, add/modify/remove of xfoo, construction/array/conversion of kxfoo strings, "
             "reg[...]/in/product, old_mix) to length 3: 2955; shadow-every = 6 edits of kxfoo and xfoo with a probe round after every step: 259; "
             "fresh = 10 operations around the new symbol xnew (add/modify/remove/define_unit, construction of xnew, kxnew, "
             "xnew*xbar before and after, asks, remove of xfoo, old_mix) to length 3: 1111; cancel = 13 edits (12 that store one of two "
             "numeral scales into xfoo / xbar by 3 routes with 2 dimensions, remove) to length 2 x 2 scale configurations, the battery "
             "of 12 cancelling calls at the start and after every step: 366. 7 (10 in shadow / fresh) probe strings + the "
             "kxfoo/xfoo conversion factor + the listed-rows check per observed state; old_mix: at most 6 earlier quantities per "
             "call, the whole battery (13 calls) for the oldest pair whose term or dimension changed, the 9 non-forking calls for the "
             "others; scales/values symbolic except the scales of the cancel family (numerals, payloads symbolic); multi = 12 operations "
             "naming one of 3 registry objects (user, process default, never edited) or creating one, to length 3: 1885, observed at "
             "the end on all registry objects (3 + those created late + 4 constructor forms); twin = 6 clone routes x 2 orders of asking x birth "
             "after 0..3 operations on the original (3 operations) x histories over 6 edits naming either twin, total length <= 3: 12 x 478 = 5736",
    "thorough": "the quick families (end, shadow, shadow-every, fresh to length 3; every to length 4: 1555) + deep = the 12 round-1 "
                "operations to length 4 (22621) + ask-deep = 6 edits + 6 asks + copies to length 4 (30941) + shadow-deep = 10 "
                "operations (shadow without define_unit / array creation / conversion / old_mix) to length 4 (11111) + mix-deep = 6 "
                "edits + arr_create + old_mix to length 4 (4681) + cancel to length 3 (2 x 2380) + multi as in quick (1885) + twin with 6 operations before the birth (3 on the pickle / JSON routes) and 14 operations naming either twin after it, total length <= 3 (54816): 146419 histories",
}
OUTSIDE = ("histories longer than the bound; more than two user symbols present at the start and two added later; family twin: more than one copy per history, copies of copies, copies of the default registry, unit_system_id / reg[...] asks on the twins, symbolic contents at birth on the pickle / JSON routes; family multi: "
           "arithmetic between quantities of different registry objects (C13), more than one user registry with symbols of its own, "
           "the default registry addressed explicitly, asks other than Unit(string) / rows / unit_system_id on the other registries; prefixes other "
           "than k / m / M in the shadowing and asking operations; stand-alone symbols spelled like a prefixed form that are "
           "themselves prefixable; offsets (always 0 here; C03/C08 treat offsets); unit-system objects created from an edited "
           "registry (C10); to_json / pickle / copies of the registry itself (C11/C13); cancellation of factors with SYMBOLIC "
           "scales (sympy expressions cannot hold z3 terms): calls whose unit rule cancels a pair are walked with numeral scales only "
           "(family cancel: two configurations of two values, histories <= 2 quick / <= 3 thorough), and old * new of a string whose "
           "own numerator and denominator have one dimension (kxfoo/xbar under a stand-alone kxfoo) is skipped; in the cancel family "
           "memo keys that collide only for scale values other than the two of the configuration (e.g. a key rounded to few digits) "
           "are not reached; epoch-mixed pairs under ufuncs other than + - == < * / (C04 walks the ufunc table over same-spelling "
           "operands after modify); arithmetic of an old unit whose symbol has been removed may be refused "
           "(SymbolNotFoundError is accepted there); IEEE rounding (A1); concurrent use")

ASSUMPTIONS = [
    "C12: the operation taken at step i is decoded from an auxiliary real symbol op_i (interval decoding); the explorer thereby enumerates all histories, one path each; the symbols have no meaning for unyt",
    "C12: obligations whose two sides z3's rewriter normalises to the same polynomial are counted as ground checks; the solver proper decides the quotient obligations (kxfoo/xfoo factor, quantity quotients), path feasibility (Unit.__eq__ forks) and every obligation whose sides differ",
    "C12: Unit.__hash__ hashes the repr of the table, so lru-cache hits between units of equal value but different symbolic name are not explored (such hits return a unit within unyt's own 1e-9 equality band, inside the 1e-6 band of the obligations)",
    "C12: family cancel: unit cancellation writes the ratio of two scales into a sympy expression, which cannot hold a z3 term, so the scales of this family are numerals from two enumerated configurations and only the payloads are symbols; most of its obligations normalise to ground checks, the enumerated history (which edits, by which route, in which order, with the battery in between) is the deciding axis there",
    "C12: the listing methods return lists of names: their obligations are discrete comparisons on every explored path (replayed like the others); unit_system_id is a digest: a memoised id that differs from the fresh one is identified among the digests of the earlier tables of the history and the solver decides whether that table can differ from the current one",
]
OPS = ["add_foo", "mod_foo_f", "mod_foo_q", "rm_foo", "def_foo", "mod_bar_f", "mk_atom", "mk_pref", "mk_comp", "arr_create",
       "convert", "arith"]
EDITS = OPS[:6]
# symbols that do not exist at the start of a history: KFOO is spelled like the kilo-form of FOO (a stand-alone symbol of that
# spelling SHADOWS the prefix parse: the table gives the whole symbol priority), NEW is unrelated and prefixable
KFOO, NEW = "k" + FOO, "xnew"
# the registry is asked by other means than Unit(string): reg[...], `in`, products/quotients (Unit.simplify ->
# _create_unit_from_factor -> registry[...]), LaTeX of a compound, the listing methods, the memoised unit_system_id
ASKS = ["ask_item", "ask_in", "ask_prod", "ask_latex", "ask_lists", "ask_sysid"]
# units / quantities made earlier in the history are used again: copied (every copy route), multiplied, raised to a power
OLDS = ["old_copy", "old_arith"]
# EPOCH-MIXED OPERANDS: a quantity made earlier in the history meets one made NOW from the same string against the same
# registry object (same expression, same registry, possibly another scale / dimension: 'same unit' must be decided by value)
MIX = ["old_mix"]
WIDE = OPS + ASKS + OLDS + MIX
SHADOW_EDITS = ["add_kfoo", "mod_kfoo_f", "rm_kfoo", "def_kfoo"]
SHADOW = SHADOW_EDITS + ["add_foo", "mod_foo_f", "rm_foo", "mk_pref", "arr_create", "convert", "ask_item", "ask_in", "ask_prod"] + MIX
SHADOW_EVERY = SHADOW_EDITS[:3] + ["add_foo", "mod_foo_f", "rm_foo"]
FRESH = ["add_new", "mod_new_f", "rm_new", "def_new", "mk_new", "mk_knew", "mk_cnew", "ask_new", "rm_foo"] + MIX
# CANCELLING CALLS REPEATED ACROSS EDITS (family 'cancel'): products / quotients whose unit rule cancels one factor of a compound
# against the other operand read the rows of the individual factors (Unit.simplify -> registry[...]); sympy expressions cannot
# hold z3 terms, so the scales of this family are numerals (guide, Rules) taken from a configuration (A, B): xfoo = A, xbar = B
# at the start, every edit stores A or B - so pairs of edits exist that change the factors and keep scale and dimension of the
# compound (xfoo A->B with xbar B->A; xfoo length->time with xbar time->length). Payloads stay symbolic.
CANCEL_CONFIGS = {"int": (2.0, 3.0), "frac": (0.5, 1.25)}
CANCEL = ["c_foo_f", "c_bar_f", "c_foo_addL", "c_foo_addT", "c_bar_addT", "c_bar_addL", "c_foo_qT", "c_bar_qL", "c_foo_dimT",
          "c_bar_dimL", "c_foo_qdimT", "c_bar_qdimL", "rm_foo"]


# SEVERAL REGISTRY OBJECTS IN ONE HISTORY (family 'multi'): 'the result of a call depends only on its arguments and the CURRENT
# contents of the registry it names' also excludes what was done earlier to / asked earlier of ANOTHER registry object, and
# whether the registry named has ever been edited. Worlds: U = a user registry holding xfoo (length, prefixable) and xbar;
# D = the process default registry (addressed by leaving registry= out), holding its own xbar; P = UnitRegistry() made at the
# start that nobody has edited; L = UnitRegistry() made in the middle of the history ('late'); N0..N3 = registries made at the
# very end by every constructor form. Every operation names its world.
# (the default registry refuses modify / remove: 'D:rm_foo' must raise TypeError and change nothing; a re-add is its edit route)
MULTI = ["D:def_foo", "D:add_foo", "D:rm_foo", "D:mk_pref", "D:mk_comp", "P:touch", "P:mk_atom", "P:add_foo", "P:def_foo", "U:mk_comp",
         "U:mod_foo_f", "late"]
NOW_FORMS = ["plain", "unit_system", "lut_only", "lut_plus_defaults"]
NOW_PROBES = ("atom", "prefixed_k", "compound")


# REGISTRIES THAT ARE COPIES OF ONE ANOTHER (family 'twin'): world A = a user registry (xfoo, xbar, symbolic scales); at one position
# of the history (before any edit, between edits, at the end) a twin B is born from A by one of the CLONE_ROUTES; from then on the two
# are separate registries: B keeps its own reference model (= A's contents at birth), later edits of either twin carry fresh solver
# symbols, so a term of the other twin in an answer is a violation for all values. Both twins are asked at the end, in both orders.
CLONE_ROUTES = ["copy", "deepcopy", "array_deepcopy", "unit_copy_deep", "pickle", "json"]
SERIAL_ROUTES = ("pickle", "json")
TWIN_PRE_SERIAL = ["rm_foo", "mk_pref", "mk_comp"]
TWIN_PRE = ["mod_foo_f", "rm_foo", "mk_pref"]  # before the birth: operations on A
TWIN_POST = ["A:mod_foo_f", "A:add_foo", "A:rm_foo", "A:add_new", "B:mod_foo_f", "B:rm_foo"]
TWIN_PRE_FULL = ["mod_foo_f", "add_foo", "rm_foo", "add_new", "mk_pref", "mk_comp"]
TWIN_POST_FULL = TWIN_POST + ["B:add_foo", "B:add_new", "A:mk_pref", "B:mk_pref", "A:mk_comp", "B:mk_comp", "A:mod_bar_f", "B:mod_bar_f"]
TWIN_PROBES = ("atom", "prefixed_k", "prefixed_m", "compound", "compound_prefixed", "new_atom", "new_prefixed")


def sel(ctx, name, n):  # registry_common.sel (same decoding k <= o < k+1) with a bisection: log2(n) forks per step
    o = ctx.real(name, lo=0, hi=n)
    lo, hi = 0, n
    while hi - lo > 1:
        mid = (lo + hi) // 2
        if o < mid:
            hi = mid
        else:
            lo = mid
    return lo


def close(a, b):
    """the 1e-6 band of harness.common.close. Two terms whose difference z3's rewriter normalises to the numeral 0 are equal
    for all values (ASSUMPTIONS: counted as ground checks); the band formula is built only for the others"""
    if isinstance(a, SymReal) or isinstance(b, SymReal):
        d = z3.simplify(lift(a) - lift(b))
        if z3.is_rational_value(d) and d.numerator_as_long() == 0:
            return True
    return band_close(a, b)


def resolution_ok(res, exp):  # registry_common.resolution_ok with the fast path above
    if exp is None:
        return res[0] == "raise" and type(res[1]).__name__ in ("UnitParseError", "SymbolNotFoundError")
    if res[0] != "ok":
        return False
    u = getattr(res[1], "units", res[1])
    return And(close(u.base_value, exp[0]), dims_equal(u.dimensions, exp[1]))


def close3(a, b, extra):
    """close() with an additional absolute band (sums / differences: relative to the operands, guide 'Lessons learnt')"""
    return band_close(a, b, extra=extra)


MIX_WHAT = {"add": "old + new", "radd": "new + old", "sub": "new - old", "eq": "old == new", "lt": "old < new", "mul": "old * new",
            "div": "old / new", "to": "old.to(its own string)", "convert": "copy of old .convert_to_units(its own string)",
            "to_value": "old.to_value(its own string)", "factor": "old.units.get_conversion_factor(new.units)",
            "unit-eq": "old.units == new.units"}


def same_term(a, b):
    """syntactically the same term (no edit in between)"""
    if isinstance(a, SymReal) or isinstance(b, SymReal):
        d = z3.simplify(lift(a) - lift(b))
        return z3.is_rational_value(d) and d.numerator_as_long() == 0
    return a == b


class P12(Probe):
    """a probe whose circumstances also follow edits of a stand-alone symbol spelled like one of its prefixed factors"""

    def atoms(self):
        return {s for _, s, _ in self.text} | {p + s for p, s, _ in self.text if p}


class Model12(Model):
    """reference model with the documented lookup order: the whole string as a symbol first, then SI prefix + prefixable symbol"""

    def atom(self, prefix, sym):
        if prefix and (prefix + sym) in self.t:
            row = self.t[prefix + sym]
            return row[0], row[1]
        return Model.atom(self, prefix, sym)

    def flag(self, prefix, sym):
        """the 'prefixable' entry of the row the registry reports for prefix+sym (derived rows are not prefixable)"""
        if prefix and (prefix + sym) in self.t:
            return self.t[prefix + sym][3]
        return False if prefix else self.t[sym][3]

    def copy(self):
        return Model12(self.t, self.tags)


PROBES = [P12(p.kind, p.string, p.net, p.text) for p in probes()]
NEW_PROBES = [P12("new_atom", NEW, [("", NEW, 1)]), P12("new_prefixed", "k" + NEW, [("k", NEW, 1)]),
              P12("new_compound", f"{NEW}*{BAR}", [("", NEW, 1), ("", BAR, 1)])]
PK = {p.kind: p for p in PROBES + NEW_PROBES}
ARITH = P12("arith", FOO, [("", FOO, 1), ("", BAR, 1)])
KRATIO = P12("k-per-atom", FOO, [], text=[("k", FOO, 1), ("", FOO, -1)])
KMUL = P12("k-times-bar", f"k{FOO}*{BAR}", [("k", FOO, 1), ("", BAR, 1)])
KDIV = P12("k-per-bar", f"k{FOO}/{BAR}", [("k", FOO, 1), ("", BAR, -1)])
PK["prefixed_M"] = P12("prefixed_M", "M" + FOO, [("M", FOO, 1)])  # asked about, not part of the probe rounds
ASK_TARGET = {"ask_item": [("item", "k", FOO, "prefixed_k"), ("item", "", FOO, "atom"), ("item", "m", FOO, "prefixed_m")],
              "ask_in": [("in", "k", FOO, "prefixed_k"), ("in", "M", FOO, "prefixed_M"), ("in", "", FOO, "atom")],
              "ask_new": [("in", "k", NEW, "new_prefixed"), ("item", "", NEW, "new_atom"), ("item", "k", NEW, "new_prefixed")]}
MK = {"mk_atom": "atom", "mk_pref": "prefixed_k", "mk_comp": "compound", "mk_new": "new_atom", "mk_knew": "new_prefixed",
      "mk_cnew": "new_compound"}
ATOMIC_STRINGS = (FOO, "k" + FOO, "m" + FOO)
BY_STRING = {p.string: p for p in PROBES + NEW_PROBES + [KMUL, KDIV]}
# strings of which old_mix makes a quantity at every call (an operand for later calls); quantities made by other operations
# (arr_create: kxfoo**2/xbar, ask_prod: kxfoo*xbar, kxfoo/xbar) are mixed as well
MIX_KINDS, MIX_KINDS_NEW = ("atom", "prefixed_k", "compound"), ("new_atom", "new_prefixed")
MIX_CAP = 6  # operands made earlier that one old_mix call mixes (oldest first)
# the cancelling battery: (label, left string, right string, operation). Factors as spelled: [(name, exponent)], evaluated by
# World.names_term (model rows, prefix + prefixable model row, independent table of the few default symbols)
SPELLED = {f"{FOO}*{BAR}": [(FOO, 1), (BAR, 1)], "m": [("m", 1)], "s": [("s", 1)], "1/m": [("m", -1)], "k" + FOO: [("k" + FOO, 1)],
           FOO: [(FOO, 1)], f"{BAR}/{FOO}": [(BAR, 1), (FOO, -1)], f"k{FOO}*{BAR}/s": [("k" + FOO, 1), (BAR, 1), ("s", -1)]}
BATTERY = [("div-m", f"{FOO}*{BAR}", "m", "div"), ("div-s", f"{FOO}*{BAR}", "s", "div"), ("mul-per-m", f"{FOO}*{BAR}", "1/m", "mul"),
           ("rdiv-m", "m", f"{FOO}*{BAR}", "div"), ("k-ratio", "k" + FOO, FOO, "div"), ("mul-inv", "k" + FOO, f"{BAR}/{FOO}", "mul"),
           ("idiv-m", f"{FOO}*{BAR}", "m", "idiv"), ("out-div-s", f"{FOO}*{BAR}", "s", "outdiv")]
CANCEL_EDIT = {"c_foo_f": (FOO, "B", "float", None), "c_bar_f": (BAR, "A", "float", None),
               "c_foo_addL": (FOO, "B", "add", "length"), "c_foo_addT": (FOO, "B", "add", "time"),
               "c_bar_addT": (BAR, "A", "add", "time"), "c_bar_addL": (BAR, "A", "add", "length"),
               "c_foo_qT": (FOO, "B", "quantity", "time"), "c_bar_qL": (BAR, "A", "quantity", "length"),
               "c_foo_dimT": (FOO, "A", "add", "time"), "c_bar_dimL": (BAR, "B", "add", "length"),
               "c_foo_qdimT": (FOO, "A", "quantity", "time"), "c_bar_qdimL": (BAR, "B", "quantity", "length")}
UNIT_BATTERY = [("unit-div-m", f"{FOO}*{BAR}", "m"), ("unit-div-s", f"{FOO}*{BAR}", "s"), ("unit-k-ratio", "k" + FOO, FOO)]


class World:
    """one live registry + its reference model + the descriptive log"""

    def __init__(self, ctx, probe_set=None, scales=None, reg=None, tag="", init=(FOO, BAR), implicit=False, hist=None):
        """reg / tag / init / implicit / hist: family 'multi' runs several worlds (registry objects) in one history: `reg` an
        existing registry object (the process default registry, a registry nobody has edited), `tag` names it in symbols and
        obligation labels, `init` the harness symbols added at the start, `implicit` = the registry is addressed by leaving
        registry= out (the default registry), `hist` the history shared by all worlds"""
        self.ctx = ctx
        self.tag, self.pre = tag, (tag + ":" if tag else "")
        self.probes = PROBES if probe_set is None else probe_set
        self.unyt = ctx.mods["unyt"]
        self.D = self.unyt.dimensions
        self.reg = ctx.registry([]) if reg is None else reg
        self.frozen = type(self.reg).__name__ == "_NonModifiableUnitRegistry"  # the default registry: modify / remove are refused
        self.rarg = None if implicit else self.reg  # what is passed as registry= when a unit / quantity is made from a string
        self.scales = scales  # None: symbolic scales; (A, B): the numerals of the 'cancel' family
        self.mix_kinds = MIX_KINDS + (MIX_KINDS_NEW if any(p.kind == "new_atom" for p in self.probes) else ())
        self.model = Model12()
        # the real public add(): exercised with symbolic scales through the A2 float shim
        if FOO in init:
            s0 = ctx.real("s0" + tag, pos=True) if scales is None else scales[0]
            self.reg.add(FOO, s0, self.D.length, prefixable=True)
            self.model.add(FOO, s0, self.D.length, 0.0, True, tag="s0")
        if BAR in init:
            b0 = ctx.real("b0" + tag, pos=True) if scales is None else scales[1]
            self.reg.add(BAR, b0, self.D.time)
            self.model.add(BAR, b0, self.D.time, 0.0, False, tag="b0")
        self.log = Log([FOO, BAR, KFOO, NEW])
        self.old = []
        self.oldq = []  # quantities made earlier: (quantity, payload term, unit scale term, dims, string)
        self.hist = [] if hist is None else hist
        self.last_edit = "init"  # the last operation that changed the contents (names the circumstances of a stale memo)
        self.mc = mc_stats(ctx)
        self.snaps = [self.user_rows()]  # the non-default rows of the table after every step (index = number of steps taken)
        self.seen_state()

    def refusal(self, present):
        """the documented outcome of modify / remove: the default registry refuses both (TypeError, nothing changes), any other
        registry knows table rows only"""
        if self.frozen:
            return "TypeError"
        return None if present else "SymbolNotFoundError"

    def _req(self, label, cond, info):
        return req(self.ctx, self.pre + label, cond, info)

    def seen_state(self):
        if self.mc is not None:
            self.mc["states"].add(state_id(self.model.key()))

    def info(self, **kw):
        return dict(history=">".join(self.hist) or "(empty)", **kw)

    # ---------------------------------------------------------------- observations
    def construct(self, probe, maker=None):
        """resolve one probe string against the live registry and compare with the model"""
        ctx = self.ctx
        label = self.log.label(probe)
        exp = self.model.eval(probe.net)
        mk = maker or (lambda: self.unyt.Unit(probe.string, registry=self.rarg))
        res = call(mk)
        self.log.request(probe.string, probe.text)
        if self.mc is not None:
            self.mc["impl_calls"] += 1
        self._req(label, resolution_ok(res, exp), lambda: self.info(probe=probe.string, got=describe(res),
                                                                  expected="unknown symbol" if exp is None else f"{exp[0]!r} {exp[1]}"))
        ctx.observe(label, obs_value(res))
        if res[0] == "ok":
            self.remember(res[1], probe.string)
        return res, exp, label

    def remember(self, obj, string):
        u = getattr(obj, "units", obj)
        self.old.append((u, u.base_value, u.dimensions, string))
        if u is not obj:
            self.oldq.append((obj, payload(obj)[0], u.base_value, u.dimensions, string))

    def probe_round(self, cold=True):
        got = {}
        for p in self.probes:
            got[p.kind] = self.construct(p)[0]
        # what a user sees of a prefix: 1 kxfoo is 1000 xfoo whatever the current scale of xfoo (a quotient of two symbolic
        # scales: decided by the solver, not by term rewriting). Through the real Unit.get_conversion_factor.
        a, k = got["atom"], got["prefixed_k"]
        if a[0] == "ok" and k[0] == "ok" and self.model.atom("k", FOO) is not None and KFOO not in self.model.t:
            r = call(k[1].get_conversion_factor, a[1])
            self._req(self.log.label(KRATIO), r[0] == "ok" and close(r[1][0], 1000.0),
                lambda: self.info(what="Unit('kxfoo').get_conversion_factor(Unit('xfoo'))", got=str(r[1]), expected="1000"))
        self.table_round()
        if cold:
            self.cold_differential()

    def user_rows(self):
        from unyt._unit_lookup_table import default_unit_symbol_lut
        return {k: self.reg.lut[k] for k in self.reg.keys() if k not in default_unit_symbol_lut}

    def row_ok(self, key, row):
        """a row the registry lists under `key` is implied by the model: a symbol of the model with its current scale and
        dimensions, or (tolerated: a memo) SI prefix + prefixable symbol of the model with prefix * CURRENT scale"""
        m = self.model
        if key in m.t:
            return And(close(row[0], m.t[key][0]), dims_equal(row[1], m.t[key][1]), bool(row[4]) == bool(m.t[key][3]))
        for p in PREFIX:
            if p and key.startswith(p) and key[len(p):] in m.t and m.t[key[len(p):]][3]:
                base = m.t[key[len(p):]]
                return And(close(row[0], base[0] * PREFIX[p]), dims_equal(row[1], base[1]))
        return False

    def table_round(self):
        """what the registry lists (keys(): the public view of its contents) is what the model holds: no symbol missing, no
        row that the current contents do not imply (a derived row left behind by an earlier request is stale after an edit)"""
        rows = self.user_rows()
        ok = all(k in rows for k in self.model.t)
        for k, row in sorted(rows.items()):
            ok = And(ok, self.row_ok(k, row))
        self._req("table/rows-implied-by-contents", ok,
            lambda: self.info(listed={k: (repr(v[0]), str(v[1])) for k, v in rows.items()}, model=sorted(self.model.t)))

    def cold_differential(self):
        """the property's own wording: 'exactly as if it had been built against a fresh registry with those contents'"""
        ctx = self.ctx
        fresh = ctx.registry([])
        for sym, (scale, dims, off, pref) in self.model.t.items():
            fresh.add(sym, scale, dims, prefixable=pref)
        for p in self.probes:
            ref = call(self.unyt.Unit, p.string, registry=fresh)
            exp = self.model.eval(p.net)
            # the reference model must be what the real code answers on a cold registry holding the same rows: this
            # validates the specification against the implementation (and the live registry is compared with the model)
            self._req(f"model==cold-registry/{p.kind}", resolution_ok(ref, exp),
                lambda: self.info(probe=p.string, cold=describe(ref), model="unknown symbol" if exp is None else f"{exp[0]!r} {exp[1]}"))

    def check_old(self):
        ok = True
        for u, bv, dims, s in self.old:
            ok = And(ok, exact_eq(u.base_value, bv), dims_equal(u.dimensions, dims))
        self._req(f"old-units-keep-value/after-{self.hist[-1]}", ok, self.info)

    # ---------------------------------------------------------------- transitions
    def outcome(self, op, res, expect_exc):
        got = type(res[1]).__name__ if res[0] == "raise" else None
        self._req(f"op:{op}/outcome", got == expect_exc, lambda: self.info(expected=expect_exc, got=got))
        self.ctx.observe(f"op:{op}/outcome", str(got))

    def step(self, i, op):
        ctx, reg, model, D = self.ctx, self.reg, self.model, self.D
        self.hist.append(self.pre + op)
        if self.mc is not None:
            self.mc["transitions"] += 1
        present = FOO in model.t
        key0 = model.key()
        if op == "add_foo":
            v = ctx.real(f"v{i}", pos=True)
            res = call(reg.add, FOO, v, D.mass, prefixable=True)
            self.outcome(op, res, None)
            model.add(FOO, v, D.mass, 0.0, True, tag=f"v{i}")
            self.log.edit(FOO, "readd" if present else "add")
        elif op == "mod_foo_f":
            v = ctx.real(f"v{i}", pos=True)
            res = call(reg.modify, FOO, v)
            self.outcome(op, res, self.refusal(present))
            if present and not self.frozen:
                model.modify(FOO, v, tag=f"v{i}")
                self.log.edit(FOO, "modify")
        elif op == "mod_foo_q":
            v = ctx.real(f"v{i}", pos=True)
            q = ctx.quantity(v, "km", reg)
            res = call(reg.modify, FOO, q)
            self.outcome(op, res, self.refusal(present))
            if present and not self.frozen:
                model.modify(FOO, v * 1000.0, D.length, tag=f"v{i}k")
                self.log.edit(FOO, "modify")
        elif op == "rm_foo":
            res = call(reg.remove, FOO)
            self.outcome(op, res, self.refusal(present))
            if present and not self.frozen:
                model.remove(FOO)
                self.log.edit(FOO, "remove")
        elif op == "def_foo":
            v = ctx.real(f"v{i}", pos=True)
            res = call(self.unyt.define_unit, FOO, (v, "km"), prefixable=True, registry=self.rarg)
            self.outcome(op, res, "RuntimeError" if present else None)
            if not present:
                model.add(FOO, v * 1000.0, D.length, 0.0, True, tag=f"v{i}k")
                self.log.edit(FOO, "add")
        elif op == "mod_bar_f":
            v = ctx.real(f"v{i}", pos=True)
            res = call(reg.modify, BAR, v)
            self.outcome(op, res, self.refusal(True))
            if not self.frozen:
                model.modify(BAR, v, tag=f"v{i}")
                self.log.edit(BAR, "modify")
        elif op in MK:
            self.construct(PK[MK[op]])
        elif op == "arr_create":
            x = ctx.real(f"x{i}")
            p = PK["compound_prefixed"]
            res, exp, label = self.construct(p, lambda: ctx.quantity(x, p.string, self.rarg))
            if res[0] == "ok":
                self._req("op:arr_create/payload", exact_eq(payload(res[1])[0], x), self.info)
        elif op == "convert":
            x = ctx.real(f"x{i}")
            p = PK["prefixed_k"]
            exp = model.eval(p.net)
            circ = self.log.circumstances(p)
            if exp is None:
                res = call(lambda: ctx.quantity(x, p.string, self.rarg))
                ok = res[0] == "raise" and type(res[1]).__name__ == "UnitParseError"
            else:
                target = {id(D.length): "m", id(D.mass): "kg", id(D.time): "s"}[id(exp[1])]
                res = call(lambda: ctx.quantity(x, p.string, self.rarg).to(target))
                ok = res[0] == "ok" and And(close(payload(res[1])[0], x * exp[0]), str(res[1].units) == target)
                if res[0] == "ok":
                    ctx.observe("op:convert", payload(res[1])[0])
            self.log.request(p.string, p.text)
            self._req(f"op:convert/{circ}", ok, lambda: self.info(expected="unknown symbol" if exp is None else f"x*{exp[0]!r}",
                                                                 got=type(res[1]).__name__ if res[0] == "raise" else str(res[1])))
        elif op == "arith":
            x, y = ctx.real(f"x{i}"), ctx.real(f"y{i}")
            exp = model.eval(ARITH.net)
            # circumstances of the string 'xfoo' (xbar is never re-added, and modify drops the exact key): the cause of a stale
            # operand is named by the last edit of xfoo, not by a later edit of xbar
            circ = self.log.circumstances(PK["atom"])
            res = call(lambda: ctx.quantity(x, FOO, self.rarg) * ctx.quantity(y, BAR, self.rarg))
            self.log.request(FOO, PK["atom"].text)
            self.log.request(BAR, PK["atom2"].text)
            if exp is None:
                ok = res[0] == "raise" and type(res[1]).__name__ == "UnitParseError"
            else:
                ok = res[0] == "ok" and And(close(payload(res[1])[0] * res[1].units.base_value, x * y * exp[0]),
                                            dims_equal(res[1].units.dimensions, exp[1]), self.label_ok(res[1].units))
                if res[0] == "ok":
                    ctx.observe("op:arith", payload(res[1])[0])
            self._req(f"op:arith/{circ}", ok, lambda: self.info(expected="unknown symbol" if exp is None else f"SI x*y*{exp[0]!r}",
                                                               got=type(res[1]).__name__ if res[0] == "raise" else str(res[1])))
        elif op in ("add_kfoo", "add_new"):
            sym, dims, pref = (KFOO, D.time, False) if op == "add_kfoo" else (NEW, D.mass, True)
            was = sym in model.t
            v = ctx.real(f"v{i}", pos=True)
            res = call(reg.add, sym, v, dims, prefixable=pref)
            self.outcome(op, res, None)
            model.add(sym, v, dims, 0.0, pref, tag=f"v{i}")
            self.log.edit(sym, "readd" if was else "add")
        elif op in ("mod_kfoo_f", "mod_new_f"):
            # modify() knows table rows only: a spelling that merely PARSES as prefix + symbol is not a row
            sym = KFOO if op == "mod_kfoo_f" else NEW
            was = sym in model.t
            v = ctx.real(f"v{i}", pos=True)
            res = call(reg.modify, sym, v)
            self.outcome(op, res, None if was else "SymbolNotFoundError")
            if was:
                model.modify(sym, v, tag=f"v{i}")
                self.log.edit(sym, "modify")
        elif op in ("rm_kfoo", "rm_new"):
            sym = KFOO if op == "rm_kfoo" else NEW
            was = sym in model.t
            res = call(reg.remove, sym)
            self.outcome(op, res, None if was else "SymbolNotFoundError")
            if was:
                model.remove(sym)
                self.log.edit(sym, "remove")
        elif op in ("def_kfoo", "def_new"):
            # define_unit refuses every spelling that already resolves (as a symbol or as prefix + prefixable symbol)
            sym, unit, dims, k, pref = (KFOO, "s", D.time, 1.0, False) if op == "def_kfoo" else (NEW, "g", D.mass, 1.0e-3, True)
            known = model.atom("k", FOO) is not None if sym == KFOO else sym in model.t
            v = ctx.real(f"v{i}", pos=True)
            res = call(self.unyt.define_unit, sym, (v, unit), prefixable=pref, registry=reg)
            self.outcome(op, res, "RuntimeError" if known else None)
            if not known:
                model.add(sym, v * k, dims, 0.0, pref, tag=f"v{i}{unit}")
                self.log.edit(sym, "add")
        elif op in ASK_TARGET:
            for target in ASK_TARGET[op]:
                self.ask(*target)
        elif op == "ask_prod":
            self.ask_product(i, "mul")
            k = model.atom("k", FOO)
            if k is None or k[1] is not D.time:  # kxfoo/xbar with a stand-alone kxfoo (a time) cancels: concrete scales only
                self.ask_product(i, "div")
        elif op == "ask_latex":
            self.ask_latex()
        elif op == "ask_lists":
            self.ask_lists()
        elif op == "ask_sysid":
            self.ask_sysid()
        elif op == "old_copy":
            self.old_copies()
        elif op == "old_arith":
            self.old_arith(i)
        elif op == "old_mix":
            self.old_mix(i)
        elif op in CANCEL_EDIT:
            self.cancel_edit(op)
        else:
            raise KeyError(op)
        if self.mc is not None:
            self.mc["impl_calls"] += 1
        if self.model.key() != key0:
            self.last_edit = op
        self.snaps.append(self.user_rows())
        self.seen_state()

    # ---------------------------------------------------------------- the registry asked by other means than Unit(string)
    def ask(self, kind, prefix, sym, probe_kind):
        """reg[string] / string in reg: answered from the current contents (and, being reads, they must leave nothing behind
        that outlives a later edit: that is seen by every later observation and by table_round)"""
        probe, string = PK[probe_kind], prefix + sym
        exp = self.model.atom(prefix, sym)
        circ = self.log.circumstances(probe)
        if kind == "item":
            res = call(lambda: self.reg[string])
            if exp is None:
                ok = res[0] == "raise" and type(res[1]).__name__ == "SymbolNotFoundError"
            else:
                ok = res[0] == "ok" and And(close(res[1][0], exp[0]), dims_equal(res[1][1], exp[1]),
                                            bool(res[1][4]) == bool(self.model.flag(prefix, sym)))
            if res[0] == "ok":
                self.ctx.observe(f"ask:item:{string}", res[1][0])
        else:
            res = call(lambda: string in self.reg)
            ok = res[0] == "ok" and res[1] is (exp is not None)
            self.ctx.observe(f"ask:in:{string}", str(res[1]))
        self.log.request(string, probe.text)
        self._req(f"ask:{kind}:{probe.kind}/{circ}", ok,
            lambda: self.info(asked=f"reg[{string!r}]" if kind == "item" else f"{string!r} in reg",
                              got=type(res[1]).__name__ if res[0] == "raise" else str(res[1]),
                              expected="unknown symbol" if exp is None else f"{exp[0]!r} {exp[1]}"))

    def ask_product(self, i, op):
        """x kxfoo * y xbar and x kxfoo / y xbar: the unit rules go through Unit.simplify, which asks the registry object
        for every factor (no factor pair cancels: xfoo is a length or a mass, xbar a time)"""
        ctx = self.ctx
        probe = KMUL if op == "mul" else KDIV
        x, y = ctx.real(f"x{i}{op[0]}"), ctx.real(f"y{i}{op[0]}", nonzero=True)
        exp = self.model.eval(probe.net)
        circ = self.log.circumstances(PK["prefixed_k"])
        if op == "mul":
            res = call(lambda: ctx.quantity(x, "k" + FOO, self.reg) * ctx.quantity(y, BAR, self.reg))
            val = x * y
        else:
            res = call(lambda: ctx.quantity(x, "k" + FOO, self.reg) / ctx.quantity(y, BAR, self.reg))
            val = x / y
        self.log.request("k" + FOO, PK["prefixed_k"].text)
        self.log.request(BAR, PK["atom2"].text)
        if exp is None:
            ok = res[0] == "raise" and type(res[1]).__name__ == "UnitParseError"
        else:
            ok = res[0] == "ok" and And(close(payload(res[1])[0] * res[1].units.base_value, val * exp[0]),
                                        dims_equal(res[1].units.dimensions, exp[1]), self.label_ok(res[1].units))
            if res[0] == "ok":
                ctx.observe(f"ask:{op}", payload(res[1])[0])
                self.remember(res[1], probe.string)
        self._req(f"ask:{op}/{circ}", ok, lambda: self.info(expected="unknown symbol" if exp is None else f"SI value*{exp[0]!r}",
                                                          got=type(res[1]).__name__ if res[0] == "raise" else str(res[1])))

    def ask_latex(self):
        """LaTeX of a compound with a prefixed factor is assembled from registry[...] rows at first use"""
        exp = self.model.eval(KMUL.net)
        circ = self.log.circumstances(KMUL)
        res = call(lambda: self.unyt.Unit(KMUL.string, registry=self.reg).latex_repr)
        self.log.request(KMUL.string, KMUL.text)
        if exp is None:
            ok = res[0] == "raise" and type(res[1]).__name__ == "UnitParseError"
        else:
            ok = res[0] == "ok" and r"\rm{k%s}" % FOO in res[1] and r"\rm{%s}" % BAR in res[1]
        self._req(f"ask:latex/{circ}", ok, lambda: self.info(got=type(res[1]).__name__ if res[0] == "raise" else res[1]))
        self.ctx.observe("ask:latex", str(res[1]) if res[0] == "ok" else type(res[1]).__name__)

    def ask_lists(self):
        """keys / prefixable_units / list_same_dimensions: the user part of each listing is what the model holds"""
        reg, m = self.reg, self.model
        rows = self.user_rows()
        pre = sorted(k for k in reg.prefixable_units if k in rows)
        ok = pre == sorted(k for k in m.t if m.t[k][3])
        for dims in (self.D.length, self.D.mass, self.D.time):
            base = {id(self.D.length): "m", id(self.D.mass): "kg", id(self.D.time): "s"}[id(dims)]
            same = call(lambda: reg.list_same_dimensions(self.unyt.Unit(base, registry=reg)))
            listed = sorted(k for k in same[1] if k in rows) if same[0] == "ok" else None
            ok = ok and listed == sorted(k for k in rows if dims_equal(rows[k][1], dims))
            ok = ok and all(k in listed for k in m.t if dims_equal(m.t[k][1], dims))
        self._req("ask:lists", ok, lambda: self.info(prefixable=pre, model=sorted(m.t)))
        self.table_round()

    def ask_sysid(self):
        """unit_system_id is memoised on the registry and enters Unit.__hash__: it must be the id of a fresh registry holding
        the same table (the memo is reset by every edit). The id is a digest (md5 of the printed table): when it differs from
        the fresh one it is looked up among the digests of the EARLIER tables of this history, and the solver is asked whether
        that earlier table can differ from the current one (a stale memo is harmless exactly when the edit stored equal values)"""
        UR = self.ctx.mods["UR"]

        def fresh_id(user):
            lut = {k: v for k, v in self.reg.lut.items() if k not in now}
            lut.update(user)
            return UR.UnitRegistry(lut=lut, add_default_symbols=False).unit_system_id

        now = self.user_rows()
        live = call(lambda: self.reg.unit_system_id)
        cold = call(fresh_id, now)
        ok = live[0] == "ok" and live == cold
        stale = None
        if not ok and live[0] == "ok":
            for k in range(len(self.snaps) - 1, -1, -1):
                if call(fresh_id, self.snaps[k]) == live:
                    stale = k
                    ok = self.same_rows(self.snaps[k], now)
                    break
        self._req(f"ask:sysid/after-{self.last_edit}", ok,
            lambda: self.info(live=str(live[1]), fresh=str(cold[1]),
                              stale="the id of no table of this history" if stale is None else f"the id of the table after step {stale}"))

    @staticmethod
    def same_rows(a, b):
        if sorted(a) != sorted(b):
            return False
        ok = True
        for k in a:
            ok = And(ok, exact_eq(a[k][0], b[k][0]), dims_equal(a[k][1], b[k][1]), exact_eq(a[k][2], b[k][2]), a[k][3:] == b[k][3:])
        return ok

    # ---------------------------------------------------------------- units made earlier are used again
    def old_copies(self):
        """every copy route of every unit / quantity made earlier in this history: (a) the copy has the term the original
        had when it was made (whatever the registry says now); (b) a copy leaves nothing in the registry's memo layers: the
        strings are requested again right after the copies (and by all later observations) and follow the CURRENT contents;
        then the copies are repeated with the string memo warm (a copy must not be answered from it either)"""
        ctx = self.ctx
        units, quantities = list(self.old), list(self.oldq)
        n = 0
        for phase in ("cold", "warm"):
            ok = True
            for u, bv, dims, s in units:
                for r in (lambda: u.copy(), lambda: copy.copy(u), lambda: copy.deepcopy(u), lambda: u.copy(deep=True)):
                    res = call(r)
                    n += 1
                    ok = And(ok, res[0] == "ok" and And(exact_eq(res[1].base_value, bv), dims_equal(res[1].dimensions, dims),
                                                        str(res[1].expr) == str(u.expr)))
                    if res[0] == "ok":
                        self.old.append((res[1], bv, dims, s))
            for q, x, bv, dims, s in quantities:
                for r in (lambda: q.copy(), lambda: copy.copy(q), lambda: q.units.copy(), lambda: copy.deepcopy(q)):
                    res = call(r)
                    n += 1
                    good = res[0] == "ok"
                    if good:
                        c = res[1]
                        cu = getattr(c, "units", c)
                        good = And(exact_eq(cu.base_value, bv), dims_equal(cu.dimensions, dims))
                        if cu is not c:
                            good = And(good, exact_eq(payload(c)[0], x))
                        self.old.append((cu, bv, dims, s))
                    ok = And(ok, good)
            self._req(f"op:old_copy/copy-keeps-old-term/{phase}", ok, lambda: self.info(copies=n))
            if phase == "cold":
                for s in sorted({s for _, _, _, s in units}):
                    self.construct(BY_STRING[s])
        ctx.observe("op:old_copy/n", n)

    # ---------------------------------------------------------------- what a unit's own label says under the current contents
    def name_term(self, name):
        """(scale, dims) of one spelled atom: a model row, else one of the few default symbols of the independent table, else
        SI prefix + prefixable model row; None = unknown"""
        m = self.model
        if name in m.t:
            return m.t[name][0], m.t[name][1]
        if name in TABLE:
            return TABLE[name][0], getattr(self.D, TABLE[name][1])
        for p in sorted(PREFIX, key=len, reverse=True):
            if p and name.startswith(p) and name[len(p):] in m.t:
                return m.atom(p, name[len(p):])
        return None

    def names_term(self, factors):
        scale, dims = 1.0, 1
        for name, e in factors:
            a = self.name_term(name)
            if a is None:
                return None
            scale = scale * a[0] ** e
            dims = dims * a[1] ** e
        return scale, dims

    def label_ok(self, u):
        """the unit attached to a result computed from operands made NOW is what its own label says under the registry's
        current contents (a result labelled xbar whose scale is a former scale of xbar is a stale answer even when the SI
        magnitude of the result happens to be right)"""
        coeff, rest = u.expr.as_coeff_Mul()
        factors = []
        if rest != 1:
            for b, e in rest.as_powers_dict().items():
                if not getattr(e, "is_Integer", False):
                    return False
                factors.append((str(b), int(e)))
        t = self.names_term(sorted(factors))
        if t is None:
            return False
        return And(close(u.base_value, float(coeff) * t[0]), dims_equal(u.dimensions, t[1]))

    # ---------------------------------------------------------------- epoch-mixed operands
    def old_mix(self, i):
        """every quantity made earlier in this history (at most MIX_CAP) meets a quantity made NOW from the same string against
        the same registry: same expression, same registry object, and - after an edit - another scale or another dimension.
        The old operand carries the term it had, the new one the current term; the battery walks one call per unit rule of the
        binary route (+ both ways round, -, ==, <, *, /) and the conversion routes (.to(string), Unit.get_conversion_factor,
        Unit ==). Oracle: SI magnitudes from the recorded old term and the model's current term."""
        ctx, reg, m = self.ctx, self.reg, self.model
        olds = list(self.oldq)[:MIX_CAP]
        strings = [PK[k].string for k in self.mix_kinds]
        strings += [s for _, _, _, _, s in olds if s not in strings]
        new = {}
        for j, s in enumerate(strings):
            y = ctx.real(f"my{i}_{j}", nonzero=True)
            res, exp, _ = self.construct(BY_STRING[s], lambda: ctx.quantity(y, s, reg))
            if res[0] == "ok" and exp is not None:
                new[s] = (res[1], y, exp[0], exp[1])
        verdict, n = {}, 0
        pairs = [o for o in olds if o[4] in new]
        # the pair that gets the whole battery (comparisons and the quotient fork on the payloads / on the ratio of the scales):
        # the oldest one between whose making and now the model's term or dimension changed; the others get the calls that
        # fork only on 'same unit?' (+, -, conversions, Unit ==)
        lead = next((o for o in pairs if not (same_term(o[2], new[o[4]][2]) and dims_equal(o[3], new[o[4]][3]))), pairs[0] if pairs else None)
        for o in pairs:
            q, x, bv, d0, s = o
            n += 1
            for name, ok in self.mix_pair(q, x, bv, d0, s, *new[s], full=o is lead):
                verdict[name] = And(verdict.get(name, True), ok)
        for name in sorted(verdict):
            self._req(f"mix:{name}/after-{self.last_edit}", verdict[name], lambda: self.info(pairs=n, what=MIX_WHAT[name.split("/")[0]]))
        ctx.observe("op:old_mix/n", n)

    def mix_pair(self, q, x, bv, d0, s, nq, y, cur, d1, full=True):
        same = dims_equal(d0, d1)
        kind = "same-dims" if same else "other-dims"
        X, Y = x * bv, y * cur

        def si(r):
            return payload(r)[0] * r.units.base_value

        def raised(res, *names):
            return res[0] == "raise" and type(res[1]).__name__ in names

        def truth(res):
            g = elements(res[1])[0]
            return bool(g) if isinstance(g, (bool, np.bool_)) else g

        out = []
        for name, f, expected, dims in (("add", lambda: q + nq, X + Y, d0), ("radd", lambda: nq + q, X + Y, d1),
                                        ("sub", lambda: nq - q, Y - X, d1)):
            res = call(f)
            if same:
                ok = res[0] == "ok" and And(close3(si(res[1]), expected, band(X, Y)), dims_equal(res[1].units.dimensions, dims))
            else:
                ok = raised(res, "UnitOperationError")
            out.append((f"{name}/{kind}", ok))
        if full:
            # old * new of a string with a numerator and a denominator factor of one dimension (kxfoo/xbar while a stand-alone
            # kxfoo is a time): Unit.simplify would cancel them with symbolic scales inside a sympy expression (engine limit,
            # OUTSIDE; the numeral-scale family 'cancel' walks cancellation)
            text = [(p + a, e) for p, a, e in BY_STRING[s].text]
            cancels = any(e1 * e2 < 0 and self.name_term(n1) is not None and self.name_term(n2) is not None
                          and dims_equal(self.name_term(n1)[1], self.name_term(n2)[1]) for n1, e1 in text for n2, e2 in text)
            out += self.mix_pair_forking(q, x, bv, d0, nq, y, cur, d1, same, kind, X, Y, si, raised, truth, cancels)
        return out + self.mix_pair_conversions(q, bv, s, nq, cur, same, kind, X, raised)

    def mix_pair_forking(self, q, x, bv, d0, nq, y, cur, d1, same, kind, X, Y, si, raised, truth, cancels):
        out = []
        res = call(lambda: q == nq)
        if same:
            ok = res[0] == "ok" and Or(Iff(truth(res), exact_eq(X, Y)), band_close(X, Y))
        else:
            ok = res[0] == "ok" and truth(res) is False
        out.append((f"eq/{kind}", ok))
        res = call(lambda: q < nq)
        if same:
            ok = res[0] == "ok" and Or(Iff(truth(res), X < Y), band_close(X, Y))
        else:
            ok = raised(res, "UnitOperationError")
        out.append((f"lt/{kind}", ok))
        if not cancels:
            res = call(lambda: q * nq)
            out.append((f"mul/{kind}", res[0] == "ok" and And(close(si(res[1]), X * Y), dims_equal(res[1].units.dimensions, d0 * d1))))
        res = call(lambda: q / nq)
        out.append((f"div/{kind}", res[0] == "ok" and And(close(si(res[1]), X / Y), dims_equal(res[1].units.dimensions, d0 / d1))))
        return out

    def mix_pair_conversions(self, q, bv, s, nq, cur, same, kind, X, raised):
        """conversion routes: the old quantity expressed in the unit its own string names NOW"""
        out = []
        res = call(lambda: q.to(s))
        if same:
            ok = res[0] == "ok" and And(close(payload(res[1])[0] * cur, X), close(res[1].units.base_value, cur))
        else:
            ok = raised(res, "UnitConversionError")
        out.append((f"to/{kind}", ok))

        def in_place():
            c = q.copy()
            c.convert_to_units(s)
            return c
        res = call(in_place)
        if same:
            ok = res[0] == "ok" and And(close(payload(res[1])[0] * cur, X), close(res[1].units.base_value, cur))
        else:
            ok = raised(res, "UnitConversionError")
        out.append((f"convert/{kind}", ok))
        res = call(lambda: q.to_value(s))
        if same:
            ok = res[0] == "ok" and close(elements(res[1])[0] * cur, X)
        else:
            ok = raised(res, "UnitConversionError")
        out.append((f"to_value/{kind}", ok))
        res = call(lambda: q.units.get_conversion_factor(nq.units))
        if same:
            ok = res[0] == "ok" and And(close(res[1][0] * cur, bv), res[1][1] is None)
        else:
            ok = raised(res, "UnitConversionError")
        out.append((f"factor/{kind}", ok))
        res = call(lambda: q.units == nq.units)
        if same:  # Unit.__eq__ is 'equal up to 1e-9': true only inside the 1e-6 band, true whenever the terms are equal
            ok = res[0] == "ok" and And(Implies(bool(res[1]), band_close(bv, cur)), Implies(exact_eq(bv, cur), bool(res[1])))
        else:
            ok = res[0] == "ok" and not bool(res[1])
        out.append((f"unit-eq/{kind}", ok))
        return out

    # ---------------------------------------------------------------- cancelling calls repeated across edits (numeral scales)
    def cancel_edit(self, op):
        ctx, reg, model, D = self.ctx, self.reg, self.model, self.D
        sym, which, route, dn = CANCEL_EDIT[op]
        v = self.scales[0] if which == "A" else self.scales[1]
        present, pref = sym in model.t, sym == FOO
        if route == "float":
            res = call(reg.modify, sym, v)
            self.outcome(op, res, None if present else "SymbolNotFoundError")
            if present:
                model.modify(sym, v, tag=repr(v))
                self.log.edit(sym, "modify")
        elif route == "add":
            dims = getattr(D, dn)
            res = call(reg.add, sym, v, dims, prefixable=pref)
            self.outcome(op, res, None)
            model.add(sym, v, dims, 0.0, pref, tag=repr(v) + dn)
            self.log.edit(sym, "readd" if present else "add")
        else:
            dims = getattr(D, dn)
            res = call(lambda: reg.modify(sym, ctx.quantity(v, BASE_OF_DIM[dn], reg)))
            self.outcome(op, res, None if present else "SymbolNotFoundError")
            if present:
                model.modify(sym, v, dims, tag=repr(v) + dn)
                self.log.edit(sym, "modify")

    def fresh_operand(self, name, string, nonzero=False):
        v = self.ctx.real(name, nonzero=nonzero)
        return v, self.names_term(SPELLED[string]), call(lambda: self.ctx.quantity(v, string, self.reg))

    def cancel_round(self, k):
        """the battery of cancelling calls, every operand made NOW from its string: SI magnitude and dimensions of the result
        from the model's current rows, and the unit attached to the result is what its label says now (label_ok). Run at the
        start and after every step, so every call is repeated across every edit of the history with all memo layers warm."""
        ctx, reg, Unit = self.ctx, self.reg, self.unyt.Unit
        tag = f"after-{self.last_edit}"

        def unknown(*rs):
            return any(r[0] == "raise" and type(r[1]).__name__ == "UnitParseError" for r in rs)

        for label, ls, rs, op in BATTERY:
            x, tx, ql = self.fresh_operand(f"cx{k}{label}", ls)
            y, ty, qr = self.fresh_operand(f"cy{k}{label}", rs, nonzero=True)
            res = None
            if tx is None or ty is None:
                ok = unknown(ql, qr)
            elif ql[0] != "ok" or qr[0] != "ok":
                ok = False
            else:
                a, b = ql[1], qr[1]
                if op == "div":
                    res, val, exp = call(lambda: a / b), x / y, (tx[0] / ty[0], tx[1] / ty[1])
                elif op == "mul":
                    res, val, exp = call(lambda: a * b), x * y, (tx[0] * ty[0], tx[1] * ty[1])
                elif op == "idiv":
                    def idiv():
                        c = a.copy()
                        c /= b
                        return c
                    res, val, exp = call(idiv), x / y, (tx[0] / ty[0], tx[1] / ty[1])
                else:
                    o = a.copy()
                    res, val, exp = call(lambda: np.divide(a, b, out=o)), x / y, (tx[0] / ty[0], tx[1] / ty[1])
                    if res[0] == "ok":
                        res = ("ok", o)
                ok = res[0] == "ok" and And(close(payload(res[1])[0] * res[1].units.base_value, val * exp[0]),
                                            dims_equal(res[1].units.dimensions, exp[1]), self.label_ok(res[1].units))
                if res[0] == "ok":
                    ctx.observe(f"cancel:{label}/{k}", payload(res[1])[0])
            self._req(f"cancel:{label}/{tag}", ok,
                lambda: self.info(call=f"({ls}) {op} ({rs})", got="-" if res is None else (type(res[1]).__name__ if res[0] == "raise" else f"{res[1]!r} with unit scale {res[1].units.base_value!r}"),
                                  model={n: repr(v[0]) for n, v in self.model.t.items()}))
        for label, ls, rs in UNIT_BATTERY:
            tl, tr = self.names_term(SPELLED[ls]), self.names_term(SPELLED[rs])
            res = call(lambda: (Unit(ls, registry=reg) / Unit(rs, registry=reg)).simplify())
            if tl is None or tr is None:
                ok = unknown(res)
            else:
                ok = res[0] == "ok" and And(close(res[1].base_value, tl[0] / tr[0]), dims_equal(res[1].dimensions, tl[1] / tr[1]),
                                            self.label_ok(res[1]))
            self._req(f"cancel:{label}/{tag}", ok,
                lambda: self.info(call=f"(Unit({ls!r}) / Unit({rs!r})).simplify()", got=describe(res) + (" " + str(res[1]) if res[0] == "ok" else "")))
        # base conversion of the compound (the cached E&M check and the base-equivalent route see the unit as a key)
        x, tx, q = self.fresh_operand(f"cx{k}base", f"{FOO}*{BAR}")
        if tx is None:
            ok = unknown(q)
        else:
            res = call(lambda: q[1].in_mks())
            ok = res[0] == "ok" and And(close(payload(res[1])[0] * res[1].units.base_value, x * tx[0]),
                                        dims_equal(res[1].units.dimensions, tx[1]), self.label_ok(res[1].units))
        self._req(f"cancel:in_mks/{tag}", ok, self.info)

    def old_arith(self, i):
        """arithmetic with units / quantities made earlier: their own term enters the result, not the registry's current one"""
        ctx, reg = self.ctx, self.reg
        ok, n = True, 0
        for u, bv, dims, s in list(self.old):
            if s not in ATOMIC_STRINGS:
                continue
            n += 1
            res = call(lambda: (u * self.unyt.Unit("hr", registry=reg), u ** 2))
            ok = And(ok, res[0] == "ok" and And(close(res[1][0].base_value, bv * 3600.0), close(res[1][1].base_value, bv * bv),
                                                dims_equal(res[1][0].dimensions, dims * self.D.time)))
        y = ctx.real(f"y{i}")
        for q, x, bv, dims, s in list(self.oldq):
            if s not in ATOMIC_STRINGS:
                continue
            n += 1
            res = call(lambda: q * ctx.quantity(y, "hr", reg))
            if res[0] == "ok":
                ok = And(ok, close(payload(res[1])[0] * res[1].units.base_value, x * y * bv * 3600.0),
                         dims_equal(res[1].units.dimensions, dims * self.D.time))
            else:
                # the unit rule re-reads every factor from the registry (Unit.simplify): a symbol that is gone is refused
                ok = And(ok, FOO not in self.model.t and type(res[1]).__name__ == "SymbolNotFoundError")
        self._req("op:old_arith/old-term-enters-result", ok, lambda: self.info(operands=n))
        ctx.observe("op:old_arith/n", n)


class Worlds:
    """several registry objects side by side, each with its own reference model; one shared history"""

    def __init__(self, ctx):
        self.ctx, self.hist = ctx, []
        UR = ctx.mods["UR"]
        self.UR = UR
        self.w = {"U": World(ctx, tag="U", hist=self.hist),
                  "D": World(ctx, reg=UR.default_unit_registry, tag="D", init=(BAR,), implicit=True, hist=self.hist),
                  # created before anything else happens to the default registry, and never edited unless an operation does it
                  "P": World(ctx, reg=UR.UnitRegistry(), tag="P", init=(), hist=self.hist)}
        self.lates = 0

    def make(self, form, tag):
        """a registry made NOW by one of the constructor forms; its contents are the default table (+ one row of its own)"""
        from unyt._unit_lookup_table import default_unit_symbol_lut
        ctx, UR = self.ctx, self.UR
        rows = ()
        if form == "plain":
            reg = UR.UnitRegistry()
        elif form == "unit_system":
            reg = UR.UnitRegistry(add_default_symbols=True, unit_system="cgs")
        elif form == "lut_only":
            reg = UR.UnitRegistry(add_default_symbols=False, lut=dict(default_unit_symbol_lut))
        else:
            q = ctx.real("q" + tag, pos=True)
            D = ctx.mods["unyt"].dimensions
            reg = UR.UnitRegistry(lut={"xqq": (q, D.length, 0.0, r"\rm{xqq}", False)})
            rows = (("xqq", q, D.length),)
        w = World(ctx, reg=reg, tag=tag, init=(), hist=self.hist)
        for name, q, dims in rows:
            w.model.add(name, q, dims, 0.0, False, tag="q")
        return w

    def step(self, i, op):
        if op == "late":
            self.lates += 1
            tag = f"L{self.lates}"
            self.hist.append("late")
            self.w[tag] = self.make("plain", tag)
            # asked at once (its string memo is cold; whatever the default registry holds by now must not show)
            for k in NOW_PROBES:
                self.w[tag].construct(PK[k])
            return
        tag, name = op.split(":")
        w = self.w[tag]
        if name == "touch":  # an edit that leaves the contents as they were: the registry has been edited, its table is the same
            w.step(i, "add_new")
            w.step(i, "rm_new")
        else:
            w.step(i, name)
        w.check_old()

    def final(self):
        for tag in sorted(self.w):
            self.w[tag].probe_round(cold=tag == "U")
        for form in NOW_FORMS:
            w = self.make(form, "N" + form)
            for k in NOW_PROBES:
                w.construct(PK[k])
            w.table_round()
            if form in ("plain", "lut_plus_defaults"):  # (an id costs a digest of the whole table: asked of three registries only)
                w.ask_sysid()
        self.w["P"].ask_sysid()  # the id of a registry object is the id of a fresh registry holding its table
        # and the worlds asked first are asked again after all the others have been (the order of asking is a history too)
        for tag in ("U", "P"):
            for k in NOW_PROBES:
                self.w[tag].construct(PK[k])


class Twins:
    """a registry and a copy of it, each with its own reference model; one shared history"""

    def __init__(self, ctx, route):
        self.ctx, self.hist, self.route = ctx, [], route
        # (a pickle / a JSON text cannot hold a solver term: on these two routes the contents at birth are numerals - 0.5 and 1.25
        # - and only operations without a solver symbol come before the birth; every edit after the birth is symbolic as elsewhere)
        self.w = {"A": World(ctx, tag="A", hist=self.hist, scales=CANCEL_CONFIGS["frac"] if route in SERIAL_ROUTES else None)}

    def clone(self, i):
        import pickle
        ctx, A, route = self.ctx, self.w["A"], self.route
        unyt, UR = A.unyt, ctx.mods["UR"]
        self.hist.append("clone:" + route)
        if route == "copy":
            res = call(copy.copy, A.reg)
        elif route == "deepcopy":
            res = call(copy.deepcopy, A.reg)
        elif route == "pickle":
            res = call(lambda: pickle.loads(pickle.dumps(A.reg)))
        elif route == "json":
            res = call(lambda: UR.UnitRegistry.from_json(A.reg.to_json()))
        else:
            # through an object bound to A (made from a string: the request is one on A, logged as such)
            s = FOO if FOO in A.model.t else "m"
            if route == "array_deepcopy":
                x = ctx.real(f"x{i}")
                res = call(lambda: copy.deepcopy(ctx.quantity(x, s, A.reg)).units.registry)
            else:
                res = call(lambda: unyt.Unit(s, registry=A.reg).copy(deep=True).registry)
            if s == FOO:
                A.log.request(FOO, PK["atom"].text)
        ok = res[0] == "ok" and res[1] is not A.reg
        A._req(f"clone:{route}/a-registry-of-its-own", ok, lambda: A.info(got=str(res[1])[:200]))
        if not ok:
            return False
        B = World(ctx, reg=res[1], tag="B", init=(), hist=self.hist)
        B.model = A.model.copy()
        B.snaps = [B.user_rows()]
        self.w["B"] = B
        # the contents at birth are A's (table view; no string is asked here: the memo layers of both twins stay as they are)
        B.table_round()
        return True

    def step(self, i, op):
        tag, name = op.split(":")
        w = self.w[tag]
        w.step(i, name)
        for t in sorted(self.w):
            self.w[t].check_old()

    def ask(self, tag):
        w = self.w[tag]
        for k in TWIN_PROBES:
            res = w.construct(PK[k])[0]
            if res[0] == "ok":
                w._req(f"twin/unit-names-the-registry-asked/{k}", res[1].registry is w.reg,
                       lambda: w.info(probe=PK[k].string, other=any(res[1].registry is o.reg for o in self.w.values() if o is not w)))
        w.table_round()

    def final(self, order):
        tags = sorted(self.w, reverse=order == "BA")
        for tag in tags:
            self.ask(tag)
        # and the twin asked first is asked again after the other one has been
        for k in NOW_PROBES:
            self.w[tags[0]].construct(PK[k])
        for tag in tags:
            self.w[tag].check_old()


def make_twin_case(route, order, pos, nmax, pre_alpha, post_alpha):
    """the twin is born after `pos` operations on A (all of pre_alpha ** pos), then every history over post_alpha up to a total
    length of nmax"""
    if route in SERIAL_ROUTES:
        pre_alpha = TWIN_PRE_SERIAL

    def h(ctx):
        tw = Twins(ctx, route)
        for i in range(pos):
            k = sel(ctx, f"pre{i}", len(pre_alpha))
            tw.step(i, "A:" + pre_alpha[k])
        if not tw.clone(pos):
            return
        for i in range(pos, nmax):
            k = sel(ctx, f"op{i}", len(post_alpha) + 1)
            if k == 0:
                break
            tw.step(i, post_alpha[k - 1])
        tw.final(order)
        mc = tw.w["A"].mc
        if mc is not None:
            mc["traces"] += 1

    n_ext = len(pre_alpha) ** pos * sum(len(post_alpha) ** k for k in range(0, nmax - pos + 1))
    return Case(f"C12/twin/{route}/{order}/born-after-{pos}", h, bounds=f"{len(pre_alpha)}^{pos} histories of A before the birth x all "
                f"histories over both twins to a total length of {nmax}: {n_ext} histories", budget_s=3000, max_paths=200000, weight=n_ext)


def twin_family(nmax, pre_alpha, post_alpha, routes=CLONE_ROUTES):
    return [make_twin_case(r, o, p, nmax, pre_alpha, post_alpha) for r in routes for o in ("AB", "BA") for p in range(nmax + 1)]




def make_multi_case(prefix, nmax, alphabet):
    def h(ctx):
        ws = Worlds(ctx)
        for i in range(nmax):
            if i < len(prefix):
                op = prefix[i]
            else:
                k = sel(ctx, f"op{i}", len(alphabet) + 1)
                if k == 0:
                    break
                op = alphabet[k - 1]
            ws.step(i, op)
        ws.final()
        mc = ws.w["U"].mc
        if mc is not None:
            mc["traces"] += 1

    n_ext = sum(len(alphabet) ** k for k in range(0, nmax - len(prefix) + 1))
    c = Case(f"C12/multi/{'.'.join(o.replace(':', '-') for o in prefix) or 'empty'}", h,
             bounds=f"all extensions to length {nmax}: {n_ext} histories", budget_s=3000, max_paths=200000, weight=n_ext)
    # never a warm-up of another case: it edits the process default registry (a documented global effect; the engine puts the
    # default registry back at the start of a path only), and the histories of edits of the default registry are this family
    c.warm_ok = False
    return c


def multi_family(alphabet, nmax, g):
    out = []
    for k in range(0, g):
        for pre in itertools.product(alphabet, repeat=k):
            out.append(make_multi_case(pre, k, alphabet))
    for pre in itertools.product(alphabet, repeat=g):
        out.append(make_multi_case(pre, nmax, alphabet))
    return out


def make_case(family, prefix, nmax, alphabet, every, cold, probe_set=None, config=None):
    def h(ctx):
        w = World(ctx, probe_set, scales=None if config is None else CANCEL_CONFIGS[config])
        if config is not None:
            w.cancel_round(0)
        for i in range(nmax):
            if i < len(prefix):
                op = prefix[i]
            else:
                k = sel(ctx, f"op{i}", len(alphabet) + 1)
                if k == 0:
                    break
                op = alphabet[k - 1]
            w.step(i, op)
            w.check_old()
            if config is not None:
                w.cancel_round(i + 1)
            elif every:
                w.probe_round(cold=False)
        if not every:
            w.probe_round(cold=cold)
        elif cold:
            w.cold_differential()
        if w.mc is not None:
            w.mc["traces"] += 1

    n_ext = sum(len(alphabet) ** k for k in range(0, nmax - len(prefix) + 1))
    name = family if config is None else f"{family}/{config}"
    return Case(f"C12/{name}/{'.'.join(prefix) or 'empty'}", h, bounds=f"all extensions to length {nmax}: {n_ext} histories",
                budget_s=3000, max_paths=200000, weight=n_ext)


def family(name, alphabet, nmax, g, every, cold=True, probe_set=None, config=None):
    out = []
    for k in range(0, g):  # histories shorter than the grouping prefix: one case each
        for pre in itertools.product(alphabet, repeat=k):
            out.append(make_case(name, pre, k, alphabet, every, cold, probe_set, config))
    for pre in itertools.product(alphabet, repeat=g):
        out.append(make_case(name, pre, nmax, alphabet, every, cold, probe_set, config))
    return out


def cancel_family(nmax, g):
    """numeral scales (sympy cannot cancel symbolic ones), symbolic payloads: the cancelling battery at the start and after every
    step of every history over the CANCEL edits, the probe round at the end"""
    out = []
    for config in CANCEL_CONFIGS:
        out += family("cancel", CANCEL, nmax, g, every=False, cold=False, config=config)
    return out


def cases(tier, mods):
    check_names(mods, NAMES + [KFOO])
    allp = PROBES + NEW_PROBES
    if tier == "quick":
        # the widest family is cut into cases by its first TWO operations (21 histories each): a case stays far below the
        # runner's hard wall limit per case on a loaded machine, and the workers are evenly loaded
        return (family("end", WIDE, 3, 2, every=False) + family("every", EDITS, 3, 1, every=True)
                + family("shadow", SHADOW, 3, 2, every=False, probe_set=allp)
                + family("shadow-every", SHADOW_EVERY, 3, 1, every=True, probe_set=allp)
                + family("fresh", FRESH, 3, 2, every=False, probe_set=allp)
                + cancel_family(2, 1) + multi_family(MULTI, 3, 2) + twin_family(3, TWIN_PRE, TWIN_POST))
    # thorough: the round-1 alphabet one step deeper; the widened alphabet to length 3; reduced alphabets around the new
    # regions (asks / copies, shadowing symbol) to length 4
    return (family("deep", OPS, 4, 2, every=False) + family("every", EDITS, 4, 1, every=True)
            + family("end", WIDE, 3, 2, every=False)
            + family("ask-deep", EDITS + ASKS + ["old_copy"], 4, 2, every=False)
            + family("mix-deep", EDITS + ["arr_create"] + MIX, 4, 2, every=False)
            + family("shadow", SHADOW, 3, 2, every=False, probe_set=allp)
            + family("shadow-deep", [o for o in SHADOW if o not in ("def_kfoo", "convert", "arr_create", "old_mix")], 4, 2, every=False, probe_set=allp)
            + family("shadow-every", SHADOW_EVERY, 3, 1, every=True, probe_set=allp)
            + family("fresh", FRESH, 3, 2, every=False, probe_set=allp)
            + cancel_family(3, 1) + multi_family(MULTI, 3, 2) + twin_family(3, TWIN_PRE_FULL, TWIN_POST_FULL))


CONFORM = {"quick": 20, "thorough": 60}


def coverage_extra(results, tier):
    d = merge_mc(results)
    d["histories"] = d["traces_validated_against_impl"]
    d["exhaustive"] = False
    return d
