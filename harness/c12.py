"""C12 - registry edits take effect everywhere, immediately, regardless of history (bounded model checking)."""
import itertools

from .common import And, Case, call, check_names, close, exact_eq, payload
from .registry_common import (BAR, FOO, NAMES, Log, Model, Probe, describe, dims_equal, mc_stats, merge_mc, obs_value, probes,
                              req, resolution_ok, sel, state_id)

LEVEL = "model_checking"
MANIFEST = dict(
    category="model_checking",
    text=("Bounded model checking with the real code as transition function: every history of registry operations up to the "
          "bound (add / re-add / modify by float / modify by quantity / remove / define_unit interleaved with unit "
          "construction from atomic, prefixed and compound strings, array creation, conversion, multiplication) is executed "
          "on the real UnitRegistry / Unit / unyt_array code with every scale a fresh z3 real; after the history (hence after "
          "every prefix, the set of histories being prefix-closed) and, in a second family, after every single step, each "
          "probe string is resolved against the live registry and z3 decides whether its scale term and dimensions equal those "
          "of a 15-line reference model (itself checked, state by state, against a cold registry built by the real code from the "
          "model's contents); units made earlier must keep their term. Histories are enumerated (discrete), scales and payloads are solved for."),
    design="DESIGN.md section 4 C12",
    technique="explicit-state bounded model checking over operation histories, symbolic (z3 real) data, reference-model refinement check per state; counterexample replay on plain unyt")
EXPLANATION = (
    "Transition function = the real UnitRegistry.add/modify/remove, define_unit, Unit.__new__ (+ _unit_object_cache), "
    "_lookup_unit_symbol (+ its write-back into the table), unit_system_id/Unit.__hash__, the lru-cached unit rules and "
    "_check_em_conversion, unyt_array creation/to()/multiplication. Caches are cleared only at the start of a path, one path = "
    "one history, so all memo layers are live inside a history. Specification = harness.registry_common.Model "
    "(symbol -> scale term, dims, offset, prefixable) and its evaluator for the probe strings "
    "{xfoo, kxfoo, mxfoo, xbar, xfoo*xbar, kxfoo**2/xbar, xfoo/xfoo}. Obligations per observed state: base_value term == "
    "model term (1e-6 band) and dimensions equal, or 'unknown symbol' exactly when the model says so; the model's answer == the real code's answer on a cold "
    "registry holding the model's rows (validation of the specification); outcome (exception class) of every operation as documented; units created earlier "
    "keep the term they had. z3 decides each obligation for all positive scales / all payloads at once; a stale cache "
    "shows as a term that still mentions an old symbol."
)
BOUNDS = {
    "quick": "2 symbols (xfoo prefixable, xbar not) on top of the default table; 12-operation alphabet; ALL histories of length <= 3 "
             "observed at their end (1885 = prefix-closed, so every prefix is observed too) + ALL edit-only histories (6 edit ops) of "
             "length <= 3 (259) with a full probe round after every step; 7 probe strings + the kxfoo/xfoo conversion factor; "
             "scales/values symbolic; histories are grouped into cases by their first operation",
    "thorough": "same alphabet; ALL histories of length <= 4 observed at their end (22621) + ALL edit-only histories of length <= 4 "
                "with a probe round after every step (1555)",
}
OUTSIDE = ("histories longer than the bound; more than two user symbols; offsets (always 0 here; C03/C08 treat offsets); unit-system "
           "objects created from an edited registry (C10); IEEE rounding (A1); concurrent use")

ASSUMPTIONS = [
    "C12: the operation taken at step i is decoded from an auxiliary real symbol op_i (interval decoding); the explorer thereby enumerates all histories, one path each; the symbols have no meaning for unyt",
    "C12: obligations whose two sides z3's rewriter normalises to the same polynomial are counted as ground checks; the solver proper decides the quotient obligations (kxfoo/xfoo factor), path feasibility (Unit.__eq__ forks) and every obligation whose sides differ",
    "C12: Unit.__hash__ hashes the repr of the table, so lru-cache hits between units of equal value but different symbolic name are not explored (such hits return a unit within unyt's own 1e-9 equality band, inside the 1e-6 band of the obligations)",
]
OPS = ["add_foo", "mod_foo_f", "mod_foo_q", "rm_foo", "def_foo", "mod_bar_f", "mk_atom", "mk_pref", "mk_comp", "arr_create",
       "convert", "arith"]
EDITS = OPS[:6]

PROBES = probes()
PK = {p.kind: p for p in PROBES}
ARITH = Probe("arith", FOO, [("", FOO, 1), ("", BAR, 1)])
KRATIO = Probe("k-per-atom", FOO, [], text=[("k", FOO, 1), ("", FOO, -1)])


class World:
    """one live registry + its reference model + the descriptive log"""

    def __init__(self, ctx):
        self.ctx = ctx
        self.unyt = ctx.mods["unyt"]
        self.D = self.unyt.dimensions
        self.reg = ctx.registry([])
        s0, b0 = ctx.real("s0", pos=True), ctx.real("b0", pos=True)
        # the real public add(): exercised with symbolic scales through the A2 float shim
        self.reg.add(FOO, s0, self.D.length, prefixable=True)
        self.reg.add(BAR, b0, self.D.time)
        self.model = Model()
        self.model.add(FOO, s0, self.D.length, 0.0, True, tag="s0")
        self.model.add(BAR, b0, self.D.time, 0.0, False, tag="b0")
        self.log = Log([FOO, BAR])
        self.old = []
        self.hist = []
        self.mc = mc_stats(ctx)
        self.seen_state()

    def seen_state(self):
        if self.mc is not None:
            self.mc["states"].add(state_id(self.model.key()))

    def info(self, **kw):
        return dict(history=">".join(self.hist) or "(empty)", **kw)

    # ---------------------------------------------------------------- observations
    def construct(self, probe, maker=None):
        """resolve one probe string against the live registry and compare with the model"""
        ctx = self.ctx
        label = self.log.label(probe)
        exp = self.model.eval(probe.net)
        mk = maker or (lambda: self.unyt.Unit(probe.string, registry=self.reg))
        res = call(mk)
        self.log.request(probe.string, probe.text)
        if self.mc is not None:
            self.mc["impl_calls"] += 1
        req(ctx, label, resolution_ok(res, exp), lambda: self.info(probe=probe.string, got=describe(res),
                                                                  expected="unknown symbol" if exp is None else f"{exp[0]!r} {exp[1]}"))
        ctx.observe(label, obs_value(res))
        if res[0] == "ok":
            u = getattr(res[1], "units", res[1])
            self.old.append((u, u.base_value, u.dimensions, probe.string))
        return res, exp, label

    def probe_round(self, cold=True):
        got = {}
        for p in PROBES:
            got[p.kind] = self.construct(p)[0]
        # what a user sees of a prefix: 1 kxfoo is 1000 xfoo whatever the current scale of xfoo (a quotient of two symbolic
        # scales: decided by the solver, not by term rewriting). Through the real Unit.get_conversion_factor.
        a, k = got["atom"], got["prefixed_k"]
        if a[0] == "ok" and k[0] == "ok" and self.model.atom("k", FOO) is not None:
            r = call(k[1].get_conversion_factor, a[1])
            req(self.ctx, self.log.label(KRATIO), r[0] == "ok" and close(r[1][0], 1000.0),
                lambda: self.info(what="Unit('kxfoo').get_conversion_factor(Unit('xfoo'))", got=str(r[1]), expected="1000"))
        if cold:
            self.cold_differential()

    def cold_differential(self):
        """the property's own wording: 'exactly as if it had been built against a fresh registry with those contents'"""
        ctx = self.ctx
        fresh = ctx.registry([])
        for sym, (scale, dims, off, pref) in self.model.t.items():
            fresh.add(sym, scale, dims, prefixable=pref)
        for p in PROBES:
            ref = call(self.unyt.Unit, p.string, registry=fresh)
            exp = self.model.eval(p.net)
            # the reference model must be what the real code answers on a cold registry holding the same rows: this
            # validates the specification against the implementation (and the live registry is compared with the model)
            req(ctx, f"model==cold-registry/{p.kind}", resolution_ok(ref, exp),
                lambda: self.info(probe=p.string, cold=describe(ref), model="unknown symbol" if exp is None else f"{exp[0]!r} {exp[1]}"))

    def check_old(self):
        ok = True
        for u, bv, dims, s in self.old:
            ok = And(ok, exact_eq(u.base_value, bv), dims_equal(u.dimensions, dims))
        req(self.ctx, f"old-units-keep-value/after-{self.hist[-1]}", ok, self.info)

    # ---------------------------------------------------------------- transitions
    def outcome(self, op, res, expect_exc):
        got = type(res[1]).__name__ if res[0] == "raise" else None
        req(self.ctx, f"op:{op}/outcome", got == expect_exc, lambda: self.info(expected=expect_exc, got=got))
        self.ctx.observe(f"op:{op}/outcome", str(got))

    def step(self, i, op):
        ctx, reg, model, D = self.ctx, self.reg, self.model, self.D
        self.hist.append(op)
        if self.mc is not None:
            self.mc["transitions"] += 1
        present = FOO in model.t
        if op == "add_foo":
            v = ctx.real(f"v{i}", pos=True)
            res = call(reg.add, FOO, v, D.mass, prefixable=True)
            self.outcome(op, res, None)
            model.add(FOO, v, D.mass, 0.0, True, tag=f"v{i}")
            self.log.edit(FOO, "readd" if present else "add")
        elif op == "mod_foo_f":
            v = ctx.real(f"v{i}", pos=True)
            res = call(reg.modify, FOO, v)
            self.outcome(op, res, None if present else "SymbolNotFoundError")
            if present:
                model.modify(FOO, v, tag=f"v{i}")
                self.log.edit(FOO, "modify")
        elif op == "mod_foo_q":
            v = ctx.real(f"v{i}", pos=True)
            q = ctx.quantity(v, "km", reg)
            res = call(reg.modify, FOO, q)
            self.outcome(op, res, None if present else "SymbolNotFoundError")
            if present:
                model.modify(FOO, v * 1000.0, D.length, tag=f"v{i}k")
                self.log.edit(FOO, "modify")
        elif op == "rm_foo":
            res = call(reg.remove, FOO)
            self.outcome(op, res, None if present else "SymbolNotFoundError")
            if present:
                model.remove(FOO)
                self.log.edit(FOO, "remove")
        elif op == "def_foo":
            v = ctx.real(f"v{i}", pos=True)
            res = call(self.unyt.define_unit, FOO, (v, "km"), prefixable=True, registry=reg)
            self.outcome(op, res, "RuntimeError" if present else None)
            if not present:
                model.add(FOO, v * 1000.0, D.length, 0.0, True, tag=f"v{i}k")
                self.log.edit(FOO, "add")
        elif op == "mod_bar_f":
            v = ctx.real(f"v{i}", pos=True)
            res = call(reg.modify, BAR, v)
            self.outcome(op, res, None)
            model.modify(BAR, v, tag=f"v{i}")
            self.log.edit(BAR, "modify")
        elif op == "mk_atom":
            self.construct(PK["atom"])
        elif op == "mk_pref":
            self.construct(PK["prefixed_k"])
        elif op == "mk_comp":
            self.construct(PK["compound"])
        elif op == "arr_create":
            x = ctx.real(f"x{i}")
            p = PK["compound_prefixed"]
            res, exp, label = self.construct(p, lambda: ctx.quantity(x, p.string, reg))
            if res[0] == "ok":
                req(ctx, "op:arr_create/payload", exact_eq(payload(res[1])[0], x), self.info)
        elif op == "convert":
            x = ctx.real(f"x{i}")
            p = PK["prefixed_k"]
            exp = model.eval(p.net)
            circ = self.log.circumstances(p)
            if exp is None:
                res = call(lambda: ctx.quantity(x, p.string, reg))
                ok = res[0] == "raise" and type(res[1]).__name__ == "UnitParseError"
            else:
                target = {id(D.length): "m", id(D.mass): "kg", id(D.time): "s"}[id(exp[1])]
                res = call(lambda: ctx.quantity(x, p.string, reg).to(target))
                ok = res[0] == "ok" and And(close(payload(res[1])[0], x * exp[0]), str(res[1].units) == target)
                if res[0] == "ok":
                    ctx.observe("op:convert", payload(res[1])[0])
            self.log.request(p.string, p.text)
            req(ctx, f"op:convert/{circ}", ok, lambda: self.info(expected="unknown symbol" if exp is None else f"x*{exp[0]!r}",
                                                                 got=type(res[1]).__name__ if res[0] == "raise" else str(res[1])))
        elif op == "arith":
            x, y = ctx.real(f"x{i}"), ctx.real(f"y{i}")
            exp = model.eval(ARITH.net)
            # circumstances of the string 'xfoo' (xbar is never re-added, and modify drops the exact key): the cause of a stale
            # operand is named by the last edit of xfoo, not by a later edit of xbar
            circ = self.log.circumstances(PK["atom"])
            res = call(lambda: ctx.quantity(x, FOO, reg) * ctx.quantity(y, BAR, reg))
            self.log.request(FOO, PK["atom"].text)
            self.log.request(BAR, PK["atom2"].text)
            if exp is None:
                ok = res[0] == "raise" and type(res[1]).__name__ == "UnitParseError"
            else:
                ok = res[0] == "ok" and And(close(payload(res[1])[0] * res[1].units.base_value, x * y * exp[0]),
                                            dims_equal(res[1].units.dimensions, exp[1]))
                if res[0] == "ok":
                    ctx.observe("op:arith", payload(res[1])[0])
            req(ctx, f"op:arith/{circ}", ok, lambda: self.info(expected="unknown symbol" if exp is None else f"SI x*y*{exp[0]!r}",
                                                               got=type(res[1]).__name__ if res[0] == "raise" else str(res[1])))
        else:
            raise KeyError(op)
        if self.mc is not None:
            self.mc["impl_calls"] += 1
        self.seen_state()


def make_case(family, prefix, nmax, alphabet, every, cold):
    def h(ctx):
        w = World(ctx)
        for i in range(nmax):
            if i < len(prefix):
                op = prefix[i]
            else:
                k = sel(ctx, f"op{i}", len(alphabet) + 1)
                if k == 0:
                    break
                op = alphabet[k - 1]
            w.step(i, op)
            w.check_old()
            if every:
                w.probe_round(cold=False)
        if not every:
            w.probe_round(cold=cold)
        elif cold:
            w.cold_differential()
        if w.mc is not None:
            w.mc["traces"] += 1

    n_ext = sum(len(alphabet) ** k for k in range(0, nmax - len(prefix) + 1))
    return Case(f"C12/{family}/{'.'.join(prefix) or 'empty'}", h, bounds=f"all extensions to length {nmax}: {n_ext} histories",
                budget_s=3000, max_paths=200000, weight=n_ext)


def family(name, alphabet, nmax, g, every, cold=True):
    out = []
    for k in range(0, g):  # histories shorter than the grouping prefix: one case each
        for pre in itertools.product(alphabet, repeat=k):
            out.append(make_case(name, pre, k, alphabet, every, cold))
    for pre in itertools.product(alphabet, repeat=g):
        out.append(make_case(name, pre, nmax, alphabet, every, cold))
    return out


def cases(tier, mods):
    check_names(mods, NAMES)
    if tier == "quick":
        return family("end", OPS, 3, 1, every=False) + family("every", EDITS, 3, 1, every=True)
    return family("end", OPS, 4, 1, every=False) + family("every", EDITS, 4, 1, every=True)


CONFORM = {"quick": 20, "thorough": 60}


def coverage_extra(results, tier):
    d = merge_mc(results)
    d["histories"] = d["traces_validated_against_impl"]
    d["exhaustive"] = False
    return d
