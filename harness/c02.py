"""C02 - every unit's scale and dimension agree with its definition."""
import contextlib
import hashlib
import random
from fractions import Fraction

from .common import EXPONENTS, PREFIX, And, Case, Or, band, call, close, payload
from .names_common import (DEFS, DEFS_BRACKET, DEFS_POW, OFFSETS, PREFIX_SYMS, PREFIX_WORD, TOL, dimvec, expected, float_q, label_of, oracle_var,
                           readings, sym_registry, tables, unit_ok, vec_add, within)

LEVEL = "other"
MANIFEST = dict(
    category="other",
    text=("(a) Bounded symbolic execution of the real unit construction (parse_unyt_expr, _auto_positive_symbol, "
          "_lookup_unit_symbol, _split_prefix, _get_unit_data_from_expr, Unit.__new__/__mul__/__truediv__/__pow__, "
          "_get_conversion_factor, in_units, define_unit, UnitRegistry.modify/add/remove) against a registry whose ~145 base scales are "
          "z3 reals: for every name and for generated compound expressions (<= 4 factors, rational exponents, sqrt, parentheses, "
          "coefficients) z3 proves base_value == coeff * prod(prefix_i*s_i)**e_i for ALL scales, dimensions by an independent "
          "exponent-vector algebra, and x.to(u2) == x*scale(u1)/scale(u2) for all x. Two further discrete axes are walked with the same "
          "symbolic scales: HISTORY (every name / a slice of the expressions and pairs is requested, the definition of a constituent "
          "symbol is then edited through modify, add or remove+add with a fresh symbolic scale, and the same spelling must follow the "
          "new definition) and ARGUMENT FORM (the unit handed over as a quantity v*u with v a z3 real, at Unit(), to, in_units, "
          "convert_to_units, to_value, unyt_array(), unyt_quantity(); as bytes, Unit object, Unit of another registry, sympy "
          "expression; string coefficients in 9 magnitude classes) and UNIT OBJECT (the unit asked for is a Unit object carrying its own "
          "scale: made in the same registry, in a second registry whose 145 scales are independent z3 reals, or before / after an edit "
          "of a constituent symbol; spelled differently from or exactly like the unit of the data; at to, in_units, convert_to_units, "
          "to_value, get_conversion_factor, x + y and unyt_quantity(x, object)). Names that read as an SI-2022 prefix (ronna, quetta, "
          "ronto, quecto) on a prefixable unit are checked against the SI values whenever a tree accepts them. ROUTE (C02/route): the definitions "
          "enter the registry by LOADING instead of by table rows / add / define_unit: UnitRegistry.from_json of current (5-field) and OLD (4-field, "
          "CGS-valued) text, the body of from_json on parsed rows, _correct_old_unit_registry on a table dict, the unpickling protocol of an array "
          "(real __reduce__ state with the unit metadata of a current / old 3-tuple / old 2-tuple pickle, real __setstate__; with a real pickle byte "
          "stream and without), UnitRegistry(lut=...); 17 custom symbols whose dimensions cover integer, negative and half-integer powers of mass / "
          "length / time, Gaussian and SI electromagnetic dimensions, plus 11 of unyt's own symbols as an old file carries them. Where the route can "
          "carry a solver term (all but text and byte streams) every row's value is a z3 real and the real code is executed on it: z3 proves "
          "base_value == value / (1000**p_mass * 100**p_length) (old rows) or == value (current rows) for ALL values, then dimensions, prefixed "
          "and compound spellings and x.to / from the SI spelling with symbolic x; text / byte-stream routes use concrete values (ground facts for "
          "scales, solver for the converted payload). (b) GROUND: each of the 145 table rows (and the prefix table) "
          "against an independently written definition table as exact-rational z3 facts |row-def| <= tol*def."),
    design="DESIGN.md section 4 C02",
    technique="symbolic execution of the real Python code over z3 real terms (QF_NRA with root witnesses); ground exact-rational SMT facts; replay")
EXPLANATION = (
    "Part (a): names, expression shapes and exponents are discrete and enumerated/generated; the scale of every base symbol of the "
    "registry and the converted value x are z3 reals, so each obligation is a theorem over all positive scales. The oracle splits "
    "names with an independent reader (own SI prefix table), flattens its own expression tree to coeff * prod atom**e and evaluates "
    "it over the same scale symbols; dimensions are compared as exponent vectors over the base dimensions. Part (b) is GROUND: the "
    "quantifier is the finite set of table rows; each float of the current table is compared, as an exact rational, with an exact "
    "legal/SI definition (tolerance 8 ulp), a published rounded value (1e-7) or a measured value's class (CODATA 1e-6, IAU 1e-3); "
    "z3 adds nothing there over evaluation except a uniform logged discharge. The definition table is the trusted base of (b). "
    "History axis (C02/names-edited, expr-edited, to-edited): 'the definition' of a unit is what the registry says NOW. Each spelling is "
    "requested first (so that whatever unyt memoises per spelling exists), then the canonical symbol behind it - one symbol at a time - "
    "gets a new scale (a fresh solver symbol) through the public calls modify / add over the row / remove followed by add, and the same "
    "spelling, its square, compound strings containing it and conversions to and from it must equal the oracle evaluated over the new "
    "scale for all old and new scales; after remove a spelling without another reading must be refused. Argument-form axis (C02/form): "
    "every entry point that takes a unit is given the unit as a quantity v*u; v is a solver symbol over all positive reals, so a decision "
    "the library takes on the NUMBER (v == 1, v close to 1 ...) forks the path and the scale v*scale(u) is proved on every branch. "
    "While such a case runs, a symbolic number that unyt multiplies into a sympy expression is carried as a positive sympy Symbol with a "
    "dimensionless registry row of that name (sympy cannot hold a solver term); see ASSUMPTIONS. "
    "Unit-object axis (C02/object): a Unit object has the scale of the registry and the moment it was made in, so two units with EQUAL "
    "expressions can have different scales. Kinds: same registry; a second registry with its own scale symbols (f:<sym>), other and same "
    "spelling; object made before an edit (modify/add/remove+add rotating, new scale a fresh symbol) with the data made after it, and the "
    "data made before it with the object made after it, other and same spelling. For every kind and each of 7 entry points z3 proves the "
    "object reports the scale of its own definition and result == x*scale1/scale2 for all x and all scales of both registries / epochs. "
    "SI-2022 prefixes: unyt's table has 22 prefix spellings; the harness also carries R, Q, r, q with the SI Brochure values, puts "
    "<prefix><prefixable symbol> candidates into the name universe (a tree that refuses them is outside C02) and reads names the tree's "
    "own alias generator adds, so an added prefix is checked value by value (names) and as a ground fact (prefix/<p>, prefix word/<p>). "
    "Route axis (C02/route): a registry restored from JSON text or from a pickle defines its symbols by the rows of the file. A current row "
    "(5 fields) holds the SI scale; an OLD row (4 fields, what unyt 1.x / yt 3 wrote into every dataset) holds the value in CGS base units, so "
    "the SI scale it implies is value / 10**(3*p_mass + 2*p_length) - written independently in cgs_to_si, half-integer powers included (code_magnetic "
    "has sqrt(mass)/sqrt(length)); other base dimensions (time, temperature, current_mks) do not rescale. Rows of the file for symbols unyt defines "
    "itself are the definition of those symbols in the restored registry (and keep unyt's prefixability); symbols the file does not mention get "
    "unyt's rows. JSON text and pickle bytes cannot hold a solver term: those two routes are GROUND for the scales (concrete rows) and the "
    "same code is run with symbolic row values one call further in (json-parsed = from_json after json.loads; setstate = pickle's "
    "_reconstruct + __setstate__ calls on the state tuple). UnitRegistry(lut=..., add_default_symbols=True) adds the default rows OVER the table by "
    "contract, so rows redefining unyt's own symbols are walked on that route with add_default_symbols=False only."
)
ASSUMPTIONS = ["C02/form: the symbolic coefficient v of a quantity-valued unit enters unyt's sympy expression as a positive Symbol whose "
               "registry row is (v, dimensionless) (harness.c02.symbolic_coefficients, a sympy converter active only inside these cases; "
               "numerals become sympy Floats as for a float). unyt's own code decides whether and how the number enters the expression "
               "and evaluates the product; float(<sympy Number>) of _get_unit_data_from_expr is exercised by the string route only, "
               "with coefficients from enumerated magnitude classes"]
BOUNDS = {
    "quick": "all 3872 exposed names (string route); 400 generated compound expressions (1-4 factors, exponents from E, sqrt, parentheses, "
             "coefficients) by string and - where at most one root of a compound sub-expression occurs, un-nested - by operator route; 160 compound and ~300 atomic commensurable conversion pairs with symbolic x; "
             "all 145 table rows + 22 prefixes (ground); define_unit (tuple and quantity form, prefixable) over 5 definition shapes x "
             "{mks, cgs} + a third of the other 5 built-in unit systems as the registry's system, value and defining scales symbolic; "
             "HISTORY: all names x {modify, add, remove+add} (name and name**2 after the edit of its own symbol, new scale symbolic), every "
             "3rd chunk of the expressions and every 4th chunk of the pairs with one constituent symbol edited (editing call rotating); "
             "ARGUMENT FORM: 24 unit expressions (12 compound, 12 atomic pairs) x {Unit, to, in_units, convert_to_units, to_value, unyt_array, "
             "unyt_quantity} with the unit given as a quantity of symbolic coefficient v > 0, x {bytes, Unit, Unit of another registry, sympy "
             "expression}, x 9 coefficient magnitude classes x 2 shapes in strings; UNIT OBJECT: 7 kinds (same / foreign / foreign same spelling / stale "
             "target / stale target same spelling / stale source / stale source same spelling) x 7 entry points, each on one chunk of 2 pairs "
             "(1 compound chunk, 1 atomic chunk, rotating); ~200 SI-2022 candidate names spread over the name chunks; ROUTE: 6 routes x their formats "
             "(old / old 2-tuple / new / new without defaults) x {17 custom rows, 5 custom + 11 own rows}: every row gets the scale / dimension / "
             "prefixed / compound obligations in every case; conversions to and from the SI spelling for every row on the concrete routes, for 2 "
             "slices of 2 rows per case (rotating, old formats starting at the half-integer rows) on the symbolic routes; conversions whose SI "
             "spelling would need a root of a symbolic base scale are skipped",
    "thorough": "all names; 6000 generated expressions (1-5 factors); 2000 compound pairs (<= 1 square root, |exponent| <= 3); every ordered pair of table symbols sharing a dimension "
                "(~1100, with SI prefixes on prefixable ones); all rows (ground); define_unit over 5 definition shapes x 7 registry unit systems x 2 forms; "
                "HISTORY: all names x 3 editing calls, every 4th chunk of the expressions and every 8th chunk of the pairs; ARGUMENT FORM: 96 unit "
                "expressions x 7 entry points x symbolic coefficient, x 4 non-string forms, x 9 coefficient classes; UNIT OBJECT: 7 kinds x 7 entry "
                "points x 3 of 8 chunks of 2 pairs (rotating); ROUTE: as quick with every slice of 2 rows converted on the symbolic routes",
}
OUTSIDE = ("unit strings that unyt rejects (acceptance of documented names is C14); offset units in conversions and compounds (C03/C08); "
           "logarithmic units in compounds; exponents outside E and root denominators > 6; IEEE rounding (A1); correctness of the "
           "independent definition table (trusted base of part b); histories other than request -> one edit of a constituent symbol -> "
           "request (longer edit sequences, copies of registries: C12/C13; units created before the edit are walked as conversion source / "
           "target in C02/object only, with one edit); the new value of modify given "
           "as a quantity (C12); coefficients of a quantity-valued unit that are zero or negative; the numeric value of a coefficient "
           "written inside a unit STRING is not symbolic (sympy Number): 9 magnitude classes are enumerated, a defect that depends on "
           "another value of such a coefficient is not seen; ROUTE: row values inside JSON text / pickle byte streams are concrete (17+11 fixed rows); "
           "offset rows, unit systems other than mks/cgs recorded in a pickle, old rows whose dimension symbols are equal-but-not-identical "
           "sympy objects from another process; pickling of bare Unit objects (refused by unchanged unyt)")
CONFORM = {"quick": 12, "thorough": 24}
CHUNK = 100
CHUNK_EDITED = 50     # smaller: on a tree where every alias fails, the counterexample models of one case stay affordable
SEED = 20260929


# SI prefixes adopted after unyt's table was written (SI Brochure 9th ed. v2.01, CGPM 2022 Res. 3), written here independently:
# unyt does not have to accept them (acceptance is C14), but IF a tree accepts a name that reads as one of them on a prefixable
# unit, the scale must be the SI value times the base scale - an accepted name is never outside the claim for lack of a table entry
SI_2022 = {"R": (1e27, "ronna"), "Q": (1e30, "quetta"), "r": (1e-27, "ronto"), "q": (1e-30, "quecto")}


def expected_ext(name, T):
    """(prefix factor, canonical symbol), label: the documented reading of names_common.expected, else a reading with an SI-2022
    prefix symbol (on a prefixable symbol / short alias) or prefix word (on an alias of a prefixable symbol, also title case)"""
    exp = expected(name, T)
    if exp is not None:
        return exp, label_of(name, T)
    for psym, (val, word) in SI_2022.items():
        for pre, bases in ((psym, T.pb), (word, T.wb), (word.title(), {t: v[0] for t, v in T.tb.items()})):
            rest = name[len(pre):]
            if name.startswith(pre) and rest in bases:
                return (val, bases[rest]), f"si2022-{word}/{rest}"
    return None, "unread/" + name


# ------------------------------------------------------------------------------------------------ expression trees

class Atom:
    def __init__(self, name, pv, sym):
        self.name, self.pv, self.sym = name, pv, sym

    def key(self):
        return (self.pv, self.sym)


def render_exp(e, style):
    e = Fraction(e)
    if e.denominator == 1:
        return str(e.numerator) if style % 2 == 0 or e < 0 else f"({e.numerator})"
    if style % 2 == 1 and e.denominator == 2:
        return str(float(e)) if e > 0 else f"({float(e)})"
    return f"({e.numerator}/{e.denominator})"


def render(n):
    """unit string of a tree (python/sympy syntax)"""
    k = n[0]
    if k == "atom":
        return n[1].name
    if k == "num":
        return n[1]
    if k == "mul":
        a, b = render(n[1]), render(n[2])
        if n[1][0] == "div":
            a = f"({a})" if n[3] else a
        if n[2][0] in ("div", "mul") and n[3]:
            b = f"({b})"
        elif n[2][0] == "div":
            b = f"({b})"
        return f"{a}*{b}"
    if k == "div":
        a, b = render(n[1]), render(n[2])
        if n[2][0] in ("mul", "div"):
            b = f"({b})"
        return f"{a}/{b}"
    if k == "pow":
        a = render(n[1])
        if n[1][0] != "atom":
            a = f"({a})"
        return f"{a}**{render_exp(n[2], n[3])}"
    if k == "sqrt":
        return f"sqrt({render(n[1])})"
    raise KeyError(k)


def flatten(n, e=Fraction(1), acc=None):
    """independent evaluator, step 1: coefficient (as a list of (number, exponent)) and exponent per atom"""
    if acc is None:
        acc = {"coef": [], "atoms": {}}
    k = n[0]
    if k == "atom":
        a = n[1]
        acc["atoms"][a.key()] = acc["atoms"].get(a.key(), 0) + e
    elif k == "num":
        acc["coef"].append((Fraction(n[1]) if "e" not in n[1] else Fraction(float(n[1])), e))
    elif k == "mul":
        flatten(n[1], e, acc); flatten(n[2], e, acc)
    elif k == "div":
        flatten(n[1], e, acc); flatten(n[2], -e, acc)
    elif k == "pow":
        flatten(n[1], e * n[2], acc)
    elif k == "sqrt":
        flatten(n[1], e / 2, acc)
    return acc


def oracle_scale(n, S):
    """step 2: coeff * prod (prefix*s)**e over the scale symbols of this mode"""
    f = flatten(n)
    v = 1.0
    for c, e in f["coef"]:
        v = v * (float(c) ** float(e))
    for (pv, sym), e in sorted(f["atoms"].items(), key=str):
        if e == 0:
            continue
        base = S[sym] * pv
        v = v * (base ** (e if e.denominator != 1 else int(e)))
    return v


def oracle_dims(n, T):
    f = flatten(n)
    vec = {}
    for (pv, sym), e in f["atoms"].items():
        vec = vec_add(vec, dimvec(T.rows[sym][1]), e)
    return vec


def max_den(n):
    f = flatten(n)
    es = [e for e in f["atoms"].values()] + [e for _, e in f["coef"]]
    return max([e.denominator for e in es] + [1]), max([abs(e) for e in es] + [0])


def structural(n, units):
    """operator route: the same tree built with Unit.__mul__/__truediv__/__pow__ (units: atom name -> Unit)"""
    k = n[0]
    if k == "atom":
        return units[n[1].name]
    if k == "num":
        return None
    if k in ("mul", "div"):
        a, b = structural(n[1], units), structural(n[2], units)
        if a is None or b is None:
            raise ValueError("coefficient in operator route")
        return a * b if k == "mul" else a / b
    if k == "pow":
        e = n[2]
        p = int(e) if e.denominator == 1 else (float(e) if n[3] % 2 else e)
        return structural(n[1], units) ** p
    if k == "sqrt":
        return structural(n[1], units) ** 0.5
    raise KeyError(k)


def struct_scale(n, S):
    """oracle for the operator route: the tree evaluated as written (roots of products stay roots of products)"""
    k = n[0]
    if k == "atom":
        return S[n[1].sym] * n[1].pv
    if k == "mul":
        return struct_scale(n[1], S) * struct_scale(n[2], S)
    if k == "div":
        return struct_scale(n[1], S) / struct_scale(n[2], S)
    if k == "pow":
        e = n[2]
        return struct_scale(n[1], S) ** (int(e) if e.denominator == 1 else e)
    if k == "sqrt":
        return struct_scale(n[1], S) ** Fraction(1, 2)
    raise KeyError(k)


def _frac(n):
    return n[0] == "sqrt" or (n[0] == "pow" and n[2].denominator != 1)


def compound_roots(n):
    """(number of fractional powers taken of a non-atomic operand, is any of them nested around another fractional power)"""
    if n[0] in ("atom", "num"):
        return 0, False
    cnt, nested = 0, False
    for c in n[1:]:
        if isinstance(c, tuple):
            k, ne = compound_roots(c)
            cnt += k
            nested = nested or ne
    if _frac(n) and n[1][0] != "atom":
        cnt += 1
        nested = nested or any_frac(n[1])
    return cnt, nested


def any_frac(n):
    if n[0] in ("atom", "num"):
        return False
    return _frac(n) or any(any_frac(c) for c in n[1:] if isinstance(c, tuple))


def operator_route_ok(n):
    """the operator route keeps roots of products as roots of products (one witness per product term): bounded to one
    such root, not nested, so that the path condition stays easy for nlsat"""
    cnt, nested = compound_roots(n)
    return not has_num(n) and cnt <= 1 and not nested


def has_num(n):
    return n[0] == "num" or any(has_num(c) for c in n[1:] if isinstance(c, tuple))


def atoms_of(n):
    if n[0] == "atom":
        return [n[1]]
    out = []
    for c in n[1:]:
        if isinstance(c, tuple):
            out += atoms_of(c)
    return out


def substitute(n, m):
    if n[0] == "atom":
        return ("atom", m[n[1].name])
    return tuple(substitute(c, m) if isinstance(c, tuple) else c for c in n)


# ------------------------------------------------------------------------------------------------ generation

COEFS = ["2", "3", "0.5", "1e3", "2.5e-3", "10", "7"]


_POOL = []


def atom_pool(mods):
    """names usable as compound factors: every exposed spelling of a unit without offset that is not logarithmic"""
    from unyt._unit_lookup_table import inv_name_alternatives
    if _POOL:
        return _POOL
    T = tables()
    pool = _POOL
    for name in inv_name_alternatives:
        if not name or name == "_" or "°" in name or name == "%" or name == "percent":
            continue
        exp = expected_ext(name, T)[0]
        if exp is None:
            continue
        pv, sym = exp
        row = T.rows[sym]
        if row[2] != 0 or "logarithmic" in str(row[1]) or sym == "dimensionless" or row[0] <= 0:
            continue
        pool.append(Atom(name, pv, sym))
    return pool


def gen_tree(rng, atoms):
    nodes = []
    for a in atoms:
        n = ("atom", a)
        if rng.random() < 0.5:
            n = ("pow", n, rng.choice(EXPONENTS), rng.randrange(4))
        nodes.append(n)
    while len(nodes) > 1:
        i = rng.randrange(len(nodes) - 1)
        op = rng.choice(["mul", "div", "div"])
        n = (op, nodes[i], nodes[i + 1], rng.randrange(2)) if op == "mul" else (op, nodes[i], nodes[i + 1])
        r = rng.random()
        if r < 0.2:
            n = ("pow", n, rng.choice([e for e in EXPONENTS if e != 0]), rng.randrange(4))
        elif r < 0.32:
            n = ("sqrt", n)
        nodes[i:i + 2] = [n]
    top = nodes[0]
    r = rng.random()
    if r < 0.2:
        top = ("mul", ("num", rng.choice(COEFS)), top, 0)
    elif r < 0.3:
        top = ("div", top, ("num", rng.choice(COEFS)))
    elif r < 0.35:
        top = ("pow", ("mul", ("num", rng.choice(COEFS[:3])), top, 0), rng.choice([Fraction(2), Fraction(-1), Fraction(1, 2)]), 0)
    return top


def gen_expressions(mods, count, seed=SEED, max_factors=4):
    rng = random.Random(seed)
    pool = atom_pool(mods)
    syms = sorted({a.sym for a in pool})
    by_sym = {s: [a for a in pool if a.sym == s] for s in syms}
    out, seen = [], set()
    while len(out) < count:
        k = rng.choice([1, 2, 2, 3, 3, 4, 4] + ([5, 5] if max_factors >= 5 else []))
        atoms = [rng.choice(by_sym[rng.choice(syms)]) for _ in range(k)]     # every table symbol equally likely
        t = gen_tree(rng, atoms)
        d, m = max_den(t)
        if d > 6 or m > 6:
            continue
        s = render(t)
        if s in seen:
            continue
        seen.add(s)
        out.append(t)
    return out


def gen_pairs(mods, count, seed=SEED + 1, max_factors=4):
    """commensurable compound pairs: the same tree with every atom replaced by another unit of the same dimension"""
    rng = random.Random(seed)
    T = tables()
    pool = atom_pool(mods)
    by_dim = {}
    for a in pool:
        by_dim.setdefault(str(sorted(dimvec(T.rows[a.sym][1]).items())), []).append(a)
    trees = gen_expressions(mods, count * 6, seed, max_factors)
    out = []
    for t in trees:
        if len(out) >= count:
            break
        f = flatten(t)
        es = list(f["atoms"].values())
        if max([e.denominator for e in es] + [1]) > 2 or sum(e.denominator > 1 for e in es) > 1 or max([abs(e) for e in es] + [0]) > 3:
            continue        # conversions: at most one square root and |exponent| <= 3 (the path 'both scales within 1e-9' is NRA-hard otherwise)
        m = {}
        for a in atoms_of(t):
            alts = by_dim[str(sorted(dimvec(T.rows[a.sym][1]).items()))]
            m[a.name] = rng.choice(alts)
        t2 = substitute(t, m)
        if all(m[a.name].key() == a.key() for a in atoms_of(t)):
            continue
        out.append((t, t2))
    return out


# ------------------------------------------------------------------------------------------------ cases

def make_names_case(k, chunk, n_base=None):
    def h(ctx):
        Unit = ctx.mods["unyt"].Unit
        T = tables()
        reg, S = sym_registry(ctx)
        n_ok = 0
        for name in chunk:
            exp, lab = expected_ext(name, T)
            r = call(Unit, name, registry=reg)
            if r[0] == "raise":
                # not an accepted unit expression: outside C02 (C14 owns "every documented name can be used")
                continue
            if exp is None:
                ctx.require(f"documented/{name}", False, why="accepted name has no reading by the documented rules or as an SI-2022 prefixed form")
                continue
            pv, sym = exp
            E = oracle_var(ctx, "e:" + name, S[sym] * pv)
            ctx.require(f"name/{lab}", unit_ok(ctx, r[1], E, T, exp), name=name, expected=f"{pv}*{sym}")
            ctx.observe(f"name/{name}", r[1].base_value)
            n_ok += 1
        # (vacuity guard; SI-2022 candidate names appended to the chunk are refused by a tree without them and do not count)
        ctx.require("most names of the chunk are accepted", n_ok * 2 >= (len(chunk) if n_base is None else n_base))
    return Case(f"C02/names/{k:02d}", h, bounds=f"{len(chunk)} names, 145 symbolic scales", budget_s=600, weight=3)


def make_expr_case(k, trees):
    def h(ctx):
        Unit = ctx.mods["unyt"].Unit
        T = tables()
        reg, S = sym_registry(ctx)
        for i, t in enumerate(trees):
            s = render(t)
            r = call(Unit, s, registry=reg)
            if r[0] == "raise":
                ctx.require(f"parses/{k}.{i}", False, expr=s, exc=type(r[1]).__name__, msg=str(r[1])[:160])
                continue
            u = r[1]
            E = oracle_var(ctx, f"e:{i}", oracle_scale(t, S))
            ctx.require(f"compound scale (string)/{k}.{i}", close(u.base_value, E), expr=s, got=str(u))
            ctx.require(f"compound dimensions (string)/{k}.{i}", dimvec(u.dimensions) == oracle_dims(t, T), expr=s, got=str(u.dimensions))
            ctx.observe(f"expr/{i}", u.base_value)
            if operator_route_ok(t):
                units = {a.name: Unit(a.name, registry=reg) for a in atoms_of(t)}
                ro = call(structural, t, units)
                if ro[0] == "raise":
                    ctx.require(f"operators/{k}.{i}", False, expr=s, exc=type(ro[1]).__name__, msg=str(ro[1])[:160])
                    continue
                uo = ro[1]
                E2 = oracle_var(ctx, f"o:{i}", struct_scale(t, S))
                ctx.require(f"compound scale (operators)/{k}.{i}", close(uo.base_value, E2), expr=s, got=str(uo))
                ctx.require(f"compound dimensions (operators)/{k}.{i}", dimvec(uo.dimensions) == oracle_dims(t, T), expr=s)
                ctx.observe(f"oper/{i}", uo.base_value)
    return Case(f"C02/expr/{k:03d}", h, bounds=f"{len(trees)} generated expressions", budget_s=600, weight=4, max_paths=64)


def make_to_case(tag, k, pairs):
    """x.to(u2).d == x * scale(u1)/scale(u2) through the real in_units, x symbolic; pairs = [(tree1, tree2)]"""
    def h(ctx):
        T = tables()
        reg, S = sym_registry(ctx)
        for i, (t1, t2) in enumerate(pairs):
            s1, s2 = render(t1), render(t2)
            x = ctx.real(f"x{i}")
            q = ctx.quantity(x, s1, reg)
            r = call(q.to, s2)
            if r[0] == "raise":
                ctx.require(f"converts/{tag}.{k}.{i}", False, frm=s1, to=s2, exc=type(r[1]).__name__, msg=str(r[1])[:160])
                continue
            want = x * oracle_scale(t1, S) / oracle_scale(t2, S)
            E = oracle_var(ctx, f"e:{i}", want)
            got = payload(r[1])[0]
            ctx.require(f"to == x*scale1/scale2/{tag}.{k}.{i}", close(got, E), frm=s1, to=s2)
            ctx.require(f"to unit/{tag}.{k}.{i}", dimvec(r[1].units.dimensions) == oracle_dims(t2, T), frm=s1, to=s2)
            ctx.observe(f"to/{i}", got)
    return Case(f"C02/to-{tag}/{k:03d}", h, bounds=f"{len(pairs)} commensurable pairs, symbolic value and scales", budget_s=600,
                weight=6, max_paths=256)


def atomic_pairs(tier):
    """ordered pairs of table symbols sharing a dimension (offset units excluded), prefixable ones also with a prefix"""
    T = tables()
    rng = random.Random(SEED + 2)
    groups = {}
    for sym, row in T.rows.items():
        if row[2] != 0 or row[0] <= 0:
            continue
        groups.setdefault(str(sorted(dimvec(row[1]).items())), []).append(sym)

    def atom(sym):
        if sym in T.prefixable and rng.random() < 0.6:
            p = rng.choice(PREFIX_SYMS)
            return Atom(p + sym, PREFIX[p], sym)
        return Atom(sym, 1.0, sym)
    out = []
    for g in groups.values():
        if tier == "thorough":
            prs = [(a, b) for a in g for b in g if a != b]
            prs += [(a, a) for a in g if a in T.prefixable]
        else:
            prs = [(g[i], g[(i + 1) % len(g)]) for i in range(len(g))] if len(g) > 1 else []
            prs += [(g[i], g[(i + 3) % len(g)]) for i in range(len(g))] if len(g) > 4 else []
            prs += [(a, a) for a in g if a in T.prefixable][:2]
        for a, b in prs:
            out.append((("atom", atom(a)), ("atom", atom(b))))
    return [p for p in out if p[0][1].name != p[1][1].name]


# ------------------------------------------------------------------------------------------------ history axis: edited registries

EDIT_OPS = ["modify", "add", "readd"]


def edit_symbol(ctx, reg, S, sym, tag, op, name=None):
    """The registry's definition of `sym` is replaced THROUGH THE PUBLIC EDITING CALLS by a fresh scale (a new solver symbol):
      modify   reg.modify(sym, new)
      add      reg.add(sym, new, dims, ...) over the existing row
      readd    reg.remove(sym) [a spelling `name` that has no other reading must now be refused], then reg.add(sym, new, dims, ...)
    S[sym] is updated to what the registry's table now says by definition."""
    row = reg.lut[sym]
    new = ctx.real(f"t:{tag}", pos=True)
    if op == "modify":
        reg.modify(sym, new)
    elif op == "add":
        reg.add(sym, new, row[1], tex_repr=row[3], offset=float(row[2]), prefixable=row[4])
    elif op == "readd":
        reg.remove(sym)
        if name is not None:
            T = tables()
            other = [r for r in readings(name, T) if r[2] != sym]
            if not other:       # no reading of this spelling survives the removal: no definition implies any scale
                r = call(ctx.mods["unyt"].Unit, name, registry=reg)
                ctx.require(f"removed symbol is refused under every spelling/{label_of(name, T)}", r[0] == "raise", name=name, removed=sym,
                            got=str(r[1])[:80])
        reg.add(sym, new, row[1], tex_repr=row[3], offset=float(row[2]), prefixable=row[4])
    else:
        raise KeyError(op)
    S[sym] = new
    return new


def make_names_edited_case(op, k, chunk, n_base=None):
    """history axis for names: every spelling is requested (so whatever unyt memoises per spelling exists), THEN the definition of
    its canonical symbol is edited (one symbol at a time: an edit of all symbols at once would hide a cache that is dropped
    per symbol), then the same spelling - alone and squared - must follow the registry's new definition"""
    def h(ctx):
        Unit = ctx.mods["unyt"].Unit
        T = tables()
        reg, S = sym_registry(ctx)
        pool = {a.name for a in atom_pool(ctx.mods)}
        for name in chunk:                                      # ordinary use before any edit
            call(Unit, name, registry=reg)
        n_ok = 0
        for i, name in enumerate(chunk):
            exp = expected(name, T)
            if exp is None or exp[1] == "dimensionless" or T.rows[exp[1]][0] <= 0:
                continue
            pv, sym = exp
            r0 = call(Unit, name, registry=reg)                 # (again, right before the edit: earlier edits may have emptied the memo)
            if r0[0] == "raise":
                continue
            compound = name in pool
            if compound:
                call(Unit, f"{name}**2", registry=reg)
            edit_symbol(ctx, reg, S, sym, f"{i}", op, name=name)
            r = call(Unit, name, registry=reg)
            if r[0] == "raise":
                ctx.require(f"edited name still accepted/{label_of(name, T)}", False, name=name, op=op, exc=str(r[1])[:120])
                continue
            E = oracle_var(ctx, f"e:{i}", S[sym] * pv)
            ok = unit_ok(ctx, r[1], E, T, exp)
            if compound:
                r2 = call(Unit, f"{name}**2", registry=reg)
                ok = And(ok, r2[0] == "ok" and close(r2[1].base_value, E * E))
            # one obligation per spelling (scale, dimensions, offset of the name; scale of its square). Conversions after an edit
            # are C02/to-edited: they fork on unit equality, and every fork would repeat all obligations of this case
            ctx.require(f"name after {op}/{label_of(name, T)}", ok, name=name, expected=f"{pv}*new scale of {sym}")
            ctx.observe(f"edited/{name}", r[1].base_value)
            n_ok += 1
        # (vacuity guard; SI-2022 candidate names appended to the chunk are refused by a tree without them and do not count)
        ctx.require("most names of the chunk are accepted", n_ok * 2 >= (len(chunk) if n_base is None else n_base))
    return Case(f"C02/names-edited/{op}/{k:02d}", h, bounds=f"{len(chunk)} names, each requested, its symbol edited by {op}, requested again",
                budget_s=600, weight=4, max_paths=64)


def make_expr_edited_case(op, k, trees):
    """history axis for compound expressions: the string is requested, one of its constituent symbols is edited, the string is
    requested again (string route) and rebuilt with operators from freshly requested atoms"""
    def h(ctx):
        Unit = ctx.mods["unyt"].Unit
        T = tables()
        reg, S = sym_registry(ctx)
        for i, t in enumerate(trees):
            s = render(t)
            if call(Unit, s, registry=reg)[0] == "raise":
                continue        # 'parses' is an obligation of C02/expr
            ats = atoms_of(t)
            for a in ats:
                call(Unit, a.name, registry=reg)
            a = ats[(k + i) % len(ats)]
            edit_symbol(ctx, reg, S, a.sym, f"{i}", op)
            r = call(Unit, s, registry=reg)
            if r[0] == "raise":
                ctx.require(f"edited expression still accepted/{k}.{i}", False, expr=s, exc=str(r[1])[:120])
                continue
            E = oracle_var(ctx, f"e:{i}", oracle_scale(t, S))
            ctx.require(f"compound scale after {op} (string)/{k}.{i}", close(r[1].base_value, E), expr=s, edited=a.sym)
            ctx.require(f"compound dimensions after {op} (string)/{k}.{i}", dimvec(r[1].dimensions) == oracle_dims(t, T), expr=s)
            ctx.observe(f"expr/{i}", r[1].base_value)
            if operator_route_ok(t):
                ro = call(structural, t, {b.name: Unit(b.name, registry=reg) for b in ats})
                if ro[0] == "ok":
                    E2 = oracle_var(ctx, f"o:{i}", struct_scale(t, S))
                    ctx.require(f"compound scale after {op} (operators)/{k}.{i}", close(ro[1].base_value, E2), expr=s, edited=a.sym)
    return Case(f"C02/expr-edited/{op}/{k:03d}", h, bounds=f"{len(trees)} generated expressions, one constituent symbol edited by {op}",
                budget_s=600, weight=4, max_paths=64)


def make_to_edited_case(op, tag, k, pairs):
    """history axis for conversions: x.to(u2) is done once, a constituent symbol of u1 or u2 is edited, a NEW quantity (same unit
    string) is converted again: x * scale(u1)/scale(u2) with the registry's new definitions"""
    def h(ctx):
        Unit = ctx.mods["unyt"].Unit
        reg, S = sym_registry(ctx)
        for i, (t1, t2) in enumerate(pairs):
            s1, s2 = render(t1), render(t2)
            x = ctx.real(f"x{i}")
            call(Unit, s1, registry=reg)
            call(Unit, s2, registry=reg)
            with ctx.warmup(f"pre{i}!"):
                r0 = call(ctx.quantity(ctx.real("x"), s1, reg).to, s2)
            if r0[0] == "raise":
                continue
            ats = atoms_of(t2) + atoms_of(t1)
            a = ats[(k + i) % len(ats)]
            edit_symbol(ctx, reg, S, a.sym, f"{i}", op)
            r = call(ctx.quantity(x, s1, reg).to, s2)
            if r[0] == "raise":
                ctx.require(f"converts after {op}/{tag}.{k}.{i}", False, frm=s1, to=s2, exc=str(r[1])[:120])
                continue
            E = oracle_var(ctx, f"e:{i}", x * oracle_scale(t1, S) / oracle_scale(t2, S))
            ctx.require(f"to == x*scale1/scale2 after {op}/{tag}.{k}.{i}", close(payload(r[1])[0], E), frm=s1, to=s2, edited=a.sym)
            ctx.observe(f"to/{i}", payload(r[1])[0])
    return Case(f"C02/to-edited/{op}/{tag}-{k:03d}", h, bounds=f"{len(pairs)} commensurable pairs, one constituent symbol edited by {op}",
                budget_s=600, weight=6, max_paths=256)


# ------------------------------------------------------------------------------------------------ unit-object axis

def sym_registry_tagged(ctx, tag, unit_system=None):
    """a SECOND registry with the rows of the default table and its own, independent scale symbols `<tag>:<sym>` (the same
    spelling denotes a differently defined unit there, as `code_length` does in every yt dataset)"""
    T = tables()
    lut, S = {}, {}
    for sym, (val, dims, off, tex, pref) in T.rows.items():
        if val > 0 and sym != "dimensionless":
            s = ctx.real(f"{tag}:{sym}", pos=True)
            if not ctx.symbolic:
                s = float(s)
        else:
            s = val
        S[sym] = s
        lut[sym] = (s, dims, off, tex, pref)
    kw = {"unit_system": unit_system} if unit_system else {}
    return ctx.mods["UR"].UnitRegistry(add_default_symbols=False, lut=lut, **kw), S


# where the OBJECT comes from x which spelling it has relative to the unit of the data
OBJECT_KINDS = ["same", "foreign", "foreign-same-spelling", "stale", "stale-same-spelling", "stale-source", "stale-source-same-spelling"]
OBJECT_ENTRIES = ["to", "in_units", "convert_to_units", "to_value", "factor", "add", "unit-ctor"]


def make_object_case(kind, entry, k, pairs, op):
    """unit-OBJECT axis: a Unit object carries its own scale (that of the registry and the moment it was made in). The pair
    (unit of the data, unit asked for) is walked over: object of the same registry / of a second registry whose symbols have other
    (independent, symbolic) scales / made before an edit of a constituent symbol; with another spelling and with the SAME spelling
    as the data's unit (equal expressions, different scales); at every entry point that accepts a Unit object."""
    def h(ctx):
        unyt = ctx.mods["unyt"]
        Unit = unyt.Unit
        T = tables()
        reg, S = sym_registry(ctx)
        if kind.startswith("foreign"):
            reg2, S2 = sym_registry_tagged(ctx, "f")
        for i, (t1, t2) in enumerate(pairs):
            lab = f"{k}.{i}"
            same_spelling = kind.endswith("same-spelling")
            tt = t1 if same_spelling else t2                       # the tree of the unit asked for
            s1, s2 = render(t1), render(tt)
            x = ctx.real(f"x{i}")
            if kind == "same":
                src = ctx.quantity(x, s1, reg)
                E1 = oracle_scale(t1, S)
                target = Unit(s2, registry=reg)
                E2 = oracle_scale(tt, S)
            elif kind.startswith("foreign"):
                src = ctx.quantity(x, s1, reg)
                E1 = oracle_scale(t1, S)
                target = Unit(s2, registry=reg2)
                E2 = oracle_scale(tt, S2)
            elif kind.startswith("stale-source"):
                # the DATA (and its unit object) are from before the edit, the unit asked for is made after it
                src = ctx.quantity(x, s1, reg)
                E1 = oracle_scale(t1, S)
                ats = atoms_of(t1)
                edit_symbol(ctx, reg, S, ats[(k + i) % len(ats)].sym, f"{i}", op)
                target = Unit(s2, registry=reg)
                E2 = oracle_scale(tt, S)
            else:
                # the unit object asked for is from before the edit, the data are made after it
                target = Unit(s2, registry=reg)
                E2 = oracle_scale(tt, S)
                ats = atoms_of(tt)
                edit_symbol(ctx, reg, S, ats[(k + i) % len(ats)].sym, f"{i}", op)
                src = ctx.quantity(x, s1, reg)
                E1 = oracle_scale(t1, S)
            Eu = oracle_var(ctx, f"u:{i}", E2)
            Ex = oracle_var(ctx, f"e:{i}", x * E1 / E2)
            info = dict(frm=s1, to=s2, kind=kind)
            ctx.require(f"the unit object reports the scale of its own definition/{lab}", close(target.base_value, Eu), **info)
            if entry in ("to", "in_units", "to_value"):
                r = call(getattr(src, entry), target)
                ctx.require(f"x.{entry}(Unit object) == x*scale1/scale2/{lab}", r[0] == "ok" and close(payload(r[1])[0], Ex), got=str(r[1])[:80], **info)
                if r[0] == "ok" and entry != "to_value":
                    ctx.require(f"x.{entry}(Unit object) is labelled with a unit of scale2/{lab}", close(r[1].units.base_value, Eu), **info)
                if r[0] == "ok":
                    ctx.observe(f"{entry}/{i}", payload(r[1])[0])
            elif entry == "convert_to_units":
                r = call(src.convert_to_units, target)
                ctx.require(f"x.convert_to_units(Unit object) == x*scale1/scale2/{lab}", r[0] == "ok" and close(payload(src)[0], Ex),
                            got=str(r[1])[:80], **info)
                if r[0] == "ok":
                    ctx.require(f"x.convert_to_units(Unit object) is labelled with a unit of scale2/{lab}", close(src.units.base_value, Eu), **info)
                    ctx.observe(f"{entry}/{i}", payload(src)[0])
            elif entry == "factor":
                r = call(src.units.get_conversion_factor, target)
                Ef = oracle_var(ctx, f"f:{i}", E1 / E2)
                ctx.require(f"u1.get_conversion_factor(Unit object) == scale1/scale2, no offset/{lab}",
                            r[0] == "ok" and And(close(r[1][0], Ef), r[1][1] is None or r[1][1] == 0), got=str(r[1])[:80], **info)
                if r[0] == "ok":
                    ctx.observe(f"{entry}/{i}", r[1][0])
            elif entry == "add":
                y = ctx.real(f"y{i}")
                other = ctx.quantity(y, target)
                r = call(lambda: src + other)
                ok = r[0] == "ok"
                if ok:
                    got_si = payload(r[1])[0] * r[1].units.base_value
                    ok = close(got_si, x * E1 + y * E2, extra=band(x * E1, y * E2))
                    ok = And(ok, Or(close(r[1].units.base_value, E1), close(r[1].units.base_value, Eu)))
                ctx.require(f"x + y (y in the Unit object): SI magnitude x*scale1 + y*scale2/{lab}", ok, got=str(r[1])[:80], **info)
                if r[0] == "ok":
                    ctx.observe(f"{entry}/{i}", payload(r[1])[0])
            elif entry == "unit-ctor":
                # data constructed WITH the object, then expressed in the data's unit given as a string of its registry
                made = call(unyt.unyt_quantity, obj0_of(ctx, x), target)
                ok = made[0] == "ok"
                if ok:
                    ok = close(made[1].units.base_value, Eu)
                    back = call(made[1].to, src.units)
                    ok = And(ok, back[0] == "ok" and close(payload(back[1])[0], oracle_var(ctx, f"b:{i}", x * E2 / E1)))
                ctx.require(f"unyt_quantity(x, Unit object).to(unit of the other kind) == x*scale2/scale1/{lab}", ok, got=str(made[1])[:80], **info)
            else:
                raise KeyError(entry)
    return Case(f"C02/object/{kind}/{entry}/{k:03d}", h, bounds=f"{len(pairs)} commensurable pairs, the unit asked for is a Unit object ({kind})",
                budget_s=600, weight=5, max_paths=256)


def obj0_of(ctx, x):
    if ctx.symbolic:
        from symx.core import obj0
        return obj0(x)
    return x


# ------------------------------------------------------------------------------------------------ argument-form axis

def coef_name(v):
    return "xqc" + hashlib.sha1(v.t.sexpr().encode()).hexdigest()[:12]


@contextlib.contextmanager
def symbolic_coefficients(ctx, reg):
    """A unit may be handed over as a QUANTITY (Unit(q), x.to(q), unyt_array(data, q) ...): unyt multiplies the quantity's number
    into the sympy unit expression. A sympy expression cannot hold a solver term, so while this context is active a symbolic
    number entering sympy becomes a positive sympy Symbol and a dimensionless row of that name whose scale is the number is put
    into `reg` (numerals become sympy Floats, as for a float). unyt's own code decides whether/how the number enters the
    expression and computes the scale from it (Mul branch of _get_unit_data_from_expr); what is NOT exercised on this route is
    float(<sympy Number>) for the coefficient - that is the string route with numeric coefficients. No-op in concrete mode."""
    if not ctx.symbolic:
        yield
        return
    import sympy
    import z3
    from sympy.core.sympify import converter
    from symx.core import SymReal
    one = ctx.mods["unyt"].dimensions.dimensionless

    def conv(a):
        if z3.is_rational_value(z3.simplify(a.t)):
            return sympy.Float(float(Fraction(z3.simplify(a.t).as_fraction())))
        n = coef_name(a)
        reg.lut[n] = (a, one, 0.0, r"\rm{" + n + "}", False)
        return sympy.Symbol(n, positive=True)
    prev = converter.get(SymReal)
    converter[SymReal] = conv
    try:
        yield
    finally:
        if prev is None:
            converter.pop(SymReal, None)
        else:
            converter[SymReal] = prev


FORM_ENTRIES = ["Unit", "to", "in_units", "convert_to_units", "to_value", "unyt_array", "unyt_quantity", "plain", "coefficient"]
# In a unit STRING the coefficient is a sympy Number and cannot be a solver symbol: its magnitude classes are enumerated instead
# (exactly one, within 1e-5 / 1e-10 of one, tiny, huge, many digits, negative exponent notation)
COEF_CLASSES = ["1", "1.0", "1.000004", "0.99999", "1.0000000001", "1e-30", "6.02214076e+23", "123456789.125", "0.001"]


def make_form_case(entry, k, pairs):
    """argument-form axis: the unit expression u2 is not given as a string but as a quantity v*u2 (v a solver symbol, all v > 0),
    at every entry point that takes a unit; 'plain' = the other non-string forms (bytes, Unit object, Unit of another registry,
    sympy expression). The unit meant is v*u2: scale v*scale(u2), and x.to(it) = x*scale(u1)/(v*scale(u2))."""
    def h(ctx):
        unyt = ctx.mods["unyt"]
        Unit = unyt.Unit
        T = tables()
        reg, S = sym_registry(ctx)
        with symbolic_coefficients(ctx, reg):
            for i, (t1, t2) in enumerate(pairs):
                s1, s2 = render(t1), render(t2)
                E1, E2 = oracle_scale(t1, S), oracle_scale(t2, S)
                lab = f"{k}.{i}"
                if entry == "plain":
                    forms = {"bytes": lambda: Unit(s2.encode("utf-8"), registry=reg),
                             "Unit object": lambda: Unit(Unit(s2, registry=reg), registry=reg),
                             "Unit of another registry": lambda: Unit(Unit(s2), registry=reg),
                             "sympy expression": lambda: Unit(Unit(s2, registry=reg).expr, registry=reg)}
                    E = oracle_var(ctx, f"e:{i}", E2)
                    for fname, f in forms.items():
                        r = call(f)
                        ctx.require(f"scale of a unit given as {fname}/{lab}", r[0] == "ok" and close(r[1].base_value, E), expr=s2,
                                    got=str(r[1])[:80])
                        if r[0] == "ok":
                            ctx.require(f"dimensions of a unit given as {fname}/{lab}", dimvec(r[1].dimensions) == oracle_dims(t2, T), expr=s2)
                    continue
                if entry == "coefficient":
                    for c in COEF_CLASSES:
                        for shape, txt, val in (("c*(u)", f"{c}*({s2})", float(c) * E2), ("(u)/c", f"({s2})/{c}", E2 / float(c))):
                            r = call(Unit, txt, registry=reg)
                            ctx.require(f"scale of {shape} in a string, c={c}/{lab}", r[0] == "ok" and close(r[1].base_value, val), expr=txt,
                                        got=str(r[1])[:80])
                    continue
                v = ctx.real(f"v{i}", pos=True)
                q = ctx.quantity(v, s2, reg)                      # the unit handed over: v*u2
                x = ctx.real(f"x{i}")
                Eu = oracle_var(ctx, f"u:{i}", v * E2)
                Ex = oracle_var(ctx, f"e:{i}", x * E1 / (v * E2))
                info = dict(unit=f"v*({s2})", frm=s1)
                if entry == "Unit":
                    r = call(Unit, q, registry=reg)
                    ctx.require(f"scale of Unit(quantity)/{lab}", r[0] == "ok" and close(r[1].base_value, Eu), got=str(r[1])[:80], **info)
                    if r[0] == "ok":
                        ctx.require(f"dimensions of Unit(quantity)/{lab}", dimvec(r[1].dimensions) == oracle_dims(t2, T), **info)
                        ctx.observe(f"unitq/{i}", r[1].base_value)
                elif entry in ("to", "in_units", "to_value"):
                    src = ctx.quantity(x, s1, reg)
                    r = call(getattr(src, entry), q)
                    ctx.require(f"x.{entry}(quantity) == x*scale1/(v*scale2)/{lab}", r[0] == "ok" and close(payload(r[1])[0], Ex),
                                got=str(r[1])[:80], **info)
                    if r[0] == "ok" and entry != "to_value":
                        ctx.require(f"x.{entry}(quantity) is labelled with a unit of scale v*scale2/{lab}", close(r[1].units.base_value, Eu), **info)
                    if r[0] == "ok":
                        ctx.observe(f"{entry}/{i}", payload(r[1])[0])
                elif entry == "convert_to_units":
                    src = ctx.quantity(x, s1, reg)
                    r = call(src.convert_to_units, q)
                    ctx.require(f"x.convert_to_units(quantity) == x*scale1/(v*scale2)/{lab}", r[0] == "ok" and close(payload(src)[0], Ex),
                                got=str(r[1])[:80], **info)
                    if r[0] == "ok":
                        ctx.require(f"x.convert_to_units(quantity) is labelled with a unit of scale v*scale2/{lab}",
                                    close(src.units.base_value, Eu), **info)
                        ctx.observe(f"{entry}/{i}", payload(src)[0])
                else:
                    ctor = getattr(unyt, entry)
                    data = x if entry == "unyt_quantity" else ctx.reals(f"x{i}", (1,))
                    if ctx.symbolic and entry == "unyt_quantity":
                        from symx.core import obj0
                        data = obj0(x)
                    r = call(ctor, data, q, registry=reg)
                    ctx.require(f"{entry}(data, quantity) carries a unit of scale v*scale2/{lab}", r[0] == "ok" and close(r[1].units.base_value, Eu),
                                got=str(r[1])[:80], **info)
                    if r[0] == "ok":
                        back = call(r[1].to, s2)
                        x0 = x if entry == "unyt_quantity" else data[0]
                        ctx.require(f"{entry}(data, quantity) in the plain unit == v*x/{lab}", back[0] == "ok" and close(payload(back[1])[0], x0 * v), **info)
                        ctx.observe(f"{entry}/{i}", r[1].units.base_value)
    return Case(f"C02/form/{entry}/{k:03d}", h, bounds=f"{len(pairs)} unit expressions handed over as quantities with symbolic coefficient / non-string forms",
                budget_s=600, weight=4, max_paths=256)


# ------------------------------------------------------------------------------------------------ route axis: loaded registries

# How a definition ENTERS a registry. Rows: (name, CGS/own scale key, powers of mass, length, time, other base dimension, prefixable)
_H = Fraction(1, 2)
ROUTE_ROWS = [
    # custom symbols (what yt wrote into every dataset): integer, negative and half-integer powers, Gaussian EM, SI EM, none
    ("xrl", 1, 0, 1, 0, None), ("xrm", 1, 1, 0, 0, None), ("xrt", 1, 0, 0, 1, None), ("xrd", 1, 1, -3, 0, None),
    ("xrp", 1, 1, -1, -2, None), ("xrv", 1, 0, 1, -1, None), ("xrn", 1, 0, -2, 0, None), ("xrk", 1, -1, 0, 2, None),
    ("xrb", 1, _H, -_H, -1, None), ("xrq", 1, _H, 3 * _H, -1, None), ("xri", 1, _H, 3 * _H, -2, None), ("xre", 1, -_H, -3 * _H, 1, None),
    ("xrw", 1, 3 * _H, _H, -2, None), ("xrh", 1, 0, 2, 0, "temperature"), ("xra", 1, 0, 1, 0, "current_mks"), ("xrj", 1, 1, 0, -1, "current_mks"),
    ("xrz", 1, 0, 0, 0, None),
    # symbols unyt defines itself, as an old file carries them (the row of the FILE is their definition in the restored registry)
    ("g", 0, 1, 0, 0, None), ("s", 0, 0, 0, 1, None), ("m", 0, 0, 1, 0, None), ("Msun", 0, 1, 0, 0, None), ("erg", 0, 1, 2, -2, None),
    ("dyn", 0, 1, 1, -2, None), ("G", 0, _H, -_H, -1, None), ("statC", 0, _H, 3 * _H, -1, None), ("K", 0, 0, 0, 0, "temperature"),
    ("A", 0, 0, 0, 0, "current_mks"), ("pc", 0, 0, 1, 0, None),
]
ROUTE_CONCRETE = {"xrl": 1.4065766789943524e26, "xrm": 7.032854288130045e48, "xrt": 1885954521538155.5, "xrd": 2.527210293640965e-30,
                  "xrp": 1.4057425005421192e-08, "xrv": 1462385995.556577, "xrn": 3.25e-11, "xrk": 4.5e7, "xrb": 8.24114664867782e-06,
                  "xrq": 4.803e-10, "xri": 2.75e3, "xre": 6.5e-4, "xrw": 12.5, "xrh": 7.0, "xra": 0.125, "xrj": 3.0e5, "xrz": 2.5,
                  "g": 1.0, "s": 1.0, "m": 100.0, "Msun": 1.98841586e33, "erg": 1.0, "dyn": 1.0, "G": 1.0, "statC": 1.0, "K": 1.0, "A": 1.0,
                  "pc": 3.0856775809623245e18}
ROUTES = ["json-text", "json-parsed", "table", "setstate", "pickle", "lut"]
ROUTE_FORMATS = {"json-text": ("old", "new"), "json-parsed": ("old", "new"), "table": ("old", "new"), "setstate": ("old", "old2", "new"),
                 "pickle": ("old", "old2", "new"), "lut": ("new", "new-nodefaults")}
ROUTE_SYMBOLIC = {"json-parsed", "table", "setstate", "lut"}       # text and byte streams cannot carry solver terms: GROUND there
SQRT10 = 3.1622776601683795


def cgs_to_si(s, pm, pl):
    """independent oracle: a value in g**pm cm**pl ... expressed in kg**pm m**pl ... is s / 10**(3 pm + 2 pl)"""
    k = 3 * Fraction(pm) + 2 * Fraction(pl)
    if k.denominator == 1:
        return s / 10.0 ** int(k) if k >= 0 else s * 10.0 ** int(-k)
    w = int(k - _H)
    return (s / 10.0 ** w if w >= 0 else s * 10.0 ** (-w)) / SQRT10


def route_dims(D, pm, pl, pt, other, fresh=False):
    import sympy
    def base(n):
        return sympy.Symbol(f"({n})", positive=True) if fresh else getattr(D, n)
    d = sympy.Integer(1)
    for n, e in (("mass", pm), ("length", pl), ("time", pt)) + (((other, 1),) if other else ()):
        e = Fraction(e)
        if e:
            d = d * base(n) ** sympy.Rational(e.numerator, e.denominator)
    return d


def route_vec(pm, pl, pt, other):
    v = {"(mass)": Fraction(pm), "(length)": Fraction(pl), "(time)": Fraction(pt)}
    if other:
        v[f"({other})"] = Fraction(1)
    return {k: e for k, e in v.items() if e}


def ref_string(pm, pl, pt, other, names):
    """the same dimension spelled with the registry's base symbols, e.g. kg**(1/2)*m**(-1/2)*s**(-1)"""
    parts = []
    for n, e in zip(names, (pm, pl, pt)):
        e = Fraction(e)
        if e:
            parts.append(f"{n}**({e.numerator}/{e.denominator})" if e.denominator != 1 else f"{n}**({e.numerator})")
    if other:
        parts.append({"temperature": "K", "current_mks": "A"}[other])
    return "*".join(parts) if parts else "dimensionless"


def make_route_case(route, fmt, part, rows, conv=None, tag=""):
    """ROUTE axis: the definitions enter the registry by LOADING - UnitRegistry.from_json of text (current 5-field rows / OLD 4-field rows
    whose values are in CGS base units), the body of from_json on parsed rows, _correct_old_unit_registry on a table dict, the unpickling
    protocol of an array (state built by the real __reduce__, restored by the real __setstate__, with and without a byte stream), and
    UnitRegistry(lut=...). Then the usual obligations on every symbol of the file."""
    old = fmt.startswith("old")
    symbolic_route = route in ROUTE_SYMBOLIC

    def h(ctx):
        import json
        import pickle
        unyt = ctx.mods["unyt"]
        UR = ctx.mods["UR"]
        D = unyt.dimensions
        Unit = unyt.Unit
        from unyt._unit_lookup_table import default_unit_symbol_lut as dflt
        own_pref = {n: dflt[n][4] for n, *_ in ROUTE_ROWS if n in dflt}
        # ---- the file: one row per symbol; value symbolic where the route can carry a solver term
        S, data, E, pref = {}, {}, {}, {}
        for j, (n, custom, pm, pl, pt, other) in enumerate(rows):
            if symbolic_route:
                v = ctx.real(f"v:{n}", pos=True)
                if not ctx.symbolic:
                    v = float(v)
            else:
                v = ROUTE_CONCRETE[n]
            S[n] = v
            if route in ("json-text", "json-parsed"):
                dims = str(route_dims(D, pm, pl, pt, other))
            else:
                dims = route_dims(D, pm, pl, pt, other, fresh=(j % 2 == 1))
            tex = r"\rm{" + n + "}"
            if old:
                data[n] = [v, dims, 0.0, tex]
                E[n] = cgs_to_si(v, pm, pl)                       # the row's value is in CGS base units
                pref[n] = own_pref.get(n, False)
            else:
                pref[n] = bool(custom) and j % 3 != 2
                if not custom:
                    pref[n] = own_pref[n]
                data[n] = [v, dims, 0.0, tex, pref[n]]
                E[n] = v                                          # the row's value is the SI scale
        # ---- the route
        x0 = ctx.real("x0")
        restored_q = None
        if route == "json-text":
            r = call(UR.UnitRegistry.from_json, json.dumps(data))
        elif route == "json-parsed":
            r = call(lambda: UR.UnitRegistry(lut=UR._correct_old_unit_registry(data, sympify=True), add_default_symbols=False))
        elif route == "table":
            r = call(lambda: UR.UnitRegistry(lut=UR._correct_old_unit_registry(data), add_default_symbols=False))
        elif route == "lut":
            lut = {n: tuple(v) for n, v in data.items()}
            r = call(lambda: UR.UnitRegistry(lut=lut, add_default_symbols=(fmt == "new")))
        else:
            first = rows[0][0]
            lut = {n: tuple(v) for n, v in data.items()}
            if not old:
                for n, v in dflt.items():
                    lut.setdefault(n, v)
            if route == "setstate":
                q0 = ctx.quantity(x0, "s")
            else:
                q0 = unyt.unyt_quantity(2.5, "s")
            red = q0.__reduce__()                                  # the real reduction; only the unit metadata is replaced
            meta = (first, lut) if fmt == "old2" else (first, lut, "mks" if fmt == "new" else "cgs")
            state = (meta,) + tuple(red[2][1:])

            def restore():
                if route == "pickle":
                    class Old:
                        def __reduce__(self):
                            return (red[0], red[1], state)
                    return pickle.loads(pickle.dumps(Old()))
                obj = red[0](*red[1])
                obj.__setstate__(state)
                return obj
            r = call(restore)
            if r[0] == "ok":
                restored_q = r[1]
                r = ("ok", restored_q.units.registry)
        if r[0] == "raise":
            ctx.require(f"registry restored/{route}/{fmt}", False, exc=type(r[1]).__name__, msg=str(r[1])[:160])
            return
        R = r[1]
        if restored_q is not None:
            n = rows[0][0]
            xv = x0 if route == "setstate" else 2.5
            ctx.require(f"restored array: value and unit scale/{route}/{fmt}",
                        And(close(payload(restored_q)[0], xv), close(restored_q.units.base_value, E[n])), unit=n)
        base = ("kg", "m", "s")
        for n, custom, pm, pl, pt, other in rows:
            info = dict(symbol=n, route=route, format=fmt, row=str(data[n][:2]))
            ru = call(Unit, n, registry=R)
            if ru[0] == "raise":
                ctx.require(f"restored symbol accepted/{n}", False, exc=str(ru[1])[:120], **info)
                continue
            u = ru[1]
            Eu = oracle_var(ctx, f"e:{n}", E[n])
            ctx.require(f"scale of a restored symbol == its row ({'CGS value / (1000**p_mass * 100**p_length)' if old else 'SI value'})/{n}",
                        close(u.base_value, Eu), got=str(u.base_value)[:60], **info)
            ctx.require(f"dimensions of a restored symbol/{n}", dimvec(u.dimensions) == route_vec(pm, pl, pt, other), got=str(u.dimensions), **info)
            ctx.observe(f"route/{n}", u.base_value)
            rk = call(Unit, "k" + n, registry=R)
            if pref[n]:
                ctx.require(f"prefixed spelling of a restored symbol/{n}", rk[0] == "ok" and close(rk[1].base_value, 1000 * Eu), got=str(rk[1])[:80], **info)
            elif rk[0] == "ok" and n != "g":
                ctx.require(f"prefixed spelling of a restored symbol (accepted although not prefixable)/{n}", close(rk[1].base_value, 1000 * Eu), **info)
            first = rows[0][0]
            rc = call(Unit, f"{n}**2/{first}", registry=R)
            ctx.require(f"compound spelling of a restored symbol/{n}", rc[0] == "ok" and close(rc[1].base_value, oracle_var(ctx, f"c:{n}", E[n] * E[n] / E[first])),
                        got=str(rc[1])[:80], **info)
            # conversions with a symbolic payload: to the same dimension spelled in SI base symbols (default rows unless the file
            # redefines them) and back from it
            scale_of = {"kg": 1000 * E["g"] if "g" in E else 1.0, "m": E.get("m", 1.0), "s": E.get("s", 1.0), "K": E.get("K", 1.0), "A": E.get("A", 1.0)}
            ref = ref_string(pm, pl, pt, other, base)
            Eref = 1.0
            for b, e in zip(base, (pm, pl, pt)):
                e = Fraction(e)
                if e:
                    Eref = Eref * (scale_of[b] ** (int(e) if e.denominator == 1 else e))
            if other:
                Eref = Eref * scale_of[{"temperature": "K", "current_mks": "A"}[other]]
            if symbolic_route and any(Fraction(e).denominator != 1 and b in ("kg", "m", "s") and (("g" if b == "kg" else b) in E)
                                      for b, e in zip(base, (pm, pl, pt))):
                continue        # root of a symbolic base scale in the reference: the scale obligations above already decide this symbol
            if (conv is not None and n not in conv) or any(b not in R for b in ("kg", "m", "s", "K", "A")):
                continue        # conversions fork on the symbolic scales: walked for a slice of the rows per case (see route_cases)
            x = ctx.real(f"x:{n}")
            rt = call(ctx.quantity(x, n, R).to, ref)
            ctx.require(f"x.to(SI spelling) == x*scale1/scale2 for a restored symbol/{n}",
                        rt[0] == "ok" and close(payload(rt[1])[0], oracle_var(ctx, f"t:{n}", x * E[n] / Eref)), to=ref, got=str(rt[1])[:80], **info)
            rb = call(ctx.quantity(x, ref, R).to, n)
            ctx.require(f"x.to(restored symbol) == x*scale1/scale2/{n}",
                        rb[0] == "ok" and close(payload(rb[1])[0], oracle_var(ctx, f"b:{n}", x * Eref / E[n])), frm=ref, got=str(rb[1])[:80], **info)
        # symbols the file does not mention get unyt's own rows
        if fmt != "new-nodefaults":
            for n, val in (("hr", 3600.0), ("km", 1000.0 * E.get("m", 1.0)), ("T", 1.0), ("J", 1.0)):
                if n in data:
                    continue
                ru = call(Unit, n, registry=R)
                ctx.require(f"symbol absent from the file has unyt's own definition/{n}", ru[0] == "ok" and close(ru[1].base_value, val), got=str(ru[1])[:60])
    return Case(f"C02/route/{route}/{fmt}/{part}{tag}", h, bounds=f"{len(rows)} rows ({'symbolic' if symbolic_route else 'concrete (GROUND)'} scales), "
                "scale / dimensions / prefixed / compound / to and from the SI spelling with symbolic payload", budget_s=600, weight=4, max_paths=128)


def route_cases(tier):
    custom = [r for r in ROUTE_ROWS if r[1]]
    own = [r for r in ROUTE_ROWS if not r[1]]
    parts = {"custom": custom, "with-own": custom[:3] + custom[8:10] + own}
    out = []
    j = 0
    for route in ROUTES:
        for fmt in ROUTE_FORMATS[route]:
            for part, rows in parts.items():
                if route == "lut" and fmt == "new" and part == "with-own":
                    continue        # UnitRegistry(lut=..., add_default_symbols=True) ADDS the default rows over the table by contract
                if route not in ROUTE_SYMBOLIC:
                    out.append(make_route_case(route, fmt, part, rows))      # concrete scales: no forks, every row converted
                    continue
                # symbolic scales: every conversion forks the path, so each case converts a slice of 2 rows (all rows get the scale /
                # dimension / prefixed / compound obligations in every case); quick walks 2 slices per case, rotating, old formats
                # starting at the half-integer rows; thorough walks every slice
                chunks = [rows[i:i + 2] for i in range(0, len(rows), 2)]
                start = (4 if fmt.startswith("old") else 0) + j
                picks = range(len(chunks)) if tier == "thorough" else sorted({start % len(chunks), (start + len(chunks) // 2) % len(chunks)})
                for c in picks:
                    out.append(make_route_case(route, fmt, part, rows, conv={r[0] for r in chunks[c]}, tag=f"/{c}"))
                j += 1
    return out


def make_table_case():
    """GROUND: every row of the current table against the independent definition table, as exact rationals"""
    def h(ctx):
        from unyt._unit_lookup_table import unit_prefixes
        T = tables()
        for sym, row in T.rows.items():
            v = float_q(row[0])
            if sym in DEFS:
                d, cls, note = DEFS[sym]
                ctx.require(f"row/{sym}", within(ctx, v, d, TOL[cls]), row=float(v), definition=float(d), cls=cls, note=note)
            elif sym in DEFS_POW:
                kk, d, cls, note = DEFS_POW[sym]
                ctx.require(f"row/{sym}", And(within(ctx, v**kk, d, kk * TOL[cls]), v > 0), row=float(v), definition=f"({float(d)})**(1/{kk})", cls=cls)
            elif sym in DEFS_BRACKET:
                lo, hi, note = DEFS_BRACKET[sym]
                ctx.require(f"row/{sym}", lo < v < hi, row=float(v), note=note)
            else:
                ctx.require(f"row/{sym}", False, why="no independent definition written for this row")
            off = OFFSETS.get(sym, Fraction(0))
            ctx.require(f"offset/{sym}", within(ctx, float_q(row[2]), off, 8 * Fraction(1, 2**52)) if off else float(row[2]) == 0.0,
                        offset=row[2], definition=float(off))
            ctx.observe(f"row/{sym}", float(v))
        words = {v: k for k, v in PREFIX_WORD.items()}
        words.update({"µ": "micro", "μ": "micro"})
        for p, (val, word) in unit_prefixes.items():
            ref, rword = (PREFIX[p], words.get(p)) if p in PREFIX else SI_2022.get(p, (None, None))
            ctx.require(f"prefix/{p}", ref is not None and within(ctx, float_q(val), float_q(ref), 0), value=val, si=ref)
            ctx.require(f"prefix word/{p}", ref is not None and word == rword, word=word, si=rword)
        ctx.require("prefix table complete", set(PREFIX) <= set(unit_prefixes))
    return Case("C02/table/rows", h, bounds="145 rows + offsets + 22 prefixes, exact rationals (ground)")


DEFINE_SYSTEMS = ["mks", "cgs", "imperial", "galactic", "solar", "geometrized", "planck"]
DEFINE_FORMS = [  # (tag, defining unit expression, oracle scale over (sa, sb, table), dimension vector builder)
    ("atom", "xda"), ("compound", "xda/xdb**2"), ("prefixed", "kxda*xdb"), ("table", "mile/hr"), ("mixed", "xda*g/s**2"),
]


def make_define_case(system, form, how):
    """define_unit(symbol, definition, registry=reg): the new symbol's SI scale and dimension are those of its definition,
    whatever unit system the registry prefers; with prefixable=True its SI-prefixed forms scale by exactly the prefix"""
    tag, expr = form

    def h(ctx):
        unyt = ctx.mods["unyt"]
        D = unyt.dimensions
        sa, sb, v = ctx.real("sa", pos=True), ctx.real("sb", pos=True), ctx.real("v", pos=True)
        reg = ctx.registry([dict(name="xda", dims=D.length, scale=sa, prefixable=True), dict(name="xdb", dims=D.time, scale=sb)],
                           unit_system=system)
        lut = reg.lut
        table = {"atom": (sa, D.length), "compound": (sa / (sb * sb), D.length / D.time**2), "prefixed": (1000 * sa * sb, D.length * D.time),
                 "table": (lut["mile"][0] / lut["hr"][0], D.length / D.time), "mixed": (sa * lut["g"][0], D.length * D.mass / D.time**2)}
        s_def, dims = table[tag]
        if how == "tuple":
            value = (v, expr)
        else:
            value = ctx.quantity(v, expr, reg)
        r = call(unyt.define_unit, "xdnew", value, prefixable=True, registry=reg)
        if r[0] == "raise":
            ctx.require("define_unit accepts the definition", False, exc=type(r[1]).__name__, msg=str(r[1])[:160])
            return
        u = unyt.Unit("xdnew", registry=reg)
        ctx.require("defined scale == value * scale(definition)", close(u.base_value, v * s_def), expr=expr, system=system)
        ctx.require("defined dimensions", dimvec(u.dimensions) == dimvec(dims), expr=expr)
        ku = unyt.Unit("mxdnew", registry=reg)
        ctx.require("prefixed form of the defined unit", close(ku.base_value, v * s_def / 1000), expr=expr, system=system)
        x = ctx.real("x")
        q = ctx.quantity(x, "xdnew**2/xdb", reg)
        got = payload(q.to(f"({expr})**2/s"))[0]
        ctx.require("conversion from a compound of the defined unit", close(got, x * v * v / sb * lut["s"][0]), expr=expr, system=system)
        ctx.observe("scale", u.base_value)
    return Case(f"C02/define/{system}/{tag}/{how}", h, bounds="define_unit with symbolic value and symbolic scales of the defining units",
                budget_s=300, weight=2, max_paths=64)


def cases(tier, mods):
    from unyt._unit_lookup_table import inv_name_alternatives
    from .common import check_names
    check_names(mods, ["xda", "xdb", "xdnew"] + [r[0] for r in ROUTE_ROWS if r[1]])
    out = [make_table_case()] + route_cases(tier)
    for si, system in enumerate(DEFINE_SYSTEMS):
        for fi, form in enumerate(DEFINE_FORMS):
            for how in ("tuple", "quantity"):
                if tier == "thorough" or system in ("mks", "cgs") or (si + fi) % 3 == 0:
                    out.append(make_define_case(system, form, how))
    names = list(inv_name_alternatives)
    T = tables()
    names += [p + s for p in PREFIX_SYMS for s in T.syms if s in T.prefixable and p + s not in inv_name_alternatives]
    have = set(names)
    extra = [p + s for p in SI_2022 for s in T.syms if s in T.prefixable and p + s not in have]        # refused by a tree without them

    def chunked(size):
        """chunks of the name universe as before, the SI-2022 candidates dealt out over them (appended)"""
        chunks = [names[k:k + size] for k in range(0, len(names), size)]
        sizes = [len(c) for c in chunks]
        for j, n in enumerate(extra):
            chunks[j % len(chunks)].append(n)
        return list(zip(chunks, sizes))
    for k, (chunk, nb) in enumerate(chunked(CHUNK)):
        out.append(make_names_case(k, chunk, nb))
    n_expr, n_pairs, per_e, per_p, mf = (400, 160, 8, 2, 4) if tier == "quick" else (6000, 2000, 10, 2, 5)
    trees = gen_expressions(mods, n_expr, max_factors=mf)
    for k in range(0, len(trees), per_e):
        out.append(make_expr_case(k // per_e, trees[k:k + per_e]))
    pairs = gen_pairs(mods, n_pairs, max_factors=mf)
    for k in range(0, len(pairs), per_p):
        out.append(make_to_case("compound", k // per_p, pairs[k:k + per_p]))
    ap = atomic_pairs(tier)
    for k in range(0, len(ap), 3):
        out.append(make_to_case("atomic", k // 3, ap[k:k + 3]))
    # history axis: the same three families after an edit of the registry (every name x every editing call; a slice of the
    # generated expressions and pairs, editing call rotating)
    for k, (chunk, nb) in enumerate(chunked(CHUNK_EDITED)):
        for op in EDIT_OPS:
            out.append(make_names_edited_case(op, k, chunk, nb))
    step_e, step_p = (3, 4) if tier == "quick" else (4, 8)
    for j, k in enumerate(range(0, len(trees), per_e * step_e)):
        out.append(make_expr_edited_case(EDIT_OPS[j % len(EDIT_OPS)], k // per_e, trees[k:k + per_e]))
    for j, k in enumerate(range(0, len(pairs), per_p * step_p)):
        out.append(make_to_edited_case(EDIT_OPS[j % len(EDIT_OPS)], "compound", k // per_p, pairs[k:k + per_p]))
    for j, k in enumerate(range(0, len(ap), 3 * step_p)):
        out.append(make_to_edited_case(EDIT_OPS[(j + 1) % len(EDIT_OPS)], "atomic", k // 3, ap[k:k + 2]))
    # argument-form axis: the unit handed over as a quantity with symbolic coefficient / as bytes, Unit, sympy expression
    n_form = 6 if tier == "quick" else 24
    fp = pairs[1::max(1, len(pairs) // (2 * n_form))][:2 * n_form] + ap[2::max(1, len(ap) // (2 * n_form))][:2 * n_form]
    for entry in FORM_ENTRIES:
        for k in range(0, len(fp), 2):
            out.append(make_form_case(entry, k // 2, fp[k:k + 2]))
    # unit-object axis: the unit asked for is a Unit OBJECT (same registry / second registry with independent symbolic scales /
    # made before an edit), spelled differently from or exactly like the unit of the data
    n_obj = 1 if tier == "quick" else 4
    op_pairs = pairs[3::max(1, len(pairs) // (2 * n_obj))][:2 * n_obj] + ap[5::max(1, len(ap) // (2 * n_obj))][:2 * n_obj]
    chunks = [op_pairs[k:k + 2] for k in range(0, len(op_pairs), 2)]
    per = 1 if tier == "quick" else 3            # chunks per (kind, entry) combination, rotating over the chunks
    j = 0
    for kind in OBJECT_KINDS:
        for entry in OBJECT_ENTRIES:
            for c in range(per):
                k = (j + c) % len(chunks)
                out.append(make_object_case(kind, entry, k, chunks[k], EDIT_OPS[(j + c) % len(EDIT_OPS)]))
            j += 1
    return out


def coverage_extra(results, tier):
    by = {}
    for r in results:
        g = r["id"].split("/")[1]
        d = by.setdefault(g, dict(cases=0, paths=0, obligations=0, ground=0))
        d["cases"] += 1
        d["paths"] += r["paths"]
        d["obligations"] += r["stats"]["obligations"]
        d["ground"] += r["stats"]["ground_true"]
    return dict(parts=by, note="part (b) = C02/table/rows is GROUND (exact-rational facts about the current table floats); "
                               "names, expr, to-* are decided by z3 for all scales / values")

