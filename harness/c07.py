"""C07 - NumPy functions propagate units covariantly and never drop them silently (metamorphic: F(x@u) vs F(x*k@u'))."""
import numpy as np

from symx import core
from .catalogue_common import (ASSUMPTIONS, NAMES, TEMPLATES, UNITS, Env, engine_refusal, flatten, group_dims,  # noqa: F401
                               handler_coverage, install_numpy_patches, is_unyt, leaf_elements, leaf_shape, leaves_equal,
                               make_registry, numeric_obs, select, tier2_axioms, MIXED, MIX_KINDS, make_mixed_registry)
from .common import And, Case, call, check_names, close, vabs

LEVEL = "other"
MANIFEST = dict(
    category="other",
    text=("Bounded symbolic execution of the real __array_function__ dispatch, handlers, __array_ufunc__ result wrapping and "
          "__array_finalize__ (symx): every template of the shared catalogue is run twice in one path, on x_i@u_i and on the "
          "re-expressed (x_i*k_g)@u_i' with scale(u_g) = k_g*scale(u_g') per dimension group g (symbolic k_g, scales, elements). "
          "z3 proves for ALL reals: unit-carrying results have equal dimensions and equal SI magnitudes (1e-6 band), bare results "
          "are unchanged, and results listed in an independent dimension oracle are unyt objects of the expected dimension. "
          "Opaque kernels (LAPACK/FFT/interp/histogram) are uninterpreted functions with ground instances of their homogeneity "
          "degree from an oracle table (trusted). Bounded: template catalogue, shapes <= (2,3)."),
    design="DESIGN.md section 4 C07",
    technique="metamorphic symbolic execution of the real Python code over z3 real terms (unit re-expression); SMT (QF_NRA/UF) obligations per path; counterexample replay")
EXPLANATION = (
    "Each template runs twice in one path through the real unyt code: inputs x_i in unit u_g (scale k_g*s_g) and inputs x_i*k_g "
    "in unit u_g' (scale s_g), built by the harness, all inputs of a dimension group re-expressed coherently, independent factors "
    "per group. Obligations per path (pc & not P unsat): both runs raise or both return; results have the same structure; a "
    "unit-carrying result has the same dimension and the same SI magnitude d*scale in both runs; a bare result is unchanged; "
    "results of functions in the dimension oracle (selection, reshaping, sorting, rounding, interpolation, location/spread "
    "statistics, products) are unyt objects of the oracle's dimension; arguments/out= buffers after the call agree likewise. "
    "Mixed-unit family: F(a@u1, b@u2) with u1 != u2 of one dimension (symbolic scales and offsets) either raises or equals - in SI "
    "magnitude s*(x-o), bare results exactly - the same F on operands re-expressed by the harness into u1.")
BOUNDS = {
    "quick": "the `quick` subset of the template catalogue, shapes (), (2,), (3,), (2,2), (2,3); groups length/time/temperature; plus the "
             "mixed-unit family (both tiers): 48 merging/validating calls (concatenate, stack family, block, append, where, select, choose, "
             "clip, searchsorted, set functions, insert, place/put/putmask/put_along_axis/fill_diagonal/copyto/setitem/fill, linspace, pad, "
             "full_like, diff/ediff1d, isclose/allclose, interp, histogram/2d/dd range= and bins=) with operands in two different units of "
             "one dimension x 3 kinds (symbolic scales; same scale + different symbolic offsets; different scale and offset)",
    "thorough": "the full template catalogue: positional / keyword / out= variants, equal and ragged extents, two different units of one "
                "dimension inside one call (coherent factor), plus a shape x axis sweep of 25 single-operand functions over (), (1,), (0,), (2,3), "
                "(3,2), (1,2), (2,2,2); sorting-type functions with axis=None only up to 3 elements",
}
OUTSIDE = ("IEEE rounding (bit-for-bit covariance under power-of-two rescaling is not claimed: A1); integer/complex payloads; offset units "
           "(C08); bare numbers standing for dimensional arguments are rescaled with their group (they denote a quantity in the unit of "
           "the array they accompany); np.sinc (declared unit-ignoring by its handler) only on dimensionless input; Tier-2 kernels are "
           "uninterpreted with homogeneity degrees from a hand-written oracle table (trusted); rounding family, unwrap, geomspace/logspace and isclose with a "
           "bare default atol are checked for dimension and structure only; functions whose NumPy implementation refuses object "
           "arrays (listed as not covered in the evidence)")
CONFORM = {"quick": 40, "thorough": 120}


def si_elements(leaf):
    s = leaf.units.base_value
    return [e * s for e in leaf_elements(leaf)]


def compare(ctx, t, f1, f2, what):
    """obligations between the two runs for two flattened trees"""
    k1 = [(p, k, (o if k == "t" else None)) for p, k, o in f1]
    k2 = [(p, k, (o if k == "t" else None)) for p, k, o in f2]
    norm = lambda ks: [(p, "a" if k in ("n", "b") else k, o) for p, k, o in ks]
    same = norm(k1) == norm(k2)
    ctx.require(f"{what}: unit-carrying in one unit system, bare or differently structured in the other", same, first=str(k1)[:200], second=str(k2)[:200])
    if not same:
        return
    for (p, k, x), (_, _, y) in zip(f1, f2):
        if k == "u":
            ctx.require(f"{what} {p}: dimension independent of the unit system", x.units.dimensions == y.units.dimensions, first=str(x.units), second=str(y.units))
            if leaf_shape(x) != leaf_shape(y):
                ctx.require(f"{what} {p}: same shape in both unit systems", False)
            elif t.cov:
                ctx.require(f"{what} {p}: covariant (same SI magnitude)", And(*[close(a, b) for a, b in zip(si_elements(x), si_elements(y))]) if x.size else True,
                            first=str(x)[:250], second=str(y)[:250])
        elif k in ("a", "n", "b"):
            if leaf_shape(x) != leaf_shape(y):
                ctx.require(f"{what} {p}: same shape in both unit systems", False)
            elif t.cov:
                ctx.require(f"{what} {p}: bare result unchanged", leaves_equal(x, y, exact=False), first=str(x)[:250], second=str(y)[:250])


def oracle(ctx, t, f1):
    spec = t.dim
    if spec is None:
        return
    leaves = {p: (k, o) for p, k, o in f1}
    def expand(p, sp):
        if isinstance(sp, list):
            return [x for i, e in enumerate(sp) for x in expand(f"{p}.{i}", e)]
        return [(p, sp)]
    items = expand("r", spec)
    for p, s in items:
        if s is None:
            continue
        sub = [(pp, k, o) for pp, (k, o) in leaves.items() if (pp == p or pp.startswith(p + ".")) and k in "uanb"]
        ok, info = [bool(sub)], [] if sub else [f"{p}: missing"]
        for pp, k, o in sub:
            if s == "bare":
                good = k != "u"
            else:
                good = k == "u" and o.units.dimensions == group_dims(ctx, s)
            ok.append(good)
            if not good:
                info.append(f"{pp}: expected {s}, got {('units ' + str(o.units)) if k == 'u' else 'a bare ' + type(o).__name__}")
        ctx.require(f"dimension oracle {p}", all(ok), detail="; ".join(info)[:300])


def make_case(t):
    def h(ctx):
        reg = make_registry(ctx, t.groups, both=True)
        from symx.kernels import KernelModel
        runs = []
        for run in ("A", "B"):
            E = Env(ctx, "q", reg, run)
            n0 = len(KernelModel.calls)
            r = call(t.fn, np, E)
            if r[0] == "raise" and ctx.symbolic and engine_refusal(r[1]):
                raise core.Unsupported(f"NumPy refused the symbolic payload: {type(r[1]).__name__}: {r[1]}"[:300])
            runs.append((E, r, KernelModel.calls[n0:]))
        (E1, r1, c1), (E2, r2, c2) = runs
        del KernelModel.calls[:]
        if r1[0] == "raise" or r2[0] == "raise":
            both = r1[0] == r2[0]
            ctx.require("raises in one unit system only", both, first=str(r1)[:150], second=str(r2)[:150])
            if both:
                ctx.require("same exception class in both unit systems", type(r1[1]) is type(r2[1]), first=str(r1)[:150], second=str(r2)[:150])
            ctx.observe("outcome", r1[0] + r2[0])
            return
        if t.tier == 2 and ctx.symbolic:
            tier2_axioms(ctx, t, c1, c2)
        f1, f2 = flatten(r1[1]), flatten(r2[1])
        compare(ctx, t, f1, f2, "result")
        oracle(ctx, t, f1)
        a1 = [x for n, v in E1.made.items() for x in flatten(v, n)]
        a2 = [x for n, v in E2.made.items() for x in flatten(v, n)]
        compare(ctx, t, a1, a2, "argument after the call")
        if t.tier == 1:
            ctx.observe("result", numeric_obs(r1[1]))
            ctx.observe("result2", numeric_obs(r2[1]))

    return Case(f"C07/{t.name}", h, bounds="symbolic: every array element, bare scalar argument, unit scale and re-expression factor",
                weight=t.weight, max_paths=t.max_paths, budget_s=600.0, conform=t.conform, group=t.key)


def si_affine(leaf):
    s, o = leaf.units.base_value, leaf.units.base_offset
    if isinstance(o, (int, float)) and o == 0:
        return [e * s for e in leaf_elements(leaf)]
    return [(e - o) * s for e in leaf_elements(leaf)]


def compare_mixed(ctx, f1, f2, what, slack):
    """mixed-unit call vs the same call on operands re-expressed into one common unit: same physical quantities"""
    k1 = [(p, k, (o if k == "t" else None)) for p, k, o in f1]
    k2 = [(p, k, (o if k == "t" else None)) for p, k, o in f2]
    norm = lambda ks: [(p, "a" if k in ("n", "b") else k, o) for p, k, o in ks]
    same = norm(k1) == norm(k2)
    ctx.require(f"{what}: same structure as the call in one common unit", same, mixed=str(k1)[:200], common=str(k2)[:200])
    if not same:
        return
    for (p, k, x), (_, _, y) in zip(f1, f2):
        if k not in ("u", "a", "n", "b"):
            continue
        if leaf_shape(x) != leaf_shape(y):
            ctx.require(f"{what} {p}: same shape as the call in one common unit", False)
        elif k == "u":
            ctx.require(f"{what} {p}: same dimension as the call in one common unit", x.units.dimensions == y.units.dimensions, mixed=str(x.units), common=str(y.units))
            ctx.require(f"{what} {p}: same physical quantity as the call in one common unit",
                        And(*[close(a, b, extra=slack) for a, b in zip(si_affine(x), si_affine(y))]) if x.size else True, mixed=str(x)[:250], common=str(y)[:250])
        else:
            ctx.require(f"{what} {p}: same bare result as the call in one common unit", leaves_equal(x, y, exact=False), mixed=str(x)[:250], common=str(y)[:250])


def make_mixed_case(t, kind):
    def h(ctx):
        from symx.kernels import KernelModel
        reg, (U1, U2) = make_mixed_registry(ctx, kind, t.groups)
        slack = (vabs(U1.s * U1.o) + vabs(U2.s * U2.o)) * 1e-6
        EM = Env(ctx, "q", reg, "M", mix=(U1, U2))
        rm = call(t.fn, np, EM)
        del KernelModel.calls[:]
        if rm[0] == "raise":
            if ctx.symbolic and engine_refusal(rm[1]):
                raise core.Unsupported(f"NumPy refused the symbolic payload: {type(rm[1]).__name__}: {rm[1]}"[:300])
            ctx.require("mixed units: the call raises (allowed)", True)
            ctx.observe("outcome", "raise:" + type(rm[1]).__name__)
            return
        EC = Env(ctx, "q", reg, "C", mix=(U1, U2))
        rc = call(t.fn, np, EC)
        del KernelModel.calls[:]
        if rc[0] == "raise":
            if ctx.symbolic and engine_refusal(rc[1]):
                raise core.Unsupported(f"NumPy refused the symbolic payload: {type(rc[1]).__name__}: {rc[1]}"[:300])
            ctx.require("mixed units: returns although the same call in one common unit raises", False, common=str(rc[1])[:200])
            return
        compare_mixed(ctx, flatten(rm[1]), flatten(rc[1]), "result", slack)
        a1 = [x for n, v in EM.made.items() for x in flatten(v, n)]
        a2 = [x for n, v in EC.made.items() for x in flatten(v, n)]
        compare_mixed(ctx, a1, a2, "argument after the call", slack)
        if t.tier == 1:
            ctx.observe("result", numeric_obs(rm[1]))

    return Case(f"C07/mixu/{kind}/{t.name}", h, bounds="symbolic: elements, both scales, both offsets", weight=3, max_paths=t.max_paths,
                budget_s=600.0, oblig_timeout_ms=60000, conform=t.conform, group=t.key)


def cases(tier, mods):
    check_names(mods, NAMES)
    install_numpy_patches()
    out = [make_case(t) for t in select(tier, "c07")]
    out += [make_mixed_case(t, kind) for kind in MIX_KINDS for t in MIXED
            if not (kind == "affine" and t.name == "np.histogram/range-both-other")]   # quick and thorough
    return out


def coverage_extra(results, tier):
    from .catalogue_common import coverage_summary
    out = coverage_summary(results, tier, "c07")
    out["dimension_oracle_entries"] = sum(1 for t in select(tier, "c07") if t.dim is not None)
    out["templates_checked_for_dimension_only"] = sorted(t.name for t in select(tier, "c07") if not t.cov)
    return out
