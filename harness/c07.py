"""C07 - NumPy functions propagate units covariantly and never drop them silently (metamorphic: F(x@u) vs F(x*k@u'))."""
import numpy as np

from symx import core
from .catalogue_common import (ASSUMPTIONS, NAMES, TEMPLATES, UNITS, Env, engine_refusal, flatten, group_dims,  # noqa: F401
                               handler_coverage, install_numpy_patches, is_unyt, leaf_elements, leaf_shape, leaves_equal,
                               make_registry, numeric_obs, select, tier2_axioms, MIXED, MIX_KINDS, make_mixed_registry)
from .catalogue_common import GROUP_DIMS, KGROUP, Tpl
from .common import And, Case, Or, U, call, check_names, close, distinct_scales, vabs

LEVEL = "other"
MANIFEST = dict(
    category="other",
    text=("Bounded symbolic execution of the real __array_function__ dispatch, handlers, __array_ufunc__ result wrapping and "
          "__array_finalize__ (symx): every template of the shared catalogue is run twice in one path, on x_i@u_i and on the "
          "re-expressed (x_i*k_g)@u_i' with scale(u_g) = k_g*scale(u_g') per dimension group g (symbolic k_g, scales, elements). "
          "z3 proves for ALL reals: unit-carrying results have equal dimensions and equal SI magnitudes (1e-6 band), bare results "
          "are unchanged, and results listed in an independent dimension oracle are unyt objects of the expected dimension. "
          "Opaque kernels (LAPACK/FFT/interp/histogram) are uninterpreted functions with ground instances of their homogeneity "
          "degree from an oracle table (trusted). The dimension `dimensionless` is a dimension like any other: the catalogue is run "
          "again with SCALED DIMENSIONLESS units of symbolic scale (percent-, m/km-, mol/mmol-like) in place of the length units, and the "
          "mixed-unit family has operands in two different dimensionless units (atomic, compound ratio, the unscaled `dimensionless`, "
          "a bare number). Two further discrete axes are walked over the whole catalogue: ALIASING (the same array object in two argument "
          "positions, operand/operand and out=/operand, incl. products of 3-4 operands in different units such as einsum('i,ij,j->', x, A, x)) "
          "and the SPELLING OF OPTION ARGUMENTS (every flag as bool / np.bool_ / 0-1, truthy and falsy; every int / float option as "
          "np.int64 / np.float64). COMPOUND OPERAND UNITS (family uform): calls with operands in two unit groups re-run with the units being "
          "compound expressions over two length units that are re-expressed independently (1/xg next to xa, xe/xa**3 next to xg**3, "
          "xg**2, 1/xa), so that the product of the operand units cancels a dimension and leaves a pure number != 1 that differs between the "
          "two unit systems; single-operand calls re-run on a density- / wavenumber-like unit (concrete dyadic length scales, every element "
          "and the other scales symbolic). HISTORY (family rereg): the same call is made first on another dataset - another registry in "
          "which the same unit names have other scales - before the two compared runs. TYPED SECONDARY OPERAND (family mixu-typed, ground per dtype): every "
          "Tier-1 mixed-unit call with the operand in the other unit being a real int8/int16/int32/int64/uint8/uint16/float32/float64 buffer (values whose "
          "conversion leaves the narrow type) and a whole / non-whole numeral factor, next to a symbolic primary operand, against the same call with that "
          "operand expressed in the data's unit by exact rational arithmetic. Bounded: template catalogue, shapes <= (2,3)."),
    design="DESIGN.md section 4 C07",
    technique="metamorphic symbolic execution of the real Python code over z3 real terms (unit re-expression); SMT (QF_NRA/UF) obligations per path; counterexample replay")
EXPLANATION = (
    "Each template runs twice in one path through the real unyt code: inputs x_i in unit u_g (scale k_g*s_g) and inputs x_i*k_g "
    "in unit u_g' (scale s_g), built by the harness, all inputs of a dimension group re-expressed coherently, independent factors "
    "per group. Obligations per path (pc & not P unsat): both runs raise or both return; results have the same structure; a "
    "unit-carrying result has the same dimension and the same SI magnitude d*scale in both runs; a bare result is unchanged; "
    "results of functions in the dimension oracle (selection, reshaping, sorting, rounding, interpolation, location/spread "
    "statistics, products) are unyt objects of the oracle's dimension; arguments/out= buffers after the call agree likewise. "
    "Mixed-unit family: F(a@u1, b@u2) with u1 != u2 of one dimension (symbolic scales and offsets) either raises or equals - in SI "
    "magnitude s*(x-o), bare results exactly - the same F on operands re-expressed by the harness into u1. "
    "Scaled dimensionless units: (a) family `dimless` = every template that has a length operand, re-run with the units of the groups "
    "L / L2 being dimensionless units of symbolic scale k*s and s (both clearly different from 1), same obligations, dimension oracle "
    "with length -> dimensionless; the templates whose real code folds the scales into a sympy number (ndarray.var/std, np.std, np.nanstd/nanvar, np.var(mean=) via "
    "Unit.simplify) run with concrete dyadic scales (1/4 vs 1/64, k = 16) and symbolic elements (`dimless-dyadic`). (b) mixed-unit "
    "kinds dl-scale (two atomic dimensionless units, symbolic scales), dl-ratio (a compound ratio of two symbolic length units vs an "
    "atomic one), dl-one-first / dl-one-second (one operand in the unscaled `dimensionless` == NULL_UNIT), and for np.isclose/np.allclose "
    "dl-bare-first / dl-bare-second (that operand is a plain ndarray, which denotes dimensionless numbers), over all merging/validating "
    "calls plus ten further call forms of isclose/allclose (swapped operands, 0-d, broadcast, atol= as a quantity in either unit, bare "
    "atol = a difference in the unit of b, re-expressed with b). "
    "Identity of operands (family `alias`): for every template in which two array arguments are created with the same shape and value "
    "constraints (two quantity operands, or an out= buffer and an operand of its unit group), one case per such pair in which the later "
    "position receives the VERY SAME Python object as the earlier one (np.dot(a, a), np.clip(a, lo, lo), np.concatenate([a, a]), "
    "np.dot(a, b, out=a), einsum('i,ij,j->', x, A, x)); same obligations; where the aliased operand was the only one of its dimension "
    "group the dimension oracle is rewritten by the harness (its exponent moves to the group of the object it became), otherwise it is "
    "dropped and covariance alone is decided. C07-only templates add products of three and four operands in different units "
    "(einsum quadratic form, triple and quadruple contractions, out=, sublist call form, matrix sandwiches; linalg.multi_dot chains). "
    "Spelling of option arguments (families `flag-npbool`, `flag-int`, `arg-npscalar`): every template that passes a python bool "
    "(resp. int / float) at the top level of a call through the numpy namespace is re-run with that argument spelled np.bool_ / "
    "the integer 0-1 (resp. np.int64 / np.float64), in positional and keyword position alike; NumPy reads these by truth value / "
    "operator.index, so the call is the same call; C07-only templates add the explicit falsy flags (density=False, retstep=False, "
    "return_indices=False, returned=False ...) so that 0 / np.False_ are walked too. The positions are found by a dry run of the "
    "template on float placeholders with a recording argument factory and numpy namespace. "
    "Compound operand units (family `uform/<form>`): the unit of an operand is an expression over registry units. Two-operand forms (every "
    "template with operands in L and in a second group T or L2, Tier-2 kernels included): inv-other (xa with 1/xg: km with 1/m), density "
    "(xe/xa**3 with xg**3: g/cm**3 with m**3), square-other (xa with xg**2), inv-same (xa with 1/xa), rate (xa/xc with xc). The two length "
    "units xa->xb and xg->xh are re-expressed by DIFFERENT factors (16 and 4; a density and a volume are inputs of different dimensions), so "
    "the pure number a cancellation leaves (xa/xg = 1/8, xb/xh = 1/32) differs between the runs and a handler that drops it, or that "
    "relabels instead of rescaling, is not covariant. Single-operand forms (templates whose only unit group is L): density1 (xe/xa**3), "
    "inv1 (1/xa) - powers, roots and reciprocals of a compound unit. Length scales are concrete dyadic numbers (cancellation writes them into "
    "a sympy expression), elements, bare numbers and the scales of the other dimensions are symbols; the re-expression factor of a group "
    "follows from its expression (1/k, k**3, k_M/k**3) and is what the Tier-2 homogeneity instances are stated in; dimension oracle rewritten. "
    "History (family `rereg`): before the two compared runs the same template is executed in both unit systems on ANOTHER registry in which "
    "the same unit names have other scales (numerals; the scales of the case proper are symbols), with no library reset in between: a memo "
    "keyed by the spelling of a unit (or by anything that does not determine its scale and registry) hands the case a unit of the other "
    "dataset. Same obligations as the base case, decided for all values. "
    "Typed secondary operand (family `mixu-typed/<dtype>/<factor>/<template>`; GROUND, enumerated per dtype x factor x buffer content, as the typed "
    "families of C06/C09/C18/C19): an object-dtype payload cannot see a branch on dtype.kind or arithmetic done inside a narrow dtype, so every Tier-1 "
    "template of the mixed-unit family is run with its X2 operands (padding / prepend / to_end values, members of a concatenation, bounds, fill and "
    "insert values ...) as a real buffer of dtype int8, int16, int32, int64, uint8, uint16, float32, float64 in unit xg, and again with the same physical "
    "values given in the data's unit xa as a float64 buffer computed by the harness with exact rational arithmetic (value * scale(xg) / scale(xa); not "
    "by .to()). Scales are numerals (xa = 1/4; xg = 250, 2, 1/400, 1/512: factors 1000, 8, 1/100, 1/128), because the axis is a branch on the VALUE of "
    "the factor (whole / not whole) read as a Python number; the elements of the primary operand and of out= buffers stay solver variables (NumPy "
    "accepts a typed operand next to an object-dtype one in all 40 templates). Buffer values: value x factor leaves the integer type (40 km as int16, "
    "3e6 km as int32, 9.2e15 km as int64) resp. float16 (70.5 km as float32), plus small controls, all exactly representable in the same-width float "
    "the unchanged code converts through. Obligations: the call raises, or the results / arguments after the call have the same structure, dimension "
    "and SI magnitudes (1e-6 band; finite where the reference is finite; bare results equal for all values of the symbolic operand).")
BOUNDS = {
    "quick": "the `quick` subset of the template catalogue, shapes (), (2,), (3,), (2,2), (2,3); groups length/time/temperature; plus the "
             "mixed-unit family (both tiers): 48 merging/validating calls (concatenate, stack family, block, append, where, select, choose, "
             "clip, searchsorted, set functions, insert, place/put/putmask/put_along_axis/fill_diagonal/copyto/setitem/fill, linspace, pad, "
             "full_like, diff/ediff1d, isclose/allclose, interp, histogram/2d/dd range= and bins=) with operands in two different units of "
             "one dimension x 3 kinds (symbolic scales; same scale + different symbolic offsets; different scale and offset); plus the "
             "scaled-dimensionless region (both tiers): the same 48 calls x 4 kinds of dimensionless unit pair (dl-scale, dl-ratio without "
             "the histogram/interp kernels, dl-one-first, dl-one-second), 10 further isclose/allclose call forms x (scale + the 4 dl kinds), "
             "isclose/allclose with atol=0 x 2 bare-operand kinds; and the family `dimless`: every quick template with a length operand "
             "(except the operand-rank sweep rank/*) re-run with scaled dimensionless units of symbolic scale in place of the lengths; "
             "plus (both tiers) 22 C07-only templates (3-4 operand products, explicit falsy flags) and the families alias (every pair of "
             "equally shaped array arguments of every quick template, one pair aliased per case; not sweep/, round/, *mixdim), flag-npbool "
             "and flag-int (every quick template with a bool argument), arg-npscalar (quick: templates of functions that have a unyt handler, "
             "without rank/ and round/); family uform: every quick template with operands in L and a second group x (inv-other, density, "
             "square-other) [Tier-2: first call form per function], and form density1 on the first call form of every function with a unyt "
             "handler whose only unit group is L; family rereg: the first call form of every function / method / operator of the quick "
             "catalogue. Neither family re-runs templates whose base case shows a recorded (known) defect, nor the sweeps; family mixu-typed (ground): the 40 "
             "Tier-1 mixed-unit templates x 16 (dtype, factor) pairs - factor 1000 x all 8 dtypes, 1/100 x int64/float64, 1/128 x int8/int16/int32/float32, "
             "8 x int8/uint16 - up to 3 buffer values per operand",
    "thorough": "the full template catalogue: positional / keyword / out= variants, equal and ragged extents, two different units of one "
                "dimension inside one call (coherent factor), plus a shape x axis sweep of 25 single-operand functions over (), (1,), (0,), (2,3), "
                "(3,2), (1,2), (2,2,2); sorting-type functions with axis=None only up to 3 elements; family `dimless` over the full "
                "catalogue except the shape sweep sweep/* and the thorough-only part of the operand-rank sweep rank/* (they vary shape "
                "and rank of the same calls, not the unit handling); families alias / flag-npbool / flag-int over the full catalogue "
                "(alias without sweep/, round/, *mixdim), arg-npscalar over the full catalogue without sweep/, rank/, round/; uform: all five "
                "two-operand forms over every template with two unit groups, density1 over every single-group template, inv1 over the first "
                "call form per handled function; rereg: every call form of the functions with a unyt handler, first call form of the others "
                "(both without sweep/, rank/, round/ and without templates of recorded defects); mixu-typed: 8 dtypes x 4 factors (1/100 only for 64-bit "
                "values, where the unchanged code computes in float64)",
}
OUTSIDE = ("IEEE rounding (bit-for-bit covariance under power-of-two rescaling is not claimed: A1); integer/complex payloads; offset units "
           "(C08); bare numbers standing for dimensional arguments are rescaled with their group (they denote a quantity in the unit of "
           "the array they accompany); np.sinc (declared unit-ignoring by its handler) only on dimensionless input; Tier-2 kernels are "
           "uninterpreted with homogeneity degrees from a hand-written oracle table (trusted); rounding family, unwrap, geomspace/logspace and isclose with a "
           "bare default atol are checked for dimension and structure only; functions whose NumPy implementation refuses object "
           "arrays (listed as not covered in the evidence); scaled dimensionless units: a unit whose scale is within 1e-9 of 1 is the "
           "unscaled unit for unyt (covered as `dimensionless` itself in the dl-one-* kinds, not as a symbolic scale); a call that is "
           "accepted for `dimensionless` next to a bare number and refused for a scaled dimensionless unit is not judged (refusal is "
           "allowed); bare operands next to scaled dimensionless ones only for isclose/allclose (elsewhere unyt has no stated rule: "
           "np.clip(a%, 0.3, 0.4) reads the bare bounds in percent); a bare atol only with b carrying units; ndarray.var/std on scaled "
           "dimensionless input only with concrete dyadic scales (sympy cannot hold a z3 term); dl-ratio not for the histogram/interp kernels; "
           "aliasing: one pair per case (not three positions at once), whole-object identity only (overlapping views of one buffer are not "
           "walked), across dimension groups not for Tier-2 kernels and not for out= buffers; option spellings: only arguments at the top "
           "level of a call made through the numpy namespace (not inside tuples / lists, not arguments of ndarray METHODS), the mixed-unit "
           "and scaled-dimensionless families are not re-run under either axis; a call that raises in both unit systems is accepted also when "
           "only the spelling made it raise (the property allows refusal); np.unique(axis=) (NumPy refuses the object payload: see "
           "coverage `numpy_refuses_object_payload`); compound units: length scales concrete (16/64, 1/64, 2, 1/2), five two-operand and two "
           "single-operand expression forms, not combined with the aliasing / spelling / dimensionless axes; history: one earlier call of "
           "the SAME template on one other registry (other functions as the earlier call only through the sampled warm variants of "
           "symx.warm); a registry edited in place between the calls (modify/add/remove) belongs to C12 and is not walked here; templates "
           "whose base case shows a recorded defect are not re-run under uform / rereg; typed secondary operands: numeral scales only, Tier-1 templates only "
           "(not the interp / histogram kernels), one fixed set of buffer values per dtype, uint16 without an overflowing value (float16 ends first), "
           "8-bit integers are converted through float16 too (int8 100 km next to data in m is inf m on the unchanged tree), values whose product is NOT representable in that float "
           "are not walked: unyt_array.in_units converts int16 through float16 and int32 through float32, so np.pad(data_m, 1, constant_values=int16 33 km) "
           "pads with 32992 m on the unchanged tree (a precision matter of in_units, conversion properties C17/C18), complex and bool buffers")
CONFORM = {"quick": 40, "thorough": 120}


def si_elements(leaf):
    s = leaf.units.base_value
    return [e * s for e in leaf_elements(leaf)]


def compare(ctx, t, f1, f2, what):
    """obligations between the two runs for two flattened trees"""
    k1 = [(p, k, (o if k == "t" else None)) for p, k, o in f1]
    k2 = [(p, k, (o if k == "t" else None)) for p, k, o in f2]
    norm = lambda ks: [(p, "a" if k in ("n", "b") else k, o) for p, k, o in ks]
    same = norm(k1) == norm(k2)
    ctx.require(f"{what}: unit-carrying in one unit system, bare or differently structured in the other", same, first=str(k1)[:200], second=str(k2)[:200])
    if not same:
        return
    for (p, k, x), (_, _, y) in zip(f1, f2):
        if k == "u":
            ctx.require(f"{what} {p}: dimension independent of the unit system", x.units.dimensions == y.units.dimensions, first=str(x.units), second=str(y.units))
            if leaf_shape(x) != leaf_shape(y):
                ctx.require(f"{what} {p}: same shape in both unit systems", False)
            elif t.cov:
                ctx.require(f"{what} {p}: covariant (same SI magnitude)", And(*[close(a, b) for a, b in zip(si_elements(x), si_elements(y))]) if x.size else True,
                            first=str(x)[:250], second=str(y)[:250])
        elif k in ("a", "n", "b"):
            if leaf_shape(x) != leaf_shape(y):
                ctx.require(f"{what} {p}: same shape in both unit systems", False)
            elif t.cov:
                ctx.require(f"{what} {p}: bare result unchanged", leaves_equal(x, y, exact=False), first=str(x)[:250], second=str(y)[:250])


def oracle(ctx, t, f1, group_dims=group_dims):
    spec = t.dim
    if spec is None:
        return
    leaves = {p: (k, o) for p, k, o in f1}
    def expand(p, sp):
        if isinstance(sp, list):
            return [x for i, e in enumerate(sp) for x in expand(f"{p}.{i}", e)]
        return [(p, sp)]
    items = expand("r", spec)
    for p, s in items:
        if s is None:
            continue
        sub = [(pp, k, o) for pp, (k, o) in leaves.items() if (pp == p or pp.startswith(p + ".")) and k in "uanb"]
        ok, info = [bool(sub)], [] if sub else [f"{p}: missing"]
        for pp, k, o in sub:
            if s == "bare":
                good = k != "u"
            else:
                good = k == "u" and o.units.dimensions == group_dims(ctx, s)
            ok.append(good)
            if not good:
                info.append(f"{pp}: expected {s}, got {('units ' + str(o.units)) if k == 'u' else 'a bare ' + type(o).__name__}")
        ctx.require(f"dimension oracle {p}", all(ok), detail="; ".join(info)[:300])


# ---------------------------------------------------------------------------------------------- scaled dimensionless units
# The dimension `dimensionless` has units too (percent, m/km, mol/mmol in unyt's default system, user-defined ratios): the family
# "dimless" runs every template of the catalogue with the units of the groups L / L2 being SCALED DIMENSIONLESS units of symbolic
# scale (k*s and s) instead of lengths. Handlers that decide on `is_dimensionless` / `== NULL_UNIT` take other branches there.
DIMLESS_GROUPS = ("L", "L2")


# concrete variant: where unyt folds a product of dimensionless units into a NUMBER (Unit.simplify -> _cancel_mul: percent**2 ->
# 1e-4; reached by ndarray.var/std through NumPy's _var) the scale has to live in a sympy expression, which cannot hold a z3 term.
# Those templates are run with exactly representable concrete scales (dyadic, the re-expression factor k = 16 is exact in binary
# floating point as the property's quantifier asks); the array elements stay symbolic.
CONCRETE_K = 16.0
CONCRETE_SB = {"L": 1.0 / 64, "L2": 1.0 / 8}


def make_registry_dimless(ctx, groups, both=True, concrete=False):
    """like catalogue_common.make_registry, but the units of the groups L / L2 are dimensionless units with symbolic scales"""
    D = ctx.mods["unyt"].dimensions
    reg = ctx.registry([])
    for g in groups:
        if g in ("1", "bare"):
            continue
        dims = D.dimensionless if g in DIMLESS_GROUPS else getattr(D, GROUP_DIMS[g])
        if concrete and g in DIMLESS_GROUPS:
            ctx.add_row(reg, UNITS["A"][g], dims, CONCRETE_K * CONCRETE_SB[g])
            ctx.add_row(reg, UNITS["B"][g], dims, CONCRETE_SB[g])
            continue
        sB = ctx.real("s_" + g, pos=True)
        k = ctx.real("k_" + KGROUP.get(g, g), pos=True)
        ctx.add_row(reg, UNITS["A"][g], dims, k * sB)
        ctx.add_row(reg, UNITS["B"][g], dims, sB)
        if g in DIMLESS_GROUPS:
            # both units clearly different from the unscaled NULL_UNIT (scale 1), which unyt recognises through isclose(1e-9) and
            # which bare numbers are identified with: a call that is accepted next to a bare number for scale 1 is refused for any
            # other scale (allowed). One operand in `dimensionless` itself is the subject of the mixed kinds dl-one-* below
            for sc in (sB, k * sB):
                ctx.assume(Or(sc > 1.001, sc * 1.001 < 1.0))
    if "L" in groups and "L2" in groups and not concrete:
        distinct_scales(ctx, ctx.real("s_L", pos=True), ctx.real("s_L2", pos=True))
    return reg


class ConcreteEnv(Env):
    """Env whose re-expression factor of the dimensionless groups is the concrete CONCRETE_K"""

    def factor(self, group):
        if self.run == "B" and KGROUP.get(group, group) in DIMLESS_GROUPS:
            return CONCRETE_K
        return super().factor(group)


def group_dims_dimless(ctx, spec):
    D = ctx.mods["unyt"].dimensions
    d = D.dimensionless
    for g, e in spec.items():
        if g not in DIMLESS_GROUPS:
            d = d * getattr(D, GROUP_DIMS[g]) ** e
    return d


# ---------------------------------------------------------------------------------------------- compound operand units
# The unit of an operand need not be an atomic symbol: densities (g/cm**3), wavenumbers (1/m), areas (m**2). When the units of two
# operands of one call contain the SAME base dimension at DIFFERENT scales - with opposite signs of the exponent (g/cm**3 with m**3,
# km with 1/m: the product cancels the dimension and leaves a pure number != 1) or with the same sign (cm with m**2) - a handler that
# computes the result unit through simplification / cancellation must carry that number into the data. Family `uform`: every
# template with operands in two unit groups is re-run with the units of the groups replaced by compound expressions over the
# registry units (UFORMS); the re-expression factor of a group follows from the expression (1/k for a reciprocal, k**3 for a cube).
# Cancelling same-dimension units puts their scales into a sympy expression, which cannot hold a z3 term (HARNESS_GUIDE): the
# length units of this family have concrete dyadic scales (CONCRETE_K = 16 is exact in binary floating point, as the property's
# quantifier asks); every array element, bare number and the scales of the other dimensions stay symbolic.
# The two length units are re-expressed INDEPENDENTLY (xa -> xb by 16, xg -> xh by 4): "re-expressing all inputs of a given dimension"
# treats a density and a volume as inputs of different dimensions (g/cm**3 -> kg/m**3 while the m**3 stay), and only then does the pure
# number left by a cancellation (xa/xg = 1/8, xb/xh = 1/32) differ between the two runs
UF_SCALE_B = {"L": 1.0 / 64, "L2": 1.0 / 2}
UF_K = {"L": 16.0, "L2": 4.0}
# form -> {role: (unit expression over the unit names of the run, {k-group: exponent of the re-expression factor}, {dimension: exponent})}
# role "first" = the group L, role "second" = the other group of the template (T if it has one, else L2)
UFORMS = {
    "inv-other": {"second": ("1/{L2}", {"L2": -1}, {"length": -1})},                                  # km with 1/m
    "density": {"first": ("{M}/{L}**3", {"M": 1, "L": -3}, {"mass": 1, "length": -3}),              # g/cm**3 with m**3
                "second": ("{L2}**3", {"L2": 3}, {"length": 3})},
    "inv-same": {"second": ("1/{L}", {"L": -1}, {"length": -1})},                                    # N with 1/N: cancels to exactly 1
    "square-other": {"second": ("{L2}**2", {"L2": 2}, {"length": 2})},                                # cm with m**2: same sign, no cancellation
    "rate": {"first": ("{L}/{T}", {"L": 1, "T": -1}, {"length": 1, "time": -1}),                    # m/s with s, km/h-like with another time unit
             "second": ("{T}", {"T": 1}, {"time": 1})},
}
UFORMS_QUICK = ("inv-other", "density", "square-other")
# forms for calls with operands of ONE unit group: the operand itself carries a compound unit (a density, a wavenumber); a handler that
# builds a power, a root or a reciprocal of the operand's unit (prod, var, det, inv, cumprod ...) must do so for the whole expression
UFORMS_SINGLE = {
    "density1": {"first": ("{M}/{L}**3", {"M": 1, "L": -3}, {"mass": 1, "length": -3})},
    "inv1": {"first": ("1/{L}", {"L": -1}, {"length": -1})},
}
UFORMS.update(UFORMS_SINGLE)


def _form_of(t, uform):
    second = "T" if "T" in t.groups else "L2"
    roles = {"first": "L", "second": second}
    return {roles[r]: ent for r, ent in UFORMS[uform].items()}


def _ipow(b, e):
    r = b
    for _ in range(abs(e) - 1):
        r = r * b
    return r if e > 0 else 1.0 / r


def make_registry_uform(ctx, groups, form):
    D = ctx.mods["unyt"].dimensions
    need = set()
    for ent in form.values():
        need |= {g for g in ("L", "L2", "T", "M") if "{" + g + "}" in ent[0]}
    sym = [g for g in dict.fromkeys(tuple(groups) + tuple(sorted(need))) if g not in ("L", "L2", "1", "bare") and (g in need or g not in form)]
    reg = make_registry(ctx, sym, both=True)
    for g in ("L", "L2"):
        ctx.add_row(reg, UNITS["A"][g], D.length, UF_K[g] * UF_SCALE_B[g])
        ctx.add_row(reg, UNITS["B"][g], D.length, UF_SCALE_B[g])
    return reg


class FormEnv(Env):
    """Env in which the operands of the groups in `form` carry a compound unit; the length units have concrete dyadic scales"""

    def __init__(self, *a, form=None, **k):
        super().__init__(*a, **k)
        self.form = form or {}

    def _k(self, kg):
        return UF_K[kg] if kg in UF_K else self.ctx.real("k_" + kg, pos=True)

    def factor(self, group):
        if self.run != "B" or group in ("1", "bare", None):
            return None
        ent = self.form.get(group)
        if ent is None:
            return self._k(group)
        f = None
        for kg, e in ent[1].items():
            x = _ipow(self._k(kg), e)
            f = x if f is None else f * x
        return f

    def _expr(self, group):
        return self.form[group][0].format(**UNITS[self.run])

    def unit(self, group):
        if group in self.form:
            return self.ctx.mods["unyt"].Unit(self._expr(group), registry=self.reg)
        return super().unit(group)

    def _wrap(self, x, group):
        if group in self.form and self.mode != "bare":
            return self.ctx.quantity(x, self._expr(group), self.reg)
        return super()._wrap(x, group)


def group_dims_uform(ctx, spec, form):
    D = ctx.mods["unyt"].dimensions
    d = D.dimensionless
    for g, e in spec.items():
        if g in form:
            for dn, de in form[g][2].items():
                d = d * getattr(D, dn) ** (de * e)
        else:
            d = d * getattr(D, GROUP_DIMS[g]) ** e
    return d


def _recorded(templates):
    """templates without those whose base case shows a recorded (`known`) defect of unyt: the defect is listed once, under the base
    case; re-running it under a further axis would only repeat it (symx.warm treats such cases the same way)"""
    import fnmatch
    import json
    import os
    try:
        with open(os.path.join(os.path.dirname(os.path.dirname(os.path.abspath(__file__))), "known_findings.json")) as f:
            ks = json.load(f)
    except Exception:  # noqa: BLE001
        ks = []
    ks = ks if isinstance(ks, list) else ks.get("findings", [])
    pats = [k["pattern"].split("::", 1)[0] for k in ks if k.get("property") == "C07" and k.get("status") == "known"]
    return [t for t in templates if not any(fnmatch.fnmatchcase(f"C07/{t.name}", p) for p in pats)]


def uform_templates(templates, tier, mods):
    """(a) templates with operands in the group L and in a second group (T or L2) x the two-operand forms; (b) templates whose only unit
    group is L x the single-operand forms (quick: density1 on the first call form of every function that has a unyt handler). Not the
    sweeps (they vary shape and rank of the same calls). Tier-2 kernels get their homogeneity axioms in the factors of the form"""
    out, seen = [], set()
    handled = set(handler_coverage(mods)[0])
    for t in _recorded(templates):
        if "L" not in t.groups or t.name.startswith(("sweep/", "rank/", "round/")):
            continue
        if "T" in t.groups or "L2" in t.groups:
            if tier == "quick" and t.tier == 2 and t.key in seen:
                continue
            seen.add(t.key)
            if "T" not in t.groups and t.dim is not None:
                # the catalogue's dimension oracle counts operands of L and L2 alike as `L` (one dimension): once the two groups carry
                # different expressions it cannot be rewritten; covariance alone is decided for these templates
                t = _derive(t, t.name, t.fn, dim=None)
            for f in (UFORMS_QUICK if tier == "quick" else tuple(f for f in UFORMS if f not in UFORMS_SINGLE)):
                if f == "rate" and "T" not in t.groups:
                    continue
                out.append((t, f))
        elif all(g in ("L", "1", "bare") for g in t.groups):
            first = t.key in handled and t.key not in seen
            seen.add(t.key)
            if tier == "quick":
                if first:
                    out.append((t, "density1"))
            else:
                out.append((t, "density1"))
                if first:
                    out.append((t, "inv1"))
    return out


def history_templates(templates, tier, mods):
    """quick: one call form (the first) of every function, ndarray method and operator of the catalogue (with or without a unyt handler:
    the ufunc route has its own unit-rule memo); thorough: in addition every call form of the functions that have a unyt handler"""
    ts = [t for t in _recorded(templates) if not t.name.startswith(("sweep/", "rank/", "round/"))]
    handled = set(handler_coverage(mods)[0]) if tier != "quick" else set()
    seen, out = set(), []
    for t in ts:
        if t.key not in seen or t.key in handled:
            seen.add(t.key)
            out.append(t)
    return out


def make_case(t, dimless=False, uform=None, history=False):
    """dimless: False | "sym" (scaled dimensionless units of symbolic scale in the groups L / L2) | "conc" (concrete dyadic scales);
    uform: name of a compound-unit form (UFORMS) given to the operands of the form's groups; history: the same call is made first
    on another dataset (another registry in which the same unit names have other scales)"""
    dims_of = group_dims_dimless if dimless else group_dims
    EnvOf = ConcreteEnv if dimless == "conc" else Env
    if uform:
        form = _form_of(t, uform)
        dims_of = lambda ctx, spec: group_dims_uform(ctx, spec, form)   # noqa: E731
        EnvOf = lambda *a, **k: FormEnv(*a, form=form, **k)   # noqa: E731

    def h(ctx):
        from symx.kernels import KernelModel
        if history:
            # an earlier call of the same function on ANOTHER DATASET: its own registry, the same unit names, other scales (numerals;
            # the scales of the case proper are symbols, so "other" holds for all of them). Whatever the call leaves behind in the
            # library - a memo keyed by the spelling of a unit, a cached unit object, a rule table - is there when the case runs
            with ctx.warmup("h0!"):
                try:
                    reg0 = make_registry(ctx, t.groups, both=True)
                    for run in ("A", "B"):
                        call(t.fn, np, Env(ctx, "q", reg0, run))
                except ctx.WarmAbort:
                    pass
                except (core.Unsupported, core.DomainExit):
                    pass
            del KernelModel.calls[:]
        if uform:
            reg = make_registry_uform(ctx, t.groups, form)
        elif dimless:
            reg = make_registry_dimless(ctx, t.groups, concrete=(dimless == "conc"))
        else:
            reg = make_registry(ctx, t.groups, both=True)
        runs = []
        for run in ("A", "B"):
            E = EnvOf(ctx, "q", reg, run)
            n0 = len(KernelModel.calls)
            r = call(t.fn, np, E)
            if r[0] == "raise" and ctx.symbolic and engine_refusal(r[1]):
                raise core.Unsupported(f"NumPy refused the symbolic payload: {type(r[1]).__name__}: {r[1]}"[:300])
            runs.append((E, r, KernelModel.calls[n0:]))
        (E1, r1, c1), (E2, r2, c2) = runs
        del KernelModel.calls[:]
        if r1[0] == "raise" or r2[0] == "raise":
            both = r1[0] == r2[0]
            ctx.require("raises in one unit system only", both, first=str(r1)[:150], second=str(r2)[:150])
            if both:
                ctx.require("same exception class in both unit systems", type(r1[1]) is type(r2[1]), first=str(r1)[:150], second=str(r2)[:150])
            ctx.observe("outcome", r1[0] + r2[0])
            return
        if t.tier == 2 and ctx.symbolic:
            if uform:
                def factor_of(g, E=E2):
                    f = E.factor(g)
                    return f if (f is None or isinstance(f, core.SymReal)) else ctx.const_array([float(f)])[0]
                tier2_axioms(ctx, t, c1, c2, factor_of=factor_of)
            else:
                tier2_axioms(ctx, t, c1, c2)
        f1, f2 = flatten(r1[1]), flatten(r2[1])
        compare(ctx, t, f1, f2, "result")
        oracle(ctx, t, f1, dims_of)
        a1 = [x for n, v in E1.made.items() for x in flatten(v, n)]
        a2 = [x for n, v in E2.made.items() for x in flatten(v, n)]
        compare(ctx, t, a1, a2, "argument after the call")
        if t.tier == 1:
            ctx.observe("result", numeric_obs(r1[1]))
            ctx.observe("result2", numeric_obs(r2[1]))

    cid = {False: f"C07/{t.name}", "sym": f"C07/dimless/{t.name}", "conc": f"C07/dimless-dyadic/{t.name}"}[dimless]
    if uform:
        cid = f"C07/uform/{uform}/{t.name}"
    if history:
        cid = f"C07/rereg/{t.name}"
    return Case(cid, h, bounds="symbolic: every array element, bare scalar argument" + ("" if dimless == "conc" else ", unit scale and re-expression factor"),
                weight=t.weight, max_paths=t.max_paths, budget_s=600.0, conform=t.conform, group=t.key)


def si_affine(leaf):
    s, o = leaf.units.base_value, leaf.units.base_offset
    if isinstance(o, (int, float)) and o == 0:
        return [e * s for e in leaf_elements(leaf)]
    return [(e - o) * s for e in leaf_elements(leaf)]


def compare_mixed(ctx, f1, f2, what, slack):
    """mixed-unit call vs the same call on operands re-expressed into one common unit: same physical quantities"""
    k1 = [(p, k, (o if k == "t" else None)) for p, k, o in f1]
    k2 = [(p, k, (o if k == "t" else None)) for p, k, o in f2]
    norm = lambda ks: [(p, "a" if k in ("n", "b") else k, o) for p, k, o in ks]
    same = norm(k1) == norm(k2)
    ctx.require(f"{what}: same structure as the call in one common unit", same, mixed=str(k1)[:200], common=str(k2)[:200])
    if not same:
        return
    for (p, k, x), (_, _, y) in zip(f1, f2):
        if k not in ("u", "a", "n", "b"):
            continue
        if leaf_shape(x) != leaf_shape(y):
            ctx.require(f"{what} {p}: same shape as the call in one common unit", False)
        elif k == "u":
            ctx.require(f"{what} {p}: same dimension as the call in one common unit", x.units.dimensions == y.units.dimensions, mixed=str(x.units), common=str(y.units))
            ctx.require(f"{what} {p}: same physical quantity as the call in one common unit",
                        And(*[close(a, b, extra=slack) for a, b in zip(si_affine(x), si_affine(y))]) if x.size else True, mixed=str(x)[:250], common=str(y)[:250])
        else:
            ctx.require(f"{what} {p}: same bare result as the call in one common unit", leaves_equal(x, y, exact=False), mixed=str(x)[:250], common=str(y)[:250])


# mixed-unit kinds inside the dimension `dimensionless` (the operands X / X2 of the MIXED templates):
#   dl-scale       two scaled dimensionless units of symbolic scales (percent vs m/km, mol vs mmol)
#   dl-ratio       X in a compound ratio of two length units of symbolic scales (m/km-like), X2 in an atomic dimensionless unit
#   dl-one-first   X in the unscaled unit `dimensionless` (== NULL_UNIT), X2 in a scaled one
#   dl-one-second  X in a scaled one, X2 in `dimensionless`
#   dl-bare-first / dl-bare-second   as dl-one-*, but the unscaled operand is a BARE array (a plain number is a dimensionless
#                  quantity); only for the comparison helpers, whose rule for plain numbers is stated (unyt fix b80acb9)
DL_KINDS = ("dl-scale", "dl-one-first", "dl-one-second", "dl-ratio")
DL_BARE_KINDS = ("dl-bare-first", "dl-bare-second")


def make_mixed_registry_dimless(ctx, kind, groups):
    """-> reg, (U1, U2), group whose operands are bare in the mixed run (or None)"""
    D = ctx.mods["unyt"].dimensions
    reg = ctx.registry([])
    one = U("dimensionless", 1.0, 0.0)
    for g in groups:
        if g in ("T", "M"):
            ctx.add_row(reg, UNITS["A"][g], getattr(D, GROUP_DIMS[g]), ctx.real("s_" + g, pos=True))
    if kind == "dl-ratio":
        # X in a COMPOUND dimensionless unit, the ratio of two lengths (m/km, cm/m): scale s_N/s_D
        sn, sd = ctx.real("s_N", pos=True), ctx.real("s_D", pos=True)
        ctx.add_row(reg, "xb", D.length, sn)
        ctx.add_row(reg, "xh", D.length, sd)
        U1 = U("xb/xh", sn / sd, 0.0)
        ctx.assume(Or(sn > sd * 1.001, sn * 1.001 < sd))
        U2 = U("xg", ctx.real("s_X2", pos=True), 0.0)
        distinct_scales(ctx, sn, sd * U2.s)
        ctx.assume(Or(U2.s > 1.001, U2.s * 1.001 < 1.0))
        ctx.add_row(reg, U2.name, D.dimensionless, U2.s, 0.0)
        return reg, (U1, U2), None
    U1 = one if kind.endswith("-first") else U("xa", ctx.real("s_X", pos=True), 0.0)
    U2 = one if kind.endswith("-second") else U("xg", ctx.real("s_X2", pos=True), 0.0)
    for u in (U1, U2):
        if u is not one:
            # clearly different from the unscaled unit (scale exactly 1 is the `dimensionless` operand of the dl-one-* kinds; a unit
            # within 1e-9 of it is the same unit for unyt, HARNESS_GUIDE lessons)
            ctx.assume(Or(u.s > 1.001, u.s * 1.001 < 1.0))
            ctx.add_row(reg, u.name, D.dimensionless, u.s, 0.0)
    if kind == "dl-scale":
        distinct_scales(ctx, U1.s, U2.s)
    bare = None
    if kind in DL_BARE_KINDS:
        bare = "X" if kind.endswith("-first") else "X2"
    return reg, (U1, U2), bare


class MixEnv(Env):
    """Env of the mixed family with (a) operands of one group left bare in the mixed run, (b) bare numbers that denote a
    DIFFERENCE in the unit of group X2 (atol=) re-expressed by the harness in the common run"""

    def __init__(self, *a, bare=None, **k):
        super().__init__(*a, **k)
        self.bare = bare

    def _wrap(self, x, group):
        if self.bare is not None and group == self.bare and self.run == "M":
            return x
        return super()._wrap(x, group)

    def num(self, name, group="X", **kw):
        v = self._real(name, **kw)
        if group == "X2" and self.run == "C":
            U1, U2 = self.mix
            return v * U2.s / U1.s
        return v


def make_mixed_case(t, kind):
    dimless = kind.startswith("dl-")

    def h(ctx):
        from symx.kernels import KernelModel
        if dimless:
            reg, (U1, U2), bare = make_mixed_registry_dimless(ctx, kind, t.groups)
            Env = lambda *a, **k: MixEnv(*a, bare=bare, **k)
        else:
            reg, (U1, U2) = make_mixed_registry(ctx, kind, t.groups)
            bare = None
            Env = lambda *a, **k: MixEnv(*a, **k)
        slack = (vabs(U1.s * U1.o) + vabs(U2.s * U2.o)) * 1e-6
        EM = Env(ctx, "q", reg, "M", mix=(U1, U2))
        rm = call(t.fn, np, EM)
        del KernelModel.calls[:]
        if rm[0] == "raise":
            if ctx.symbolic and engine_refusal(rm[1]):
                raise core.Unsupported(f"NumPy refused the symbolic payload: {type(rm[1]).__name__}: {rm[1]}"[:300])
            ctx.require("mixed units: the call raises (allowed)", True)
            ctx.observe("outcome", "raise:" + type(rm[1]).__name__)
            return
        EC = Env(ctx, "q", reg, "C", mix=(U1, U2))
        rc = call(t.fn, np, EC)
        del KernelModel.calls[:]
        if rc[0] == "raise":
            if ctx.symbolic and engine_refusal(rc[1]):
                raise core.Unsupported(f"NumPy refused the symbolic payload: {type(rc[1]).__name__}: {rc[1]}"[:300])
            ctx.require("mixed units: returns although the same call in one common unit raises", False, common=str(rc[1])[:200])
            return
        compare_mixed(ctx, flatten(rm[1]), flatten(rc[1]), "result", slack)
        a1 = [x for n, v in EM.made.items() if EM.group[n] != bare for x in flatten(v, n)]
        a2 = [x for n, v in EC.made.items() if EC.group[n] != bare for x in flatten(v, n)]
        compare_mixed(ctx, a1, a2, "argument after the call", slack)
        for n, v in EM.made.items():
            if EM.group[n] == bare:   # the bare operand is not touched and still denotes the same dimensionless numbers
                w = EC.made[n]
                ctx.require(f"argument after the call {n}: the bare operand is unchanged", (not is_unyt(v)) and is_unyt(w) and leaf_shape(v) == leaf_shape(w) and
                            And(*[close(a, b) for a, b in zip(leaf_elements(v), si_affine(w))]))
        if t.tier == 1:
            ctx.observe("result", numeric_obs(rm[1]))

    return Case(f"C07/mixu/{kind}/{t.name}", h, bounds="symbolic: elements, both scales, both offsets", weight=3, max_paths=t.max_paths,
                budget_s=600.0, oblig_timeout_ms=60000, conform=t.conform, group=t.key)


# ============================================================================================ typed secondary operand (ground, per dtype)
# The mixed-unit family runs on object-dtype payloads of z3 reals: a branch on dtype.kind, or arithmetic carried out IN a narrow dtype
# (int16 40 km next to data in m: 40*1000 does not fit), is invisible to it. Twin family `mixu-typed/<dtype>/<factor>/<template>`: every
# Tier-1 template of MIXED is run with the secondary operands (group X2) being REAL typed buffers in another unit of the same dimension,
# next to primary operands (group X) that keep their symbolic object-dtype payload. Compared against the same call with the secondary
# operands given in the data's own unit, built by the harness with exact rational arithmetic on the registry's scales (float64 buffer).
# The scales are numerals here (U1 = 1/4; U2 = 250, 2, 1/400, 1/512): what the axis is about is a branch on the VALUE of the conversion
# factor (whole or not) and on the dtype, and both are read by the real code as Python values. The enumeration over dtype x factor x
# buffer content is GROUND (labelled so in EXPLANATION); the primary operand's elements stay solver variables.
TYPED_DTYPES = ("int8", "int16", "int32", "int64", "uint8", "uint16", "float32", "float64")
TYPED_U1_SCALE = 0.25
TYPED_FACTORS = {"whole-1000": 250.0, "whole-8": 2.0, "frac-100": 0.0025, "frac-128": 0.25 / 128}   # scale of U2; factor = scale / (1/4)
TYPED_QUICK = [(d, "whole-1000") for d in TYPED_DTYPES] + [(d, "frac-100") for d in ("int64", "float64")] + \
              [(d, "frac-128") for d in ("int8", "int16", "int32", "float32")] + [(d, "whole-8") for d in ("int8", "uint16")]
# a non-dyadic factor (1/100) only where the unchanged code computes in float64 (64-bit values): elsewhere value/100 is rounded in a narrow
# float and the boolean / set-type calls would be judged on that rounding
TYPED_COMBOS = [(d, f) for d in TYPED_DTYPES for f in TYPED_FACTORS if f != "frac-100" or np.dtype(d).itemsize == 8]


# buffer values. The unchanged library converts an integer quantity through the float type of the SAME WIDTH (int16 -> float16, int32 ->
# float32, int64 -> float64: unyt_array.in_units; 8-bit integers go through float16 as well). Values are
# chosen so that value x factor is exactly representable there (40 km -> 40000 m is a float16 number, 33 km -> 33000 m is not): the check
# then has no rounding boundary for the boolean / set-type calls to sit on. Products that are NOT representable in the same-width float
# (int16 33 km next to data in m gives 32992 m on the unchanged tree) are a recorded observation about in_units, see OUTSIDE
_TV_WHOLE1000 = {1: [40, 3, 48, 56, 2], 2: [40, 3, 48, 56, 2], 4: [3000000, 3, 4000000, 2500000, 2],
                 8: [9223372036854776, 3, 9223372036854778, 4611686018427388, 2]}       # x 1000 leaves the signed type (except uint16: float16 ends first)
_TV_FLOAT = [70.5, 3.0, 1234.5, 0.75, 9.5]                                               # x 1000 leaves float16 (a narrower intermediate shows)
_TV_SMALL = [96, 7, 120, 1, 100]                                                         # <= 7 bits: exact after / 128 in every float type
_TV_WIDE = [2**52 + 1, 7, 2**52 - 1, 1, 100]                                             # 64-bit only: one rounding in float64 arithmetic


def typed_values(dtype, fkind, n):
    """-> n distinct positive buffer values of `dtype`, exact factor scale(U2)/scale(U1) as a Fraction"""
    from fractions import Fraction
    dt = np.dtype(dtype)
    F = Fraction(TYPED_FACTORS[fkind]) / Fraction(TYPED_U1_SCALE)
    if dt.kind == "f":
        vals = _TV_FLOAT
    elif fkind == "whole-1000":
        vals = _TV_WHOLE1000[dt.itemsize]
    elif fkind == "whole-8":
        vals = [16, 3, 17, 100, 2] if dt.itemsize == 1 else _TV_WHOLE1000[dt.itemsize]
    elif fkind == "frac-100" and dt.itemsize == 8:
        vals = _TV_WIDE
    else:
        vals = _TV_SMALL
    assert n <= len(vals)
    return list(vals[:n]), F


class TypedMixEnv(MixEnv):
    """operands of group X2: run M = a real buffer of `dtype` in unit U2; run C = the same physical values in unit U1, computed by the
    harness as exact rationals value * scale(U2) / scale(U1) (float64 buffer). Every other operand as in the mixed family"""

    def __init__(self, *a, dtype=None, fkind=None, **k):
        super().__init__(*a, **k)
        self.dtype, self.fkind = np.dtype(dtype), fkind

    def q(self, name, group="L", shape=(2,), pos=False, nonzero=False, increasing=False, lo=None, hi=None, pattern=None):
        if group != "X2" or pattern is not None:
            return super().q(name, group, shape, pos=pos, nonzero=nonzero, increasing=increasing, lo=lo, hi=hi, pattern=pattern)
        n = int(np.prod(shape, dtype=int))
        vals, F = typed_values(self.dtype, self.fkind, n)
        if increasing:
            vals = sorted(vals)
        U1, U2 = self.mix
        if self.run == "M":
            x = np.array(vals, dtype=self.dtype).reshape(shape)
            assert [v.item() for v in x.ravel()] == vals, "buffer value not representable in the dtype"
            name_u = U2.name
        else:
            from fractions import Fraction
            x = np.array([float(Fraction(v) * F) for v in vals], dtype=np.float64).reshape(shape)
            name_u = U1.name
        ua, uq = self.ctx.mods["unyt"].unyt_array, self.ctx.mods["unyt"].unyt_quantity
        v = uq(x[()], name_u, registry=self.reg) if shape == () else ua(x, name_u, registry=self.reg)
        self.made[name], self.group[name] = v, group
        return v


def make_typed_mixed_case(t, dtype, fkind):
    def h(ctx):
        from symx.kernels import KernelModel
        D = ctx.mods["unyt"].dimensions
        reg = ctx.registry([])
        U1, U2 = U("xa", TYPED_U1_SCALE, 0.0), U("xg", TYPED_FACTORS[fkind], 0.0)
        ctx.add_row(reg, U1.name, D.length, U1.s)
        ctx.add_row(reg, U2.name, D.length, U2.s)
        for g in t.groups:
            if g in ("T", "M"):
                ctx.add_row(reg, UNITS["A"][g], getattr(D, GROUP_DIMS[g]), ctx.real("s_" + g, pos=True))
        res = []
        for run in ("M", "C"):
            E = TypedMixEnv(ctx, "q", reg, run, mix=(U1, U2), dtype=dtype, fkind=fkind)
            with warnings.catch_warnings(), np.errstate(all="ignore"):
                warnings.simplefilter("ignore")
                r = call(t.fn, np, E)
            del KernelModel.calls[:]
            if r[0] == "raise" and ctx.symbolic and engine_refusal(r[1]):
                raise core.Unsupported(f"NumPy refused the symbolic payload next to the typed buffer: {type(r[1]).__name__}: {r[1]}"[:300])
            res.append((E, r))
        (EM, rm), (EC, rc) = res
        if rm[0] == "raise":
            ctx.require("typed operand in another unit: the call raises (allowed)", True)
            ctx.observe("outcome", "raise:" + type(rm[1]).__name__)
            return
        if rc[0] == "raise":
            ctx.require("typed operand in another unit: returns although the same call in the data's unit raises", False, common=str(rc[1])[:200])
            return
        a1 = [x for n, v in EM.made.items() for x in flatten(v, n)]
        a2 = [x for n, v in EC.made.items() for x in flatten(v, n)]
        # an overflow inside a narrow float type gives inf, which sits inside every relative band: finiteness is compared first
        import math
        for what, fm, fc in (("result", flatten(rm[1]), flatten(rc[1])), ("argument after the call", a1, a2)):
            for (p, k, x), (_, k2, y) in zip(fm, fc):
                if k in "uan" and k2 in "uan" and leaf_shape(x) == leaf_shape(y):
                    bad = [(a, b) for a, b in zip(leaf_elements(x), leaf_elements(y)) if isinstance(a, (int, float)) and isinstance(b, (int, float))
                           and math.isfinite(a) != math.isfinite(b)]
                    ctx.require(f"{what} {p}: finite where the call in the data's unit is finite", not bad, pairs=str(bad)[:200])
        compare_mixed(ctx, flatten(rm[1]), flatten(rc[1]), "result", 0)
        compare_mixed(ctx, a1, a2, "argument after the call", 0)

    return Case(f"C07/mixu-typed/{dtype}/{fkind}/{t.name}", h, bounds=f"ground: secondary operand = {dtype} buffer, factor {fkind}, numeral scales; "
                "symbolic: every element of the primary operand and of out= buffers", weight=1, max_paths=t.max_paths, budget_s=600.0,
                conform=0, group=t.key)


def typed_mixed_cases(tier):
    combos = TYPED_QUICK if tier == "quick" else TYPED_COMBOS
    return [make_typed_mixed_case(t, d, f) for d, f in combos for t in MIXED if t.tier == 1]


def _x2(E, s1=(2,), s2=(2,)):
    return [E.q("a", "X", s1), E.q("b", "X2", s2)]


def _TC(name, key, fn, **kw):
    kw.setdefault("groups", ("X", "X2"))
    return Tpl(name, key, fn, **kw)


# further call forms of the comparison helpers for the mixed family (offset-free kinds only: a tolerance is a difference)
CMP_FORMS = [
    _TC("np.isclose/swapped", "numpy.isclose", lambda N, E: N.isclose(*_x2(E)[::-1], rtol=0.25, atol=0)),
    _TC("np.allclose/swapped", "numpy.allclose", lambda N, E: N.allclose(*_x2(E)[::-1], 0.25, 0)),
    _TC("np.isclose/0d", "numpy.isclose", lambda N, E: N.isclose(*_x2(E, (), ()), rtol=0.25, atol=0)),
    _TC("np.isclose/bcast", "numpy.isclose", lambda N, E: N.isclose(*_x2(E, (2,), ()), 0.25, 0)),
    _TC("np.allclose/0d-first", "numpy.allclose", lambda N, E: N.allclose(*_x2(E, (), (2,)), rtol=0.25, atol=0)),
]
# tolerances given explicitly: atol as a quantity in either unit; a bare atol is a difference in the unit of b (the reference),
# re-expressed by the harness together with b in the common run
CMP_TOL_FORMS = [
    _TC("np.isclose/atol-q-other", "numpy.isclose", lambda N, E: N.isclose(*_x2(E), rtol=0, atol=E.q("t", "X2", (), pos=True))),
    _TC("np.isclose/atol-q-own", "numpy.isclose", lambda N, E: N.isclose(*_x2(E), rtol=0, atol=E.q("t", "X", (), pos=True))),
    _TC("np.allclose/atol-q-other", "numpy.allclose", lambda N, E: N.allclose(*_x2(E), 0, E.q("t", "X2", (), pos=True))),
    _TC("np.isclose/atol-num", "numpy.isclose", lambda N, E: N.isclose(*_x2(E), rtol=0, atol=E.num("t", "X2", pos=True))),
    _TC("np.allclose/atol-num", "numpy.allclose", lambda N, E: N.allclose(*_x2(E), 0, E.num("t", "X2", pos=True))),
]


# templates whose real code folds the scales of dimensionless units into a sympy number (see CONCRETE_K)
DIMLESS_CONCRETE_FUNCS = ("m.std", "m.var", "np.std", "np.nanstd", "np.nanvar")   # every call form of these
DIMLESS_CONCRETE = ("np.var/mean-kw",)


def _dimless_mode(t):
    return "conc" if (t.name in DIMLESS_CONCRETE or t.name.split("/")[0] in DIMLESS_CONCRETE_FUNCS) else "sym"


def dimless_templates(tier):
    """templates that have an operand in the groups L / L2 (re-run with scaled dimensionless units there). quick: the quick
    catalogue without the operand-rank sweep `rank/`; thorough: the full catalogue without the shape sweep `sweep/` and with the
    quick part of `rank/` only (both sweeps vary rank and shape of the same calls, not the unit handling)"""
    out = []
    for t in select(tier, "c07"):
        if not any(g in DIMLESS_GROUPS for g in t.groups) or t.name.startswith("sweep/") or t.name in NUMPY_REFUSES:
            continue
        if t.name.startswith("rank/") and (tier == "quick" or not t.quick):
            continue
        out.append(t)
    return out


# ============================================================================================ identity of operands, spelling of options
# Two further discrete axes, walked over the WHOLE catalogue (not per function): they are properties of the call, not of the numbers.
#
#  (1) ALIASING: the same Python object in two argument positions - x in np.einsum("i,ij,j->", x, A, x), np.dot(a, a),
#      np.clip(a, lo, lo), np.concatenate([a, a]), np.multiply-like out=a. A handler may take a shortcut on `a is b` (or deduplicate its
#      operands by identity) that an equal but distinct array never reaches. Family `alias`: every template in which two operands
#      (quantity operands or an out= buffer and an operand) are created with the same shape and value constraints, once per such
#      pair (j, i): position j receives the very object of position i (which then also decides its unit group).
#  (2) SPELLING OF OPTION ARGUMENTS: NumPy reads flags by truth value and counts through operator.index, so density=True,
#      density=np.True_ (what every NumPy comparison returns) and density=1 request the same thing, as do axis=1 and
#      axis=np.int64(1). A handler that tests `flag is True`, `type(n) is int`, `isinstance(dx, float)` silently takes another
#      branch. Families `flag-npbool` / `flag-int` (every bool passed at the top level of a call through the numpy namespace
#      becomes np.bool_ / 0-1) and `arg-npscalar` (every python int / float becomes np.int64 / np.float64).
#
# Which templates have such positions is learned from a dry run of the template on float placeholders with a recording argument
# factory and a recording numpy namespace (no unyt involved).
import copy
import inspect
import warnings


class _RecEnv:
    """argument factory of the dry run: plain float arrays, records what the template asks for"""

    def __init__(self):
        self.ops, self.made, self.group = [], {}, {}

    def q(self, name, group="L", shape=(2,), pos=False, nonzero=False, increasing=False, lo=None, hi=None, pattern=None):
        if pattern is not None:
            x = np.asarray(pattern, dtype=float)
            shape = x.shape
        else:
            x = np.arange(1.0, 1.0 + int(np.prod(shape, dtype=int))).reshape(shape) * 1.5
        self.ops.append(dict(kind="q", name=name, group=group, shape=tuple(shape),
                             cons=(pos, nonzero, increasing, lo, hi, None if pattern is None else repr(pattern))))
        self.made[name], self.group[name] = x, group
        return x

    def raw(self, name, shape=(2,), **kw):
        return self.q(name, "bare", shape, **kw)

    def num(self, name, group="L", **kw):
        self.ops.append(dict(kind="num", name=name, group=group, shape=None, cons=None))
        return 1.25

    def out(self, name, group, shape):
        x = np.zeros(shape)
        self.ops.append(dict(kind="out", name=name, group=group, shape=tuple(shape), cons=None))
        self.made[name], self.group[name] = x, group
        return x

    def const(self, values, group=None):
        return np.asarray(values, dtype=float)


class _NPProxy:
    """numpy namespace that hands every top-level call (function, args, kwargs) to `hook` before forwarding it"""

    def __init__(self, real, hook):
        self._real, self._hook = real, hook

    def __getattr__(self, k):
        v = getattr(self._real, k)
        if inspect.ismodule(v):
            return _NPProxy(v, self._hook)
        if callable(v) and not isinstance(v, type):
            hook = self._hook

            def f(*a, **kw):
                a, kw = hook(v, a, kw)
                return v(*a, **kw)
            return f
        return v


_DRY = {}


def dry_run(t):
    """-> (operands asked for, [(args, kwargs) of every call through the numpy namespace])"""
    if id(t) not in _DRY:
        E, log = _RecEnv(), []

        def hook(f, a, kw):
            log.append((a, kw))
            return a, kw
        with warnings.catch_warnings(), np.errstate(all="ignore"):
            warnings.simplefilter("ignore")
            try:
                t.fn(_NPProxy(np, hook), E)
            except Exception:  # noqa: BLE001 - NumPy refusing the placeholder call: the arguments are recorded before
                pass
        _DRY[id(t)] = (E.ops, log)
    return _DRY[id(t)]


def _derive(t, name, fn, **attrs):
    d = copy.copy(t)
    d.name, d.fn = name, fn
    for k, v in attrs.items():
        setattr(d, k, v)
    return d


# ---- (1) aliasing
class _AliasEnv:
    """view of an Env in which the operands named in `same` are not created: they ARE the object made earlier under another name"""

    def __init__(self, E, same):
        self._E, self._same = E, same

    def __getattr__(self, k):
        return getattr(self._E, k)

    def _alias(self, name):
        E, src = self._E, self._same[name]
        E.made[name], E.group[name] = E.made[src], E.group[src]
        return E.made[name]

    def q(self, name, *a, **kw):
        return self._alias(name) if name in self._same else self._E.q(name, *a, **kw)

    def out(self, name, *a, **kw):
        return self._alias(name) if name in self._same else self._E.out(name, *a, **kw)

    def raw(self, name, shape=(2,), **kw):
        return self.q(name, "bare", shape, **kw)


_UNITLESS = ("bare", None)


def _alias_dim(spec, gj, gi):
    """dimension oracle of the call in which the only operand of group gj has become an operand of group gi"""
    if isinstance(spec, list):
        return [_alias_dim(s, gj, gi) for s in spec]
    if isinstance(spec, dict) and gj in spec:
        d = dict(spec)
        e = d.pop(gj)
        d[gi] = d.get(gi, 0) + e
        return {g: x for g, x in d.items() if x != 0}
    return spec


def alias_templates(templates):
    out = []
    for t in templates:
        if "mixdim" in t.name or t.name.startswith(("sweep/", "round/")):
            continue   # mixdim: aliasing turns the call into the equal-dimension form that is in the catalogue anyway
        ops, _ = dry_run(t)
        arr = [o for o in ops if o["kind"] in ("q", "out") and o["group"] not in _UNITLESS]
        for j, oj in enumerate(arr):
            for oi in arr[:j]:
                if oi["name"] == oj["name"] or oi["shape"] != oj["shape"] or oi["kind"] == "out":
                    continue
                if oj["kind"] == "q" and oi["cons"] != oj["cons"]:
                    continue
                gi, gj = oi["group"], oj["group"]
                dim = t.dim
                if gi != gj:
                    if oj["kind"] == "out" or t.tier == 2 or "1" in (gi, gj):
                        continue   # an out= buffer keeps its own unit group; Tier-2 argument groups are declared per kernel argument
                    others = [o for o in ops if o["group"] == gj and o["name"] != oj["name"]]
                    dim = _alias_dim(t.dim, gj, gi) if not others else None
                same = {oj["name"]: oi["name"]}
                out.append(_derive(t, f"alias/{t.name}/{oj['name']}={oi['name']}", (lambda t, same: lambda N, E: t.fn(N, _AliasEnv(E, same)))(t, same), dim=dim))
    return out


# ---- (2) spelling of option arguments
def _spell_npbool(v):
    return np.bool_(v) if isinstance(v, bool) else v


def _spell_int(v):
    return int(v) if isinstance(v, bool) else v


def _spell_npscalar(v):
    if type(v) is int:
        return np.int64(v)
    if type(v) is float:
        return np.float64(v)
    return v


SPELLINGS = {"flag-npbool": (_spell_npbool, (bool,)), "flag-int": (_spell_int, (bool,)), "arg-npscalar": (_spell_npscalar, (int, float))}


def _has_option(t, types):
    _, log = dry_run(t)
    return any(type(v) in types for a, kw in log for v in list(a) + list(kw.values()))


def spelled_templates(templates, family):
    sp, types = SPELLINGS[family]

    def hook(f, a, kw):
        return tuple(sp(v) for v in a), {k: sp(v) for k, v in kw.items()}
    return [_derive(t, f"{family}/{t.name}", (lambda t: lambda N, E: t.fn(_NPProxy(N, hook), E))(t)) for t in templates if _has_option(t, types)]


# ---- templates of C07 only: products of three and more operands in different units (the forms in which an operand can recur around
# another one), and explicit falsy flags (so that the falsy spellings 0 / np.False_ are walked as well)
DLLT = {"L": 2, "T": 1}
_LT = ("L", "T")


def _xax(E, sa=(2,), sb=(2, 2), sc=(2,), g=("L", "T", "L")):
    return E.q("a", g[0], sa), E.q("b", g[1], sb), E.q("c", g[2], sc)


EXTRA = [
    Tpl("np.einsum/quadratic-form", "numpy.einsum", lambda N, E: N.einsum("i,ij,j->", *_xax(E)), groups=_LT, dim=DLLT),
    Tpl("np.einsum/triple-LTL", "numpy.einsum", lambda N, E: N.einsum("i,i,i->", *_xax(E, sb=(2,))), groups=_LT, dim=DLLT),
    Tpl("np.einsum/triple-LLT", "numpy.einsum", lambda N, E: N.einsum("i,i,i->i", *_xax(E, sb=(2,), g=("L", "L", "T"))), groups=_LT, dim=DLLT),
    Tpl("np.einsum/triple-TLL-out", "numpy.einsum", lambda N, E: N.einsum("i,i,i->i", *_xax(E, sb=(2,), g=("T", "L", "L")), out=E.out("o", "L", (2,))), groups=_LT, dim=DLLT, quick=False),
    Tpl("np.einsum/four-LTLT", "numpy.einsum", lambda N, E: N.einsum("i,i,i,i->", *_xax(E, sb=(2,)), E.q("d", "T", (2,))), groups=_LT, dim={"L": 2, "T": 2}),
    Tpl("np.einsum/sandwich-matrices", "numpy.einsum", lambda N, E: N.einsum("ij,jk,kl->il", *_xax(E, (2, 2), (2, 2), (2, 2))), groups=_LT, dim=DLLT, quick=False),
    Tpl("np.einsum/sublist-form", "numpy.einsum", lambda N, E: (lambda a, b, c: N.einsum(a, [0], b, [0, 1], c, [1]))(*_xax(E)), groups=_LT, dim=DLLT,
        note="NumPy's second call form einsum(op0, sublist0, op1, sublist1, ...): no subscripts string in front"),
    Tpl("np.linalg.multi_dot/ABA", "numpy.linalg.multi_dot", lambda N, E: N.linalg.multi_dot(list(_xax(E, (2, 2), (2, 2), (2, 2)))), groups=_LT, dim=DLLT),
    Tpl("np.linalg.multi_dot/AAB", "numpy.linalg.multi_dot", lambda N, E: N.linalg.multi_dot(list(_xax(E, (2, 2), (2, 2), (2, 2), g=("L", "L", "T")))), groups=_LT, dim=DLLT, quick=False),
    Tpl("np.linalg.multi_dot/xAx", "numpy.linalg.multi_dot", lambda N, E: N.linalg.multi_dot(list(_xax(E))), groups=_LT, dim=DLLT),
    Tpl("np.linalg.multi_dot/four", "numpy.linalg.multi_dot", lambda N, E: N.linalg.multi_dot(list(_xax(E, (2, 2), (2, 2), (2, 2))) + [E.q("d", "T", (2, 2))]), groups=_LT,
        dim={"L": 2, "T": 2}, quick=False),
    # explicit falsy / default-valued flags
    Tpl("np.histogram/density-false", "numpy.histogram", lambda N, E: N.histogram(E.q("a", "L", (3,)), bins=2, density=False), dim=["bare", {"L": 1}], tier=2, kargs={"a": "L"}),
    Tpl("np.histogram/density-false-weights", "numpy.histogram", lambda N, E: N.histogram(E.q("a", "L", (3,)), 2, None, False, E.q("w", "T", (3,))), groups=_LT,
        dim=[{"T": 1}, {"L": 1}], tier=2, kargs={"a": "L", "weights": "T"}),
    Tpl("np.histogram2d/density-false", "numpy.histogram2d", lambda N, E: N.histogram2d(E.q("a", "L", (3,)), E.q("b", "T", (3,)), bins=2, density=False), groups=_LT,
        dim=["bare", {"L": 1}, {"T": 1}], tier=2, kargs={"x": "L", "y": "T"}),
    Tpl("np.histogramdd/density-false", "numpy.histogramdd", lambda N, E: N.histogramdd([E.q("a", "L", (3,)), E.q("b", "T", (3,))], bins=2, density=False), groups=_LT,
        dim=["bare", [{"L": 1}, {"T": 1}]], tier=2, kargs={("sample", 0): "L", ("sample", 1): "T"}),
    Tpl("np.linspace/retstep-false", "numpy.linspace", lambda N, E: N.linspace(E.q("a", "L", ()), E.q("b", "L", ()), 3, True, False), dim={"L": 1}),
    Tpl("np.intersect1d/indices-false", "numpy.intersect1d", lambda N, E: N.intersect1d(E.q("a", "L", (2,)), E.q("b", "L", (2,)), False, False), dim={"L": 1}),
    Tpl("np.linalg.svd/compute_uv-kw", "numpy.linalg.svd", lambda N, E: N.linalg.svd(E.q("a", "L", pattern=[[1, 2, 0], [0, 1, 3]]), compute_uv=True), dim=["bare", {"L": 1}, "bare"],
        tier=2, kargs={"a": "L"}),
    Tpl("np.unique/flags-false", "numpy.unique", lambda N, E: N.unique(E.q("a", "L", (2,)), False, False, False), dim={"L": 1}),
    Tpl("np.average/returned-false", "numpy.average", lambda N, E: N.average(E.q("a", "L", (2,)), weights=E.q("w", "T", (2,), pos=True), returned=False), groups=_LT, dim={"L": 1}),
    Tpl("np.sum/keepdims-false", "numpy.sum", lambda N, E: N.sum(E.q("a", "L", (2, 2)), 1, None, None, False), dim={"L": 1}, quick=False),
    Tpl("np.copyto/where-true", "numpy.copyto", lambda N, E: N.copyto(E.q("a", "L", (2,)), E.q("b", "L", (2,)), where=True)),
]


def extra_templates(tier):
    return [t for t in EXTRA if t.quick or tier != "quick"]


# templates of the shared catalogue that cannot be decided here: NumPy itself refuses the object payload in BOTH runs before any unyt code
# decides, so the symbolic case would only ever see "raises in both unit systems" (vacuous) while float data take another route
NUMPY_REFUSES = {
    "np.unique/axis": "np.unique(axis=) is not supported for dtype object (TypeError from NumPy). By hand on plain unyt: np.unique([[1.],[2.]] m, axis=0) "
                      "returns a BARE ndarray (np.unique without axis keeps the unit) - seen in the float conformance run only, not decidable symbolically",
}


def catalogue(tier):
    return [t for t in select(tier, "c07") if t.name not in NUMPY_REFUSES] + extra_templates(tier)


def family_templates(tier, mods):
    """-> {family: derived templates} of the aliasing and option-spelling axes"""
    base = catalogue(tier)
    fam = {"alias": alias_templates(base)}
    for f in ("flag-npbool", "flag-int"):
        fam[f] = spelled_templates(base, f)
    sc = [t for t in base if not t.name.startswith(("sweep/", "rank/", "round/"))]
    if tier == "quick":
        # quick: numpy-scalar spellings only where a unyt handler receives the argument (functions without a handler hand it to NumPy)
        handled = set(handler_coverage(mods)[0])
        sc = [t for t in sc if t.key in handled]
    fam["arg-npscalar"] = spelled_templates(sc, "arg-npscalar")
    return fam


def cases(tier, mods):
    check_names(mods, NAMES)
    install_numpy_patches()
    out = [make_case(t) for t in catalogue(tier)]
    out += [make_mixed_case(t, kind) for kind in MIX_KINDS for t in MIXED
            if not (kind == "affine" and t.name == "np.histogram/range-both-other")]   # quick and thorough
    # ---- scaled dimensionless units (quick and thorough)
    out += [make_case(t, dimless=_dimless_mode(t)) for t in dimless_templates(tier)]
    slow = lambda t, kind: kind == "dl-ratio" and t.tier == 2   # three scale symbols inside one uninterpreted application: 30 s each
    out += [make_mixed_case(t, kind) for kind in DL_KINDS for t in MIXED if not slow(t, kind)]
    out += [make_mixed_case(t, kind) for kind in ("scale",) + DL_KINDS for t in CMP_FORMS + CMP_TOL_FORMS]
    cmp_atol0 = [t for t in MIXED if t.key in ("numpy.isclose", "numpy.allclose")] + CMP_FORMS
    out += [make_mixed_case(t, kind) for kind in DL_BARE_KINDS for t in cmp_atol0]
    # ---- mixed units with a real typed buffer as secondary operand (ground per dtype x factor; quick and thorough)
    out += typed_mixed_cases(tier)
    # ---- identity of operands, spelling of option arguments (quick and thorough)
    for fam, ts in family_templates(tier, mods).items():
        out += [make_case(t) for t in ts]
    # ---- compound operand units; the same call earlier on another dataset (quick and thorough)
    out += [make_case(t, uform=f) for t, f in uform_templates(catalogue(tier), tier, mods)]
    out += [make_case(t, history=True) for t in history_templates(catalogue(tier), tier, mods)]
    return out


def coverage_extra(results, tier):
    from .catalogue_common import coverage_summary
    out = coverage_summary(results, tier, "c07")
    out["dimension_oracle_entries"] = sum(1 for t in select(tier, "c07") if t.dim is not None)
    out["templates_checked_for_dimension_only"] = sorted(t.name for t in select(tier, "c07") if not t.cov)
    ids = [r["id"] for r in results]
    out["numpy_refuses_object_payload"] = dict(NUMPY_REFUSES)
    out["c07_only_templates"] = sorted(t.name for t in extra_templates(tier))
    out["identity_and_spelling_axes"] = {f: sum(1 for i in ids if i.startswith(f"C07/{f}/")) for f in ("alias", "flag-npbool", "flag-int", "arg-npscalar")}
    out["compound_operand_units"] = {f: sum(1 for i in ids if i.startswith(f"C07/uform/{f}/")) for f in UFORMS}
    out["history_same_call_on_another_registry"] = sum(1 for i in ids if i.startswith("C07/rereg/"))
    out["typed_secondary_operand_ground"] = {d: sum(1 for i in ids if i.startswith(f"C07/mixu-typed/{d}/")) for d in TYPED_DTYPES}
    out["scaled_dimensionless"] = dict(
        templates_rerun_with_dimensionless_units=sum(1 for i in ids if i.startswith("C07/dimless")),
        of_which_with_concrete_dyadic_scales=sum(1 for i in ids if i.startswith("C07/dimless-dyadic/")),
        mixed_unit_cases={k: sum(1 for i in ids if i.startswith(f"C07/mixu/{k}/")) for k in DL_KINDS + DL_BARE_KINDS})
    return out
