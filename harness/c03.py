"""C03 - unit conversion obeys identity, inverse and composition laws on every route."""
import itertools
import math

import numpy as np

from .common import (PREFIX, And, Case, HarnessError, Not, Or, U, all_close, call, check_names, close, elements, exact_eq,
                     payload, si_close, vabs)

LEVEL = "other"
MANIFEST = dict(
    category="other",
    text=("Bounded symbolic execution of the real conversion code (symx): for every enumerated pair/triple of unit kinds and "
          "every entry point, z3 proves identity, inverse, composition, route agreement and the affine SI oracle for ALL real "
          "values, scales and offsets (unsat of pc & not P per path); any model is replayed on plain unyt. Call histories are "
          "run inside one path: chains of 1-2 conversions (copying routes and in-place twins) followed by one in-place step on "
          "any of the objects alive, with z3 proving that every other object keeps its numbers and unit and that the same "
          "request still gives the oracle's numbers; the same spellings with other scales in a second registry, interleaved, "
          "with warm caches. The name table of the two affine dimensions (difference units, alternative spellings, prefixed forms) is walked "
          "against anchors and in three-unit chains, with user-defined symbolic units under a difference-unit spelling; the dtype of the "
          "buffer (int64, uint64, int32, float32) is an axis of the chain, base-route and history families, with symbolic (integer) values. "
          "Request sequences across registries run inside one path: one source, the target walking over Unit objects of the same spelling in two other "
          "registries, another spelling, a string and a Unit of the source's registry (and mirrored: one target object, same-spelling sources of "
          "several registries), every scale and offset symbolic, through every entry point; z3 proves each answer against the scale the target "
          "OBJECT carries, plus inverse and composition across the registries. "
          "Bounded: kinds, chains, payload shapes <= (2,2); rounding, complex and 1-/2-byte buffers are outside."),
    design="DESIGN.md section 4 C03",
    technique="symbolic execution of the real Python code over z3 real terms; SMT (QF_NRA) obligations per path; counterexample replay")
EXPLANATION = (
    "The real _get_conversion_factor, _split_prefix, _check_em_conversion, _em_conversion, in_units/to, to_value, "
    "convert_to_units, in_base/in_cgs/in_mks, convert_to_base/cgs/mks, get_base_equivalent and Unit.get_conversion_factor "
    "are executed on quantities whose value(s), unit scales and unit offsets are z3 reals (custom registry rows). Per path, "
    "z3 decides pc & not(P) for: A->A identity, A->B->A inverse, A->B->C == A->C, agreement of every route (to, in_units, "
    "to_value, convert_to_units in place, factor/offset by hand, base routes) in numbers and unit, all against the "
    "independent affine oracle SI = s*(x - o). unsat = holds for every real value/scale/offset on that path. "
    "History family (hist): inside ONE path a source in A is sent through a chain of 1-2 steps (to / in_units with a string, "
    "a Unit object or its own unit object, to_value with and without a unit, in_base/in_cgs/in_mks, or an in-place twin first) "
    "to B, where B is A's own spelling, a second symbol with A's scale and offset, or any other unit (z3 then also covers equal "
    "scales); then ONE in-place step (convert_to_units by string / Unit, convert_to_base mks/cgs, convert_to_cgs, convert_to_mks, "
    "an in-place multiply by a symbolic k, a raw write of a symbolic w through .d) hits one of the objects alive, each in turn; "
    "z3 then proves that every OTHER object still holds exactly its numbers and its unit, that the victim reads the oracle's "
    "value in its new unit (A->B->C with the second leg in place == A->C), and that fresh to(C)/to_value(C) requests from a "
    "survivor still give the oracle's numbers (the same request repeated). Epoch family: two registries give the spellings "
    "xa, xb different symbolic scales/offsets; the same request alternates between them through all six entry points, twice. "
    "Name-table family (name*, nameChain*): every spelling kind of the temperature and angle tables - K, R, degC, degF, the difference units "
    "delta_degC/delta_degF, prefixed forms (mdegC, kdegC, kdelta_degC, mdelta_degC, mK, mrad), alternative names (celsius, degree_celsius, "
    "\u00b0C, \u00b0F, fahrenheit, kelvin, rankine, latitude, degree_longitude), Tsun, arcmin, arcsec, hourangle, rev - is converted to and from each "
    "anchor of its family (degC, K, degF, delta_degC, a free symbolic affine unit; lat, degree, a free symbolic affine angle) through "
    "all six entry points and ten more call forms of them (target by keyword, as a Unit object, with equivalence=None spelled out) and stands in the middle and at the ends of three-unit chains, against oracle constants written in the "
    "harness: a unit that the code singles out by its spelling disagrees with them for symbolic values. User-defined units spelled "
    "delta_x.. (symbolic scale) are members of the symbolic pair/triple families. "
    "Dtype axis (typed, base/../<dtype>, histTyped): the payload is the same object array of z3 terms inside a carrier that reports "
    "int64 / uint64 / int32 / float32 through .dtype, .d and .ndview and follows NumPy's rules for x.dtype = f, x.astype(f) and "
    "x.copy(); the real integer branches of convert_to_units (retyping dance), in_units / in_base (overflow test, float width) run on "
    "it with symbolic integer values (z3: ToInt(x) = x, bounded), all six entry points, the base routes with their in-place twins, "
    "and histories whose head is the typed buffer converted in place before or after copies were derived from it. "
    "Cross-registry request sequences (xreg, xregSrc): three registries S, B, C each define the spelling xb (and xa / xc) with their own symbolic "
    "scale and offset; inside ONE path (nothing is reset between requests, so every memo layer of the library is warm) the same source "
    "quantity xa of S is converted to, in several orders and with repeats: Unit('xb') of B, Unit('xb') of C, another spelling Unit('xc') of B, "
    "the string 'xb' (resolved in S) and Unit('xb') of S - through to, in_units, to_value, convert_to_units on a copy, get_conversion_factor by "
    "hand (two spellings), an in-place walk of ONE object through all the targets (each leg from the previous target's registry), and a "
    "mixed sequence of entry points and call forms; kinds: plain, prefixed, offset (temperature), prefixed offset, angle with offset. Per "
    "request z3 proves: the numbers are the affine oracle's with the scale/offset of the registry the target OBJECT belongs to, the unit "
    "returned is that object's, A->B->A back to the source's unit, A->(previous target)->(this target) == A->(this target) across "
    "registries, input untouched. xregSrc mirrors it: ONE target object Unit('xb') of B, the source walking over xa of S, xa of C, xc of S "
    "and xa of B. A factor remembered under spellings, or under one side's registry only, answers the second request with the first one's scale."
)
BOUNDS = {
    "quick": "unit kinds {plain, prefixed plain, compound, temperature plain/affine/prefixed-affine, user angle with offset, "
             "table lat/lon/degree/rad, 10 EM pairs with SI prefixes}; all ordered pairs per family, selected triples; "
             "scalar and 2-element payloads; 6 entry points. Histories: 20 (A, B, C) triples (B = own spelling / same-scale twin symbol "
             "/ free; user-defined symbolic units, table units incl. Hz|1/s and J|N*m, T|G|mT and C|statC through the EM route) x 8 in-place "
             "steps x {plain `to` + every 4th of 18 other chains of length 1-2, rotated so that each triple sees every chain} x every "
             "object of the history as the victim; scalar or 2-element payloads. Epoch: 2 families (length; temperature with "
             "offsets, those of the first registry non-zero), 2 registries x 6 entry points x 2 rounds. Name table: 19 temperature and 11 angle "
             "spellings x (5 resp. 3 anchors, both directions, 6 entry points) + 2 three-unit chains per spelling (to + convert_to_units). "
             "Dtypes: 11 pairs + 2 triples x {int64 + one of uint64/int32/float32, rotating} x 6 entry points, 8 base-route cases x 2 dtypes, "
             "5 history triples x 6 in-place conversions x {int64, uint64, int32} rotating; integer values in [-30000, 30000]. "
             "Cross-registry sequences: 3 kinds (plain, offset, prefixed) x 8 entry points (6 + in-place walk + mixed call forms), one of 6 orders "
             "of 5 requests each (rotating; offset kind: the first 3 requests), + mirrored: 3 kinds x 6 entry points, one of 4 orders of 4 sources; scalar / 2-element payloads "
             "alternating; the scales of one sequence assumed pairwise different (ratio > 1.001) and the offsets non-zero",
    "thorough": "same kinds; all ordered triples per family; scalar, (2,) and (2,2) payloads; 6 entry points; EM pairs with 3 prefixes. "
                "Histories: 40 triples (adds compound, energy, two free affine units, symbolic prefixed-offset targets, more table "
                "pairs) x 8 in-place steps x {`to` + "
                "every 2nd other chain} (thinned: the full chain product costs ~4x), the other payload shape of the quick tier, plus (2,2) "
                "on three triples; epoch families (length, temperature, angle) with scalar and 2-element payloads. Name table: each spelling "
                "additionally between every ordered pair of anchors and before each anchor. Dtypes: all four dtypes x both shapes on every "
                "typed pair/triple (three free units: scalar only) and base case, 10 history triples. Cross-registry sequences: 5 kinds "
                "(adds prefixed offset, angle with offset) x 8 entry points x every second of 6 orders (rotating: every (entry, order) and (kind, "
                "order) pair is walked), mirrored likewise over 4 orders; 12 /free cases (3 requests, no assumption on scales/offsets: equal "
                "scales and zero offsets included) on to + mixed",
}
OUTSIDE = ("IEEE rounding/overflow (A1); complex, float16 and 1-/2-byte integer payloads (C17); typed payloads are walked on the listed "
           "pairs/triples only (not on every kind pair), their values are bounded by 30000 in magnitude (the overflow branch of the "
           "integer routes is C17's), their result dtype is not an obligation, and a typed 4-byte case is not part of the pinned-vs-plain "
           "conformance sample (float32 rounding); in-place multiply / raw write on integer buffers (NumPy refuses the cast); table spellings "
           "of dimensions without offsets (the compound/plain families use symbolic units and a few table units); units whose scale is not "
           "positive except the table's lat; histories longer than two derivations plus one in-place step; in-place arithmetic other "
           "than multiply and a raw buffer write; equivalence routes (to_equivalent, C09); base routes inside EM histories; histories "
           "with three free symbolic scales at once (the third unit of such a history is a table unit); cross-registry sequences: more than "
           "three registries, compound targets, EM and base routes across registries, sequences longer than five requests, equal scales / zero "
           "offsets on other than the /free cases, a symbolic base scale under a prefixed offset unit")

NAMES = ["xa", "xb", "xc", "xta", "xtb", "xtc", "xtk", "xtp", "xtq", "xga", "xgb", "xs"]


class Kind:
    """a way to obtain a unit of some family; build(ctx, reg, slot) -> (unit_string, oracle U)"""

    def __init__(self, name, family, build):
        self.name, self.family, self.build = name, family, build


def _plain(dims_name, prefix=""):
    def build(ctx, reg, slot):
        D = getattr(ctx.mods["unyt"].dimensions, dims_name)
        n = "x" + "abc"[slot]
        s = ctx.real(n + "_s", pos=True)
        ctx.add_row(reg, n, D, s, 0.0, prefixable=True)
        if prefix:
            return prefix + n, U(prefix + n, s * PREFIX[prefix], 0.0)
        return n, U(n, s, 0.0)
    return build


def _compound(ctx, reg, slot):
    D = ctx.mods["unyt"].dimensions
    n = "x" + "abc"[slot]
    s = ctx.real(n + "_s", pos=True)
    ctx.add_row(reg, n, D.length, s, 0.0, prefixable=True)
    if "xs" not in reg.lut:
        ctx.add_row(reg, "xs", D.time, ctx.real("xs_s", pos=True), 0.0)
    st = ctx.real("xs_s", pos=True)
    return f"{n}**2/xs", U(f"{n}**2/xs", s * s / st, 0.0)


def _temp_plain(ctx, reg, slot):
    D = ctx.mods["unyt"].dimensions
    n = "xtk" if slot == 0 else "xtk" + "abc"[slot]
    s = ctx.real(n + "_s", pos=True)
    ctx.add_row(reg, n, D.temperature, s, 0.0)
    return n, U(n, s, 0.0)


def _temp_affine(ctx, reg, slot):
    D = ctx.mods["unyt"].dimensions
    n = "xt" + "abc"[slot]
    s = ctx.real(n + "_s", pos=True)
    o = ctx.real(n + "_o")
    ctx.add_row(reg, n, D.temperature, s, o)
    return n, U(n, s, o)


def _temp_prefixed(prefix, base_scale_symbolic=False):
    def build(ctx, reg, slot):
        D = ctx.mods["unyt"].dimensions
        n = ["xtp", "xtq", "xtr"][slot]
        sb = ctx.real(n + "_s", pos=True) if base_scale_symbolic else 1.0
        o = ctx.real(n + "_o")
        ctx.add_row(reg, n, D.temperature, sb, o, prefixable=True)
        p = PREFIX[prefix]
        # a reading x of the prefixed unit is the reading p*x of the base unit: SI = sb*(p*x - o) = sb*p*(x - o/p)
        return prefix + n, U(prefix + n, sb * p, o / p)
    return build


def _angle_affine(ctx, reg, slot):
    D = ctx.mods["unyt"].dimensions
    n = "xg" + "abc"[slot]
    s = ctx.real(n + "_s", pos=True)
    o = ctx.real(n + "_o")
    ctx.add_row(reg, n, D.angle, s, o)
    return n, U(n, s, o)


def _named_plain(ctx, reg, n, dims_name):
    s = ctx.real(n + "_s", pos=True)
    ctx.add_row(reg, n, getattr(ctx.mods["unyt"].dimensions, dims_name), s, 0.0)
    return n, U(n, s, 0.0)


def _table(name, s, o=0.0):
    def build(ctx, reg, slot):
        return name, U(name, s, o)
    return build


KINDS = {
    "plainL": Kind("plainL", "L", _plain("length")),
    "kplainL": Kind("kplainL", "L", _plain("length", "k")),
    "uplainL": Kind("uplainL", "L", _plain("length", "u")),
    "plainE": Kind("plainE", "E", _plain("energy")),
    "MplainE": Kind("MplainE", "E", _plain("energy", "M")),
    "compound": Kind("compound", "C", _compound),
    "Tplain": Kind("Tplain", "T", _temp_plain),
    "Taffine": Kind("Taffine", "T", _temp_affine),
    "Tk": Kind("Tk", "T", _temp_prefixed("k")),
    "Tm": Kind("Tm", "T", _temp_prefixed("m")),
    "TkS": Kind("TkS", "TS", _temp_prefixed("k", True)),
    "Gaffine": Kind("Gaffine", "G", _angle_affine),
    "rad": Kind("rad", "G", _table("rad", 1.0)),
    "degree": Kind("degree", "G", _table("degree", math.pi / 180.0)),
    "lat": Kind("lat", "G", _table("lat", -math.pi / 180.0, 90.0)),
    "lon": Kind("lon", "G", _table("lon", math.pi / 180.0, -180.0)),
    "K": Kind("K", "T", _table("K", 1.0)),
    "degC": Kind("degC", "T", _table("degC", 1.0, -273.15)),
    "degF": Kind("degF", "T", _table("degF", 5.0 / 9.0 if False else None, -459.67)),
    "mdegC": Kind("mdegC", "T", _table("mdegC", 1e-3, -273150.0)),
    # the rest of the temperature / angle name table: difference units, alternative spellings, prefixed forms, zero-offset rows
    # (oracle constants written here; a unit that the code singles out by its spelling shows as a disagreement with them)
    "delta_degC": Kind("delta_degC", "T", _table("delta_degC", 1.0)),
    "delta_degF": Kind("delta_degF", "T", _table("delta_degF", 5.0 / 9.0)),
    "kdelta_degC": Kind("kdelta_degC", "T", _table("kdelta_degC", 1e3)),
    "mdelta_degC": Kind("mdelta_degC", "T", _table("mdelta_degC", 1e-3)),
    "kdegC": Kind("kdegC", "T", _table("kdegC", 1e3, -0.27315)),
    "mK": Kind("mK", "T", _table("mK", 1e-3)),
    "celsius": Kind("celsius", "T", _table("celsius", 1.0, -273.15)),
    "degree_celsius": Kind("degree_celsius", "T", _table("degree_celsius", 1.0, -273.15)),
    "oC": Kind("oC", "T", _table("\u00b0C", 1.0, -273.15)),
    "oF": Kind("oF", "T", _table("\u00b0F", 5.0 / 9.0, -459.67)),
    "fahrenheit": Kind("fahrenheit", "T", _table("fahrenheit", 5.0 / 9.0, -459.67)),
    "kelvin": Kind("kelvin", "T", _table("kelvin", 1.0)),
    "rankine": Kind("rankine", "T", _table("rankine", 5.0 / 9.0)),
    "Tsun": Kind("Tsun", "T", _table("Tsun", 5870.0)),
    "arcmin": Kind("arcmin", "G", _table("arcmin", math.pi / 10800.0)),
    "arcsec": Kind("arcsec", "G", _table("arcsec", math.pi / 648000.0)),
    "hourangle": Kind("hourangle", "G", _table("hourangle", math.pi / 12.0)),
    "rev": Kind("rev", "G", _table("rev", 2.0 * math.pi)),
    "mrad": Kind("mrad", "G", _table("mrad", 1e-3)),
    "latitude": Kind("latitude", "G", _table("latitude", -math.pi / 180.0, 90.0)),
    "degree_longitude": Kind("degree_longitude", "G", _table("degree_longitude", math.pi / 180.0, -180.0)),
    # a user-defined difference unit: zero offset, symbolic scale, spelled like the table's difference units
    "Tdelta": Kind("Tdelta", "T", lambda ctx, reg, slot: _named_plain(ctx, reg, "delta_xt" + "abc"[slot], "temperature")),
    "Gdelta": Kind("Gdelta", "G", lambda ctx, reg, slot: _named_plain(ctx, reg, "delta_xg" + "abc"[slot], "angle")),
    # table units of equal scale under different spellings (the oracle constants are written here, not read from unyt)
    "m": Kind("m", "Ltab", _table("m", 1.0)),
    "cm": Kind("cm", "Ltab", _table("cm", 1e-2)),
    "Hz": Kind("Hz", "F", _table("Hz", 1.0)),
    "per_s": Kind("per_s", "F", _table("1/s", 1.0)),
    "kHz": Kind("kHz", "F", _table("kHz", 1e3)),
    "J": Kind("J", "Etab", _table("J", 1.0)),
    "Nm": Kind("Nm", "Etab", _table("N*m", 1.0)),
    "erg": Kind("erg", "Etab", _table("erg", 1e-7)),
    # EM pairs for the history family only: the "scale" is the reading of one unit of it in the SI partner (tesla, coulomb), so
    # that the affine oracle can follow a quantity across the CGS<->SI route (factors as in EM_FACTOR below)
    "tesla": Kind("tesla", "EM", _table("T", 1.0)),
    "gauss": Kind("gauss", "EM", _table("G", 1.0e-4)),
    "mtesla": Kind("mtesla", "EM", _table("mT", 1.0e-3)),
    "coulomb": Kind("coulomb", "EM", _table("C", 1.0)),
    "statC": Kind("statC", "EM", _table("statC", 10.0 / 29979245800.0)),
}
EM_KINDS = ("tesla", "gauss", "mtesla", "coulomb", "statC")


def _fix_table_scales(mods):
    # degF/R scale: the exact definition 5/9 K
    KINDS["degF"] = Kind("degF", "T", _table("degF", 5.0 / 9.0, -459.67))
    KINDS["R"] = Kind("R", "T", _table("R", 5.0 / 9.0))


ENTRIES = ["to", "in_units", "to_value", "convert_to_units", "manual", "Unit.get_conversion_factor"]
# call-form axis of the same requests: target by keyword, as a Unit object, as a quantity in the target unit (walked on the
# name-table and dtype families, whose cases are cheap)
ENTRY_FORMS = ["to/kw", "in_units/kw", "to_value/kw", "convert_to_units/kw", "to/Unit", "in_units/Unit", "to_value/Unit",
               "convert_to_units/Unit", "to/equivalence=None", "convert_to_units/equivalence=None"]


def convert(ctx, q, ustr_or_unit, entry):
    """one conversion request through a given entry point -> (values as flat list, resulting Unit or None)"""
    if "/" in entry:
        Unit = ctx.mods["unyt"].Unit
        route, form = entry.split("/")
        tgt = ustr_or_unit
        if form == "Unit" and not isinstance(tgt, Unit):
            tgt = Unit(tgt, registry=q.units.registry)
        kw = {"kw": dict(units=tgt), "Unit": dict(units=tgt), "equivalence=None": dict(units=tgt, equivalence=None)}[form]
        if route == "convert_to_units":
            c = q.copy()
            c.convert_to_units(**kw)
            return payload(c), c.units
        r = getattr(q, route)(**kw)
        if route == "to_value":
            return elements(r), None
        return payload(r), r.units
    if entry == "to":
        r = q.to(ustr_or_unit)
        return payload(r), r.units
    if entry == "in_units":
        r = q.in_units(ustr_or_unit)
        return payload(r), r.units
    if entry == "to_value":
        r = q.to_value(ustr_or_unit)
        return elements(r), None
    if entry == "convert_to_units":
        c = q.copy()
        c.convert_to_units(ustr_or_unit)
        return payload(c), c.units
    if entry in ("manual", "Unit.get_conversion_factor"):
        Unit = ctx.mods["unyt"].Unit
        tgt = ustr_or_unit if isinstance(ustr_or_unit, Unit) else Unit(ustr_or_unit, registry=q.units.registry)
        f, off = q.units.get_conversion_factor(tgt)
        vals = [v * f for v in elements(q.d)]
        if off is not None:
            vals = [v - off for v in vals]
        return vals, None
    raise KeyError(entry)


# ----------------------------------------------------------------------------- the dtype axis (typed payloads)
#
# The engine's payload is an object array of z3 terms; NumPy sees one dtype ("O"), which the shims read as float64. The
# conversion code however branches on the dtype of the BUFFER (integer buffers: the retyping dance of convert_to_units and the
# overflow test; the float width of the result of in_units). A typed payload is the same object array inside a thin carrier
# that REPORTS another dtype (int64, uint64, int32, float32) through .dtype / .d / .ndview and follows NumPy's rules for the
# three things the code does with it: x.dtype = "f8" (reinterpretation: same item size only), x.astype(float) (a copy holding
# the same numbers), x.copy() (keeps the dtype). Results of arithmetic carry no tag (they are the float results NumPy gives).
# The real unyt bytecode runs unchanged on it; in replay mode the payload is a genuine NumPy buffer of that dtype.
DTYPES = ("i8", "u8", "i4", "f4")
_TYPED = {}


def _typed_classes(mods):
    key = id(mods["unyt"])
    if key in _TYPED:
        return _TYPED[key]
    unyt = mods["unyt"]
    real_dtype = np.ndarray.__dict__["dtype"]

    def _as_dtype(v):
        v = getattr(v, "_r", v)  # a dtype built inside unyt (shim wrapper) or a plain spec
        return np.dtype(v)

    class _Tagged:
        _tag = None

        def _get_dtype(self):
            return self._tag if self._tag is not None else real_dtype.__get__(self)

        def _set_dtype(self, v):
            nd = _as_dtype(v)
            if nd.itemsize != self.dtype.itemsize:
                raise ValueError("When changing to a smaller/larger dtype, its size must be a divisor of the size of the array")
            self._tag = nd

        dtype = property(_get_dtype, _set_dtype)

    class TagND(_Tagged, np.ndarray):
        def __array_finalize__(self, obj):
            self._tag = None

        def astype(self, dtype, *a, **k):
            nd = _as_dtype(dtype)
            c = np.array(np.ndarray.view(self, np.ndarray), dtype=object, copy=True)
            if nd.kind in "fc" and nd.itemsize >= 8:
                return c
            r = c.view(TagND)
            r._tag = nd
            return r

    def _mk(base):
        class Tag(_Tagged, base):
            def __array_finalize__(self, obj):
                base.__array_finalize__(self, obj)
                self._tag = None

            @property
            def ndview(self):
                v = np.ndarray.view(self, TagND)
                v._tag = self._tag
                return v

            d = ndview

            def copy(self, order="C"):
                r = base.copy(self, order)
                r._tag = self._tag
                return r

            def astype(self, dtype, *a, **k):
                nd = _as_dtype(dtype)
                r = base.copy(self)
                r._tag = None if nd.kind in "fc" and nd.itemsize >= 8 else nd
                return r
        Tag.__name__ = base.__name__
        return Tag

    _TYPED[key] = (_mk(unyt.unyt_array), _mk(unyt.unyt_quantity))
    return _TYPED[key]


def _conformable(dtype):
    # 4-byte payloads give float32 results on the plain library: the pinned-vs-plain comparison (1e-9) does not apply to them
    return dtype is None or np.dtype(dtype).itemsize >= 8


def typed_values(ctx, name, shape, dtype):
    """symbols for a payload of that dtype: integers (bounded, so that the model fits the buffer and the float copy is exact)"""
    if dtype is None:
        return ctx.reals(name, shape)
    if dtype[0] in "iu":
        return ctx.reals(name, shape, integer=True, lo=0 if dtype[0] == "u" else -30000, hi=30000)
    return ctx.reals(name, shape, lo=-30000, hi=30000)


def typed_quantity(ctx, x, ustr, reg, dtype):
    """a quantity whose buffer has the given dtype (None: the engine's plain float64 payload)"""
    if dtype is None:
        return ctx.quantity(x, ustr, reg)
    if not ctx.symbolic:
        unyt = ctx.mods["unyt"]
        a = np.asarray(x, dtype=float)
        a = (np.rint(a) if dtype[0] in "iu" else a).astype(dtype)
        if a.shape == ():
            return unyt.unyt_quantity(a[()], ustr, registry=reg)
        return unyt.unyt_array(a, ustr, registry=reg)
    TA, TQ = _typed_classes(ctx.mods)
    q = ctx.quantity(x, ustr, reg)
    t = q.view(TQ if q.shape == () else TA)
    t._tag = np.dtype(dtype)
    return t


def unit_same(u, v):
    return And(str(u) == str(v), u.dimensions == v.dimensions, exact_eq(u.base_value, v.base_value), exact_eq(u.base_offset, v.base_offset))


def make_chain_case(kinds, shape, entries, tag, dtype=None):
    ks = [KINDS[k] for k in kinds]

    def h(ctx):
        unyt = ctx.mods["unyt"]
        reg = ctx.registry([])
        us = []
        for slot, k in enumerate(ks):
            us.append(k.build(ctx, reg, slot))
        (sA, oA) = us[0]
        x = typed_values(ctx, "x", shape, dtype)
        q = typed_quantity(ctx, x, sA, reg, dtype)
        u_before = q.units
        xs = elements(x)
        si_in = [oA.si(v) for v in xs]
        # identity
        for e in entries:
            vals, u = convert(ctx, q, sA, e)
            ctx.require(f"identity/{e}", all_close(vals, xs), entry=e)
            ctx.observe(f"identity/{e}", vals)
        (sB, oB) = us[1]
        ref = None
        for e in entries:
            vals, u = convert(ctx, q, sB, e)
            ctx.require(f"A->B si/{e}", And(*[si_close(oB.si(v), s, oB, oA) for v, s in zip(vals, si_in)]), entry=e)
            ctx.observe(f"A->B/{e}", vals)
            if u is not None:
                ctx.require(f"A->B unit/{e}", unit_same(u, unyt.Unit(sB, registry=reg)))
            if ref is None:
                ref = vals
            else:
                ctx.require(f"A->B routes agree/{e}", all_close(vals, ref, extra=float(1e-6) * (vabs(oA.o) + vabs(oB.o))))
        qb = q.to(sB)
        # inverse
        back = qb.to(sA)
        ctx.require("A->B->A", And(*[si_close(oA.si(v), s, oA, oB) for v, s in zip(payload(back), si_in)]))
        ctx.require("A->B->A numbers", all_close(payload(back), xs, extra=float(1e-6) * (vabs(oA.o) + vabs(oB.o * oB.s / oA.s))))
        if dtype is None:  # (integer pins hit exact zeros, where the two runs differ by rounding noise only)
            ctx.observe("back", payload(back))
        if len(us) > 2:
            (sC, oC) = us[2]
            via = qb.to(sC)
            direct = q.to(sC)
            ctx.require("A->B->C == A->C", all_close(payload(via), payload(direct), extra=float(1e-6) * (vabs(oC.o) + vabs(oA.o * oA.s / oC.s) + vabs(oB.o * oB.s / oC.s))))
            ctx.require("A->C si", And(*[si_close(oC.si(v), s, oC, oA) for v, s in zip(payload(direct), si_in)]))
            ctx.require("A->B->C unit", unit_same(via.units, direct.units))
            if dtype is None:
                ctx.observe("via", payload(via))
        # the input must be untouched by all of the above
        ctx.require("input untouched", And(all_close(payload(q), xs, tol=0), q.units is u_before, unit_same(q.units, unyt.Unit(sA, registry=reg))))

    return Case(f"C03/{tag}/{'>'.join(kinds)}/shape{'x'.join(map(str, shape)) or '0'}" + (f"/{dtype}" if dtype else ""), h,
                bounds="symbolic: values, scales, offsets", budget_s=900, max_paths=20000, weight=10 * len(kinds) * (1 + sum(k.endswith('affine') for k in kinds)),
                conform=_conformable(dtype))


# ----------------------------------------------------------------------------- EM pairs (concrete factors)

EM_PAIRS = [("C", "statC"), ("statC", "C"), ("T", "G"), ("G", "T"), ("A", "statA"), ("statA", "A"), ("V", "statV"),
            ("statV", "V"), ("ohm", "statohm"), ("statohm", "ohm")]
C_CM = 29979245800.0
EM_FACTOR = {("C", "statC"): 0.1 * C_CM, ("T", "G"): 1.0e4, ("A", "statA"): 0.1 * C_CM, ("V", "statV"): 1.0e8 / C_CM,
             ("ohm", "statohm"): 1.0e9 / C_CM**2}


def em_factor(a, b):
    if (a, b) in EM_FACTOR:
        return EM_FACTOR[(a, b)]
    return 1.0 / EM_FACTOR[(b, a)]


def make_em_case(a, b, pa, pb, shape):
    """the property claims the laws for the EM pairs, not the factor: routes agree, the map is linear in the value
    (f(x) = x*f(1)), prefixes scale it as SI prefixes do, there-and-back is the identity"""
    def h(ctx):
        unyt = ctx.mods["unyt"]
        x = ctx.reals("x", shape)
        A, B = pa + a, pb + b
        q = ctx.quantity(x, A)
        xs = elements(x)
        k0 = payload(ctx.quantity(ctx.const_array(1.0) if shape == () else ctx.const_array(np.ones(shape)), a).to(b))[0]
        want = [v * k0 * (PREFIX.get(pa, 1.0) / PREFIX.get(pb, 1.0)) for v in xs]
        for e in ["to", "in_units", "to_value", "convert_to_units"]:
            vals, u = convert(ctx, q, B, e)
            ctx.require(f"EM linear, prefix-covariant, routes agree/{e}", all_close(vals, want), entry=e)
            ctx.observe(f"EM/{e}", vals)
            if u is not None:
                ctx.require(f"EM unit/{e}", str(u) == str(unyt.Unit(B)))
        back = q.to(B).to(A)
        ctx.require("EM A->B->A", all_close(payload(back), xs))
        cgs = b.startswith("stat") or b == "G"
        r1 = q.in_cgs() if cgs else q.in_mks()
        c = q.copy()
        (c.convert_to_cgs if cgs else c.convert_to_mks)()
        ctx.require("EM in_base == convert_to_base", And(all_close(payload(r1), payload(c)), str(r1.units) == str(c.units)))
        r3 = q.to(r1.units)
        ctx.require("EM in_base == to(base unit)", all_close(payload(r1), payload(r3)))
        ctx.observe("EM base", payload(r1))
        ctx.require("input untouched", all_close(payload(q), xs, tol=0))
    return Case(f"C03/em/{pa}{a}>{pb}{b}/shape{'x'.join(map(str, shape)) or '0'}", h, bounds="concrete EM factors, symbolic values")


def make_base_case(kind, system, shape, dtype=None):
    """in_base == convert_to_base == to(get_base_equivalent), for symbolic-scale units"""
    k = KINDS[kind]

    def h(ctx):
        reg = ctx.registry([])
        sA, oA = k.build(ctx, reg, 0)
        x = typed_values(ctx, "x", shape, dtype)
        q = typed_quantity(ctx, x, sA, reg, dtype)
        xs = elements(x)
        r1 = q.in_base(system)
        c = q.copy()
        c.convert_to_base(system)
        tgt = q.units.get_base_equivalent(system)
        r3 = q.to(tgt)
        r4 = {"cgs": q.in_cgs, "mks": q.in_mks}[system]()
        c2 = q.copy()
        {"cgs": c2.convert_to_cgs, "mks": c2.convert_to_mks}[system]()
        for nm, r in (("convert_to_base", c), ("to(get_base_equivalent)", r3), ("in_" + system, r4), ("convert_to_" + system, c2)):
            ctx.require(f"in_base == {nm}", And(all_close(payload(r1), payload(r)), str(r1.units) == str(r.units)))
        sb = r1.units.base_value
        ob = r1.units.base_offset
        ctx.require("in_base si", And(*[close((v - ob) * sb, oA.si(w), extra=1e-6 * (vabs(oA.s * oA.o) + vabs(sb * ob))) for v, w in zip(payload(r1), xs)]))
        ctx.observe("in_base", payload(r1))
        ctx.require("input untouched", And(all_close(payload(q), xs, tol=0), unit_same(q.units, ctx.mods["unyt"].Unit(sA, registry=reg))))
    return Case(f"C03/base/{kind}/{system}/shape{'x'.join(map(str, shape)) or '0'}" + (f"/{dtype}" if dtype else ""), h, conform=_conformable(dtype))


# ----------------------------------------------------------------------------- call histories (results are independent objects)
#
# The laws above look at every conversion once, on a fresh input. The property also quantifies over what happened BEFORE a
# request: A->B->C with the second leg taken in place on the RESULT of the first, a source that is converted in place after
# a copy of it was handed out, the same request repeated. All of these are only lawful if every non-mutating route returns an
# object that is independent of its source. A history is: a chain of 1-2 derivations (each a non-mutating route, or an
# in-place conversion of the head), then ONE in-place step on one of the objects alive (the victim), then the read-back:
# every other object must still hold exactly its numbers and unit, the victim must read what the affine oracle says, and
# fresh requests (to / to_value) from the survivors must still give the oracle's numbers. Everything runs inside one path.

ALIAS = {"xa": "xd", "xta": "xtd", "xtk": "xtkd", "xtp": "xtpd", "xga": "xgd"}
NAMES += sorted(ALIAS.values()) + ["delta_xt" + c for c in "abc"] + ["delta_xg" + c for c in "abc"]

# non-mutating routes: ("route", target) with target "A" | "B" | None (base routes choose their own target)
CHAINS = [
    [("to", "B")], [("in_units", "B")], [("to/Unit", "B")], [("to_value", "B")],
    [("in_base/mks", None)], [("in_base/cgs", None)], [("in_cgs", None)], [("in_mks", None)],
    [("to", "B"), ("to", "B")], [("in_units", "B"), ("to/Unit", "A")], [("to", "B"), ("to_value", "B")],
    [("to/Unit", "B"), ("in_base/mks", None)], [("in_mks", None), ("in_units", "A")],
    [("convert_to_units!", "B"), ("to", "B")], [("convert_to_mks!", None), ("in_mks", None)],
    [("to", "B"), ("convert_to_units!", "A")],
]
# extra chains that only exist when B is A's own unit
CHAINS_OWN = [[("to/own", "A")], [("to_value/None", "A")], [("to/own", "A"), ("to_value/None", "A")]]
INPLACE = ["convert_to_units", "convert_to_units/Unit", "convert_to_base/mks", "convert_to_base/cgs", "convert_to_cgs", "convert_to_mks",
           "imul", "write"]


class _Obj:
    """one live object of a history: val (unyt_array/unyt_quantity, or a bare ndarray from to_value), the unit string it is
    expected to carry and the oracle of that unit"""

    def __init__(self, val, ustr, orc, bare=False):
        self.val, self.ustr, self.orc, self.bare = val, ustr, orc, bare


def _unit_oracle(u):
    """oracle of a unit the library chose itself (base equivalents): read from the Unit object's own scale/offset - registry data,
    not the conversion code"""
    return U(str(u), u.base_value, u.base_offset)


def _step(ctx, reg, head, route, tgt):
    """apply one chain step to the head object; returns a NEW _Obj (non-mutating routes) or None (in-place routes, head updated)"""
    Unit = ctx.mods["unyt"].Unit
    v = head.val
    if route.endswith("!"):
        if route == "convert_to_units!":
            v.convert_to_units(tgt[0])
            head.ustr, head.orc = tgt
        elif route == "convert_to_mks!":
            v.convert_to_mks()
            head.ustr, head.orc = str(v.units), _unit_oracle(v.units)
        return None
    if route == "to":
        return _Obj(v.to(tgt[0]), *tgt)
    if route == "in_units":
        return _Obj(v.in_units(tgt[0]), *tgt)
    if route == "to/Unit":
        return _Obj(v.to(Unit(tgt[0], registry=reg)), *tgt)
    if route == "to/own":
        return _Obj(v.to(v.units), head.ustr, head.orc)
    if route == "to_value":
        return _Obj(v.to_value(tgt[0]), *tgt, bare=True)
    if route == "to_value/None":
        return _Obj(v.to_value(), head.ustr, head.orc, bare=True)
    r = {"in_base/mks": lambda: v.in_base("mks"), "in_base/cgs": lambda: v.in_base("cgs"), "in_cgs": v.in_cgs, "in_mks": v.in_mks}[route]()
    return _Obj(r, str(r.units), _unit_oracle(r.units))


def _slack(*orcs):
    tot = 0
    for o in orcs:
        tot = tot + vabs(o.s * o.o)
    return tot * float(1e-6)


def make_history_case(kinds, shape, op, tag, chains=None, dtype=None):
    """kinds = [A, B, C]; B may be '=' (A's own unit, same spelling) or '~' (another symbol with A's scale and offset)"""
    kA, kB, kC = kinds
    own = kB == "="

    def h(ctx):
        unyt = ctx.mods["unyt"]
        Unit = unyt.Unit
        reg = ctx.registry([])
        A = KINDS[kA].build(ctx, reg, 0)
        if kB == "=":
            B = A
        elif kB == "~":
            sB = A[0]
            for base, al in ALIAS.items():
                if base in reg.lut:
                    row = reg.lut[base]
                    ctx.add_row(reg, al, row[1], row[0], row[2], prefixable=bool(row[4]))
                    sB = sB.replace(base, al)
            if sB == A[0]:
                raise HarnessError(f"no alias row for kind {kA}")
            B = (sB, U(sB, A[1].s, A[1].o))
        else:
            B = KINDS[kB].build(ctx, reg, 1)
        C = KINDS[kC].build(ctx, reg, 2)
        tg = {"A": A, "B": B, None: None}
        k = ctx.real("k", nonzero=True)
        w = ctx.real("w")
        xs = elements(typed_values(ctx, "x", shape, dtype))
        si_in = [A[1].si(v) for v in xs]

        slack0 = _slack(A[1], B[1], C[1])
        slacks = {}

        def slack(*orcs):
            # rounding band in SI terms: 1e-6 * sum |scale*offset| over A, B, C and every other unit on the way (built once per unit)
            tot = slack0
            for o in orcs:
                if o is not A[1] and o is not B[1] and o is not C[1]:
                    key = (o.name, id(o.s), id(o.o))
                    if key not in slacks:
                        slacks[key] = (o, _slack(o))  # the oracle object is kept alive so that ids stay unique
                    tot = tot + slacks[key][1]
            return tot

        def reads(o, extra_orcs=()):
            e = slack(o.orc, *extra_orcs)
            return And(*[close(o.orc.si(v), s, extra=e) for v, s in zip(payload(o.val), si_in)])

        for chain in (chains if chains is not None else CHAINS + (CHAINS_OWN if own else [])):
            cname = "+".join(r for r, _ in chain)
            nobj = 1 + sum(not r.endswith("!") for r, _ in chain)
            for victim in range(nobj):
                # a fresh history over the same symbols
                objs = [_Obj(typed_quantity(ctx, typed_values(ctx, "x", shape, dtype), A[0], reg, dtype), *A)]
                for route, t in chain:
                    new = _step(ctx, reg, objs[-1], route, tg[t])
                    if new is not None:
                        objs.append(new)
                vic = objs[victim]
                lab = f"hist/{cname}/{op}@{victim}"
                if vic.bare and (shape == () or op not in ("imul", "write")):
                    continue  # a bare number cannot be changed in place; a bare ndarray has no conversion methods
                ctx.require(f"{lab}/before: every object reads the source's value", And(*[reads(o) for o in objs]))
                snaps = [payload(o.val) for o in objs]
                units = [None if o.bare else o.val.units for o in objs]
                # ---- the in-place step on the victim
                v = vic.val
                refused = False
                if op == "convert_to_units":
                    v.convert_to_units(C[0])
                    vic.ustr, vic.orc = C
                elif op == "convert_to_units/Unit":
                    v.convert_to_units(Unit(C[0], registry=reg))
                    vic.ustr, vic.orc = C
                elif op in ("convert_to_base/mks", "convert_to_base/cgs", "convert_to_cgs", "convert_to_mks"):
                    {"convert_to_base/mks": lambda: v.convert_to_base("mks"), "convert_to_base/cgs": lambda: v.convert_to_base("cgs"),
                     "convert_to_cgs": v.convert_to_cgs, "convert_to_mks": v.convert_to_mks}[op]()
                    vic.ustr, vic.orc = str(v.units), _unit_oracle(v.units)
                elif op == "imul":
                    r = call(np.multiply, v, k, out=v)
                    if r[0] == "raise":
                        # unyt refuses to scale a reading on an offset scale: then nothing at all may have changed
                        if type(r[1]).__name__ != "InvalidUnitOperation" or vic.bare:
                            raise r[1]
                        refused = True
                elif op == "write":
                    (v if vic.bare else v.d)[...] = w
                else:
                    raise KeyError(op)
                # ---- read-back (few, merged obligations: with a shared buffer everything downstream is wrong at once)
                keep = []
                for i, o in enumerate(objs):
                    if i != victim:
                        keep.append(all_close(payload(o.val), snaps[i], tol=0))
                        if not o.bare:
                            keep.append(And(o.val.units is units[i], unit_same(o.val.units, Unit(o.ustr, registry=reg))))
                if keep:
                    ctx.require(f"{lab}/bystanders keep numbers and unit", And(*keep))
                if op == "imul":
                    good = [all_close(payload(v), snaps[victim], tol=0) if refused else all_close(payload(v), [s * k for s in snaps[victim]])]
                elif op == "write":
                    good = [all_close(payload(v), [w] * len(xs), tol=0)]
                else:
                    good = [reads(vic)]
                if not vic.bare:
                    good.append(unit_same(v.units, units[victim] if op in ("imul", "write") else Unit(vic.ustr, registry=reg)))
                ctx.observe(f"{lab}/victim", payload(v))
                # fresh requests from the first surviving quantity: the same request must still give the oracle's numbers,
                # and an in-place second leg must agree with the direct conversion
                sv = next((o for i, o in enumerate(objs) if i != victim and not o.bare), None)
                if sv is not None:
                    again = _Obj(sv.val.to(C[0]), *C)
                    again_v = _Obj(sv.val.to_value(C[0]), *C, bare=True)
                    good += [reads(again, (sv.orc,)), unit_same(again.val.units, Unit(C[0], registry=reg)), reads(again_v, (sv.orc,))]
                    if op.startswith("convert_to_units"):
                        good.append(all_close(payload(v), payload(again.val), extra=slack(sv.orc) / vabs(C[1].s)))
                    ctx.observe(f"{lab}/again", payload(again.val))
                ctx.require(f"{lab}/victim and fresh requests read the oracle's numbers", And(*good))

    sh = "x".join(map(str, shape)) or "0"
    return Case(f"C03/{tag}/{'>'.join(kinds)}/{op.replace('/', '.')}/shape{sh}" + (f"/{dtype}" if dtype else ""), h,
                bounds="symbolic: values, scales, offsets, k, w; enumerated: chain of routes, victim, in-place step", budget_s=900, max_paths=20000,
                weight=10 * len(kinds) * (1 + sum(k.endswith('affine') for k in kinds)), conform=_conformable(dtype))


def make_epoch_case(fam, shape, free=True):
    """the same two spellings (xa, xb) mean different units in two registries; the same request is made alternately on both, through
    every entry point, twice (the second round runs with every cache of the library warm): each answer must be the one of its OWN
    registry's scales and offsets - a conversion factor remembered under the spelling alone would show here"""
    def h(ctx):
        unyt = ctx.mods["unyt"]
        D = unyt.dimensions
        dims = {"L": D.length, "T": D.temperature, "G": D.angle}[fam]
        worlds = []
        for r in (1, 2):
            reg = ctx.registry([])
            orc = {}
            for n in ("xa", "xb"):
                s = ctx.real(f"{n}_s{r}", pos=True)
                # free=False (quick): the offsets of the first registry are non-zero, those of the second are free (fewer zero/non-zero forks)
                o = 0.0 if fam == "L" else ctx.real(f"{n}_o{r}", nonzero=(r == 1 and not free))
                ctx.add_row(reg, n, dims, s, o)
                orc[n] = U(n, s, o)
            xs = elements(ctx.reals(f"x{r}", shape))
            worlds.append((reg, orc, ctx.quantity(ctx.reals(f"x{r}", shape), "xa", reg), xs))
        for rnd in (1, 2):
            for e in ENTRIES:
                for r, (reg, orc, q, xs) in enumerate(worlds, 1):
                    vals, u = convert(ctx, q, "xb", e)
                    ctx.require(f"epoch/round {rnd}/registry {r}/A->B si/{e}",
                                And(*[si_close(orc["xb"].si(v), orc["xa"].si(x), orc["xb"], orc["xa"]) for v, x in zip(vals, xs)]), entry=e)
                    if u is not None:
                        ctx.require(f"epoch/round {rnd}/registry {r}/A->B unit/{e}", unit_same(u, unyt.Unit("xb", registry=reg)))
                    if rnd == 1:
                        ctx.observe(f"epoch/registry {r}/{e}", vals)
        for r, (reg, orc, q, xs) in enumerate(worlds, 1):
            back = q.to("xb").to("xa")
            ctx.require(f"epoch/registry {r}/A->B->A",
                        all_close(payload(back), xs, extra=float(1e-6) * (vabs(orc["xa"].o) + vabs(orc["xb"].o * orc["xb"].s / orc["xa"].s))))
            ctx.require(f"epoch/registry {r}/input untouched",
                        And(all_close(payload(q), xs, tol=0), unit_same(q.units, unyt.Unit("xa", registry=reg))))

    return Case(f"C03/epoch/{fam}/shape{'x'.join(map(str, shape)) or '0'}", h, bounds="symbolic: values, 4 scales, 4 offsets", budget_s=900,
                max_paths=20000, weight=40)


# ----------------------------------------------------------------------------- request sequences across registries
#
# The epoch family keeps source and target inside one registry (string targets are parsed with the source's registry). A target
# may also be a Unit OBJECT that belongs to ANOTHER registry (two datasets that both define "code_length"): the factor then
# follows from the scale/offset the target object carries, not from its spelling. The xreg family makes, inside ONE path (all
# memo layers of the library stay warm), a SEQUENCE of requests in which the source stays the same quantity and the target
# walks over: the spelling xb as a Unit of registry B, the same spelling as a Unit of registry C, another spelling (Unit of B),
# the string (resolved in the source's registry S, which has its own xb) and a Unit object of S - every one with its own
# symbolic scale and offset. xregSrc mirrors it: ONE target object, sources spelled alike in two registries (plus another
# spelling and a source of the target's own registry).

XREG_KINDS = ("plain", "offset", "prefixed", "prefOffset", "angle")
XREG_ORDERS = [("B", "C", "other", "str", "own"), ("C", "B", "own", "other", "str"), ("str", "B", "C", "own", "other"),
               ("own", "C", "str", "B", "other"), ("other", "str", "B", "own", "C"), ("B", "C", "B", "str", "C")]
XREG_SRC_ORDERS = [("1", "2", "other", "home"), ("2", "1", "home", "other"), ("home", "1", "2", "1"), ("other", "2", "home", "1")]
XREG_ENTRIES = ENTRIES + ["inplace", "mixed"]


def _xreg_unit(ctx, reg, kind, name, tag, nonzero=False):
    """row `name` in registry `reg` with its own symbols (suffix tag) -> (spelling, oracle)"""
    D = ctx.mods["unyt"].dimensions
    if kind in ("plain", "prefixed"):
        s = ctx.real(f"{name}_s{tag}", pos=True)
        ctx.add_row(reg, name, D.length, s, 0.0, prefixable=True)
        if kind == "prefixed":
            return "k" + name, U("k" + name, s * PREFIX["k"], 0.0)
        return name, U(name, s, 0.0)
    if kind in ("offset", "angle"):
        s = ctx.real(f"{name}_s{tag}", pos=True)
        o = ctx.real(f"{name}_o{tag}", nonzero=nonzero)
        ctx.add_row(reg, name, D.temperature if kind == "offset" else D.angle, s, o)
        return name, U(name, s, o)
    if kind == "prefOffset":
        # base scale concrete (as kind Tk; a symbolic one costs minutes per request), offset symbolic: SI = p*(x - o/p)
        o = ctx.real(f"{name}_o{tag}", nonzero=nonzero)
        ctx.add_row(reg, name, D.temperature, 1.0, o, prefixable=True)
        p = PREFIX["m"]
        return "m" + name, U("m" + name, p, o / p)
    raise KeyError(kind)


def _xreg_band(*orcs):
    tot = 0
    for o in orcs:
        tot = tot + vabs(o.o * o.s)
    return tot * float(1e-6)


def make_xreg_case(kind, order, entry, shape, free=False, mirror=False):
    def h(ctx):
        unyt = ctx.mods["unyt"]
        Unit = unyt.Unit
        x = ctx.reals("x", shape)
        xs = elements(x)
        regS, regB, regC = ctx.registry([]), ctx.registry([]), ctx.registry([])
        if not mirror:
            # one source (xa of S); five targets
            sA, oA = _xreg_unit(ctx, regS, kind, "xa", "S", nonzero=not free)
            spS, orS = _xreg_unit(ctx, regS, kind, "xb", "S", nonzero=not free)
            spB, orB = _xreg_unit(ctx, regB, kind, "xb", "B", nonzero=not free)
            spC, orC = _xreg_unit(ctx, regC, kind, "xb", "C", nonzero=not free)
            spO, orO = _xreg_unit(ctx, regB, kind, "xc", "B", nonzero=not free)
            q = ctx.quantity(x, sA, regS)
            tg = {"B": (Unit(spB, registry=regB), orB), "C": (Unit(spC, registry=regC), orC), "other": (Unit(spO, registry=regB), orO),
                  "str": (spS, orS), "own": (Unit(spS, registry=regS), orS)}
            reqs = [(f"{i}:{t}", q, oA, tg[t][0], tg[t][1]) for i, t in enumerate(order)]
            home = {id(regS): orS, id(regB): orB, id(regC): orC}
        else:
            # one target object (xb of B); the sources: xa of S, xa of C, xc of S, xa of B (the target's own registry)
            spT, orT = _xreg_unit(ctx, regB, kind, "xb", "B", nonzero=not free)
            T = Unit(spT, registry=regB)
            srcs = {}
            for t, reg, nm, tag in (("1", regS, "xa", "S"), ("2", regC, "xa", "C"), ("other", regS, "xc", "S"), ("home", regB, "xa", "B")):
                sp, orc = _xreg_unit(ctx, reg, kind, nm, tag, nonzero=not free)
                srcs[t] = (ctx.quantity(ctx.reals("x", shape), sp, reg), orc)
            reqs = [(f"{i}:{t}", srcs[t][0], srcs[t][1], T, orT) for i, t in enumerate(order)]
        if not free:
            # the units of one sequence are pairwise different in scale (the equal-scale shortcut `units == other` is the subject of the
            # hist family's twin symbols; here every pair would fork on it: 2^7 paths). The /free cases of the thorough tier drop this.
            orcs = []
            for r in reqs:
                for o in (r[2], r[4]):
                    if not any(o is p for p in orcs):
                        orcs.append(o)
            if not mirror:
                orcs += [o for o in home.values() if not any(o is p for p in orcs)]
            for a, b in itertools.combinations(orcs, 2):
                ctx.assume(Or(a.s > b.s * 1.001, b.s > a.s * 1.001))
        walker = None
        prev = None
        for i, (lab, q, oA, tgt, oT) in enumerate(reqs):
            e = entry
            if entry == "mixed":
                e = (ENTRIES + ["to/Unit", "convert_to_units/kw", "to_value/Unit", "in_units/kw"])[(i * 3 + len(order[0])) % 10]
                if isinstance(tgt, str) and e.endswith("/Unit"):
                    e = e.split("/")[0]
            u_before = q.units
            tU = tgt if isinstance(tgt, Unit) else Unit(tgt, registry=q.units.registry)
            if entry == "inplace":
                # the in-place twin: ONE object walks through the targets (mirror: a fresh copy of each source), every leg in place
                if walker is None or mirror:
                    walker = q.copy()
                if isinstance(tgt, str):
                    # a string is resolved in the registry the walker's unit belongs to at that moment
                    tU = Unit(tgt, registry=walker.units.registry)
                    oT = oT if mirror else home[id(walker.units.registry)]
                walker.convert_to_units(tgt)
                vals, u = payload(walker), walker.units
            else:
                vals, u = convert(ctx, q, tgt, e)
            si_in = [oA.si(v) for v in xs]
            ctx.require(f"xreg/{lab}/target's own scale: si/{e}", And(*[si_close(oT.si(v), s, oT, oA) for v, s in zip(vals, si_in)]), entry=e)
            ctx.observe(f"xreg/{lab}", vals)
            if u is not None:
                ctx.require(f"xreg/{lab}/unit/{e}", unit_same(u, tU))
            # there and back, and through the previous target of the sequence (composition across registries)
            there = q.to(tU if entry == "inplace" else tgt)
            back = there.to(u_before)
            ctx.require(f"xreg/{lab}/A->B->A", all_close(payload(back), xs, extra=float(1e-6) * (vabs(oA.o) + vabs(oT.o * oT.s / oA.s))))
            if prev is not None and not mirror:
                (ptgt, poT) = prev
                via = q.to(ptgt).to(tU)
                ctx.require(f"xreg/{lab}/A->B->C == A->C", And(
                    all_close(payload(via), payload(there), extra=float(1e-6) * (vabs(oT.o) + vabs(oA.o * oA.s / oT.s) + vabs(poT.o * poT.s / oT.s))),
                    unit_same(via.units, there.units)))
            if mirror and prev is not None:
                # the previous source through the current one to the target == directly
                (pq, poA) = prev
                via = pq.to(u_before).to(tgt)
                direct = pq.to(tgt)
                ctx.require(f"xreg/{lab}/A->B->C == A->C", And(
                    all_close(payload(via), payload(direct), extra=float(1e-6) * (vabs(oT.o) + vabs(oA.o * oA.s / oT.s) + vabs(poA.o * poA.s / oT.s))),
                    unit_same(via.units, direct.units)))
            ctx.require(f"xreg/{lab}/input untouched", And(all_close(payload(q), xs, tol=0), q.units is u_before))
            prev = (q, oA) if mirror else (tU, oT)

    sh = "x".join(map(str, shape)) or "0"
    return Case(f"C03/{'xregSrc' if mirror else 'xreg'}/{kind}/{'-'.join(order)}/{entry.replace('/', '.')}/shape{sh}" + ("/free" if free else ""), h,
                bounds="symbolic: values, every scale and offset of 3 registries; enumerated: order of requests, entry point", budget_s=900,
                max_paths=20000, weight=40)


def xreg_cases(tier):
    out = []
    if tier == "quick":
        kinds = XREG_KINDS[:3]
        for ki, kind in enumerate(kinds):
            for ei, e in enumerate(XREG_ENTRIES):
                # (offset kind: the first three requests of the order - each prefix still has two same-spelling targets of different registries)
                out.append(make_xreg_case(kind, XREG_ORDERS[(ki + ei) % len(XREG_ORDERS)][:3 if kind == "offset" else 5], e, () if (ki + ei) % 2 else (2,)))
            for ei, e in enumerate(XREG_ENTRIES[:1] + XREG_ENTRIES[2:4] + XREG_ENTRIES[5:]):
                out.append(make_xreg_case(kind, XREG_SRC_ORDERS[(ki + ei) % len(XREG_SRC_ORDERS)][:3 if kind == "offset" else 4], e,
                                          () if (ki + ei) % 2 == 0 else (2,), mirror=True))
        return out
    # thinned: every (kind, entry point) sees every second order, rotating, so that every (entry point, order) and every (kind, order) pair is
    # walked (the full product is 2x the cost); /free (no assumption on scales and offsets: 2^7 paths) on two entry points of the offset kinds
    for ki, kind in enumerate(XREG_KINDS):
        for ei, e in enumerate(XREG_ENTRIES):
            for oi, order in enumerate(XREG_ORDERS):
                if (ki + ei + oi) % 2 == 0:
                    out.append(make_xreg_case(kind, order, e, () if (ki + ei + oi // 2) % 2 else (2,)))
            for oi, order in enumerate(XREG_SRC_ORDERS):
                if (ki + ei + oi) % 2 == 0:
                    out.append(make_xreg_case(kind, order, e, () if (ki + ei + oi // 2) % 2 == 0 else (2,), mirror=True))
    for kind in ("offset", "angle", "plain"):
        for e in ("to", "mixed"):
            out.append(make_xreg_case(kind, XREG_ORDERS[0][:3], e, (), free=True))
            out.append(make_xreg_case(kind, XREG_SRC_ORDERS[0][:3], e, (), free=True, mirror=True))
    return out


HIST_TRIPLES_QUICK = [
    ["plainL", "=", "kplainL"], ["plainL", "~", "uplainL"], ["plainL", "plainL", "cm"],
    ["Taffine", "=", "Tplain"], ["Taffine", "~", "mdegC"], ["Taffine", "degC", "K"],
    ["degC", "=", "K"], ["K", "=", "degF"], ["lon", "=", "degree"], ["Gaffine", "=", "rad"], ["Gaffine", "~", "lat"],
    ["Tk", "=", "degC"], ["mdegC", "=", "degC"], ["kplainL", "~", "plainL"],
    ["m", "=", "cm"], ["Hz", "per_s", "kHz"], ["J", "Nm", "erg"],
    ["tesla", "=", "gauss"], ["gauss", "=", "mtesla"], ["coulomb", "=", "statC"],
]
# thorough adds these. Three FREE symbolic scales in one history (plainL x3, plainE x3, Tplain x2 + Taffine) and a second
# symbolic compound are left out: their non-linear obligations cost minutes per case; the third unit is a table unit instead.
HIST_TRIPLES_MORE = [["Taffine", "~", "Tk"], ["Taffine", "Taffine", "K"], ["Tk", "=", "Taffine"], ["plainL", "plainL", "m"],
                     ["compound", "=", "compound"], ["plainE", "plainE", "erg"], ["Gaffine", "Gaffine", "lon"], ["Tm", "~", "degC"],
                     ["TkS", "=", "Tplain"], ["lat", "=", "lon"], ["degF", "=", "R"], ["R", "=", "mdegC"], ["rad", "=", "Gaffine"],
                     ["uplainL", "=", "plainL"], ["Tplain", "Tplain", "degF"], ["cm", "=", "m"], ["per_s", "Hz", "kHz"],
                     ["Nm", "J", "erg"], ["statC", "=", "coulomb"], ["mtesla", "tesla", "gauss"]]


# histories whose source buffer is typed (the head is an integer / float32 buffer; what is derived from it is float)
HIST_TYPED = [["degC", "=", "K"], ["K", "degC", "degF"], ["lon", "=", "degree"], ["Taffine", "=", "degC"], ["m", "=", "cm"]]
HIST_TYPED_MORE = [["Taffine", "~", "mdegC"], ["Gaffine", "=", "lat"], ["degF", "delta_degC", "R"], ["plainL", "=", "kplainL"], ["mdegC", "=", "degC"]]


def _is_base_route(r):
    return r.startswith(("in_base", "in_cgs", "in_mks", "convert_to_mks", "convert_to_cgs", "convert_to_base"))


def history_cases(triples, rotate=0, flip=0, shapes=None, dtypes=None):
    """rotate=0: every chain in every case. rotate=n: each (triple, in-place step) case runs the plain `to` chain plus every n-th
    of the other chains, shifted so that one triple sees every chain (with two in-place steps each when n=4) and n consecutive
    triples see every (chain, in-place step) pair. EM triples: explicit targets only (the base routes of EM units are the subject
    of the em family; their base equivalents have no common SI scale for the oracle)."""
    out = []
    for ti, tr in enumerate(triples):
        em = tr[0] in EM_KINDS
        first = CHAINS[:1]
        rest = CHAINS[1:] + (CHAINS_OWN if tr[1] == "=" else [])
        ops = INPLACE
        if dtypes:
            # an integer buffer takes no float product and no float write in place (NumPy refuses the cast): conversions only
            ops = [o for o in INPLACE if o not in ("imul", "write")]
        if em:
            rest = [c for c in rest if not any(_is_base_route(r) for r, _ in c)]
            ops = [o for o in INPLACE if not _is_base_route(o)]
        for oi, op in enumerate(ops):
            chains = first + (rest if not rotate else rest[(oi + ti) % rotate::rotate])
            for sh in (shapes or [(2,) if op in ("imul", "write") or (ti + oi + flip) % 2 else ()]):
                if dtypes:
                    out.append(make_history_case(tr, sh, op, "histTyped", chains, dtypes[(ti + oi) % len(dtypes)]))
                else:
                    out.append(make_history_case(tr, sh, op, "hist", chains))
    return out


# dtype axis: (A, B[, C]) walked with typed payloads through every entry point (in-place twins included), and base routes
TYPED_CHAINS = [["degC", "degF"], ["K", "degC"], ["degF", "K"], ["Taffine", "Taffine"], ["Taffine", "degC"], ["Tk", "Taffine"],
                ["lat", "degree"], ["degree", "lon"], ["Gaffine", "rad"], ["plainL", "kplainL"], ["mdegC", "delta_degF"],
                ["degC", "K", "degF"], ["Tplain", "Taffine", "Tm"], ["rad", "lat", "lon"]]
TYPED_BASES = [("degC", "mks"), ("degF", "cgs"), ("Taffine", "mks"), ("Tk", "cgs"), ("lat", "mks"), ("Gaffine", "cgs"), ("plainL", "cgs"),
               ("compound", "mks")]
# name-table axis: every spelling kind of the two affine dimensions against the anchors of its family
T_TABLE = ["K", "R", "degC", "degF", "delta_degC", "delta_degF", "mdegC", "kdegC", "kdelta_degC", "mdelta_degC", "mK", "celsius",
           "degree_celsius", "oC", "oF", "fahrenheit", "kelvin", "rankine", "Tsun"]
G_TABLE = ["rad", "degree", "lat", "lon", "arcmin", "arcsec", "hourangle", "rev", "mrad", "latitude", "degree_longitude"]
T_ANCHORS = ["degC", "K", "degF", "delta_degC", "Taffine"]
G_ANCHORS = ["lat", "degree", "Gaffine"]


def table_cases(tier):
    out, seen = [], set()
    for table, anchors, f in ((T_TABLE, T_ANCHORS, "T"), (G_TABLE, G_ANCHORS, "G")):
        for i, t in enumerate(table):
            for j, a in enumerate(anchors):
                for pair in ([t, a], [a, t]):
                    if pair[0] != pair[1] and tuple(pair) not in seen:
                        seen.add(tuple(pair))
                        out.append(make_chain_case(pair, () if (i + j) % 2 else (2,), ENTRIES + ENTRY_FORMS, "name" + f))
        # chains through three spellings: each table unit in the middle and at both ends (thorough: against every anchor pair)
        n = len(table)
        for i, t in enumerate(table):
            trs = [[anchors[i % len(anchors)], t, anchors[(i + 1) % len(anchors)]], [t, table[(i + 3) % n], table[(i + 7) % n]]]
            if tier != "quick":
                trs += [[a, t, b] for a in anchors for b in anchors if a != b] + [[t, a, table[(i + 5) % n]] for a in anchors]
            for tr in trs:
                if tuple(tr) not in seen:
                    seen.add(tuple(tr))
                    out.append(make_chain_case(tr, (), ENTRIES[:1] + ENTRIES[3:4], "nameChain" + f))
    return out


def typed_cases(tier):
    out = []
    for i, tr in enumerate(TYPED_CHAINS):
        free = sum(k in ("Taffine", "Gaffine", "Tplain", "Tk", "Tm") for k in tr)
        if tier == "quick" and free >= 3:
            continue  # three free units with integer payloads: mixed integer/non-linear queries, minutes per case (thorough only)
        dts = DTYPES if tier != "quick" else ("i8", DTYPES[1 + i % 3])
        for dt in dts:
            for sh in ([(), (2,)] if tier != "quick" and free < 3 else [() if i % 2 or free >= 2 else (2,)]):
                out.append(make_chain_case(tr, sh, ENTRIES + (ENTRY_FORMS if free < 2 else []), "typed", dt))
    for i, (k, sy) in enumerate(TYPED_BASES):
        dts = DTYPES if tier != "quick" else ("i8", DTYPES[1 + i % 3])
        for dt in dts:
            out.append(make_base_case(k, sy, () if i % 2 else (2,), dt))
    return out


def cases(tier, mods):
    _fix_table_scales(mods)
    check_names(mods, NAMES)
    out = []
    out += table_cases(tier)
    out += typed_cases(tier)
    fam = {
        "L": ["plainL", "kplainL", "uplainL"],
        "T": ["Tplain", "Taffine", "Tk", "Tm", "Tdelta"],
        "G": ["Gaffine", "rad", "degree", "lat", "lon", "Gdelta"],
        "Ttab": ["K", "degC", "degF", "mdegC", "R", "Taffine"],
    }
    shapes_q = [(), (2,)]
    if tier == "quick":
        # all ordered pairs per family + a fixed list of triples
        for f, ks in fam.items():
            for a, b in itertools.product(ks, ks):
                if a == b and a not in ("Taffine", "plainL", "Gaffine"):
                    continue
                out.append(make_chain_case([a, b], (), ENTRIES, "pair" + f))
        for tr in (["plainL", "kplainL", "uplainL"], ["Tplain", "Tk", "Tm"], ["degC", "degF", "K"], ["K", "degC", "mdegC"],
                   ["R", "mdegC", "degF"], ["rad", "degree", "lat"], ["lat", "lon", "degree"], ["Taffine", "degC", "degF"],
                   ["Gaffine", "lat", "rad"], ["Tk", "Taffine", "Tplain"], ["degF", "Taffine", "mdegC"]):
            out.append(make_chain_case(tr, (), ENTRIES, "chain"))
        out.append(make_chain_case(["compound", "compound", "compound"], (2,), ENTRIES, "chain"))
        out.append(make_chain_case(["plainE", "MplainE", "plainE"], (2,), ENTRIES, "chain"))
        out.append(make_chain_case(["Taffine", "Taffine"], (2,), ENTRIES, "pair"))
        out.append(make_chain_case(["TkS", "Taffine"], (), ENTRIES[:2], "pairS"))
        for a, b in EM_PAIRS:
            out.append(make_em_case(a, b, "", "", ()))
        out.append(make_em_case("C", "statC", "k", "m", (2,)))
        out.append(make_em_case("G", "T", "u", "", (2,)))
        for k in ("plainL", "plainE", "compound", "Taffine", "Gaffine", "Tk", "Tm", "mdegC", "degF", "degC", "lat", "kplainL"):
            for s in ("cgs", "mks"):
                out.append(make_base_case(k, s, ()))
        out += history_cases(HIST_TRIPLES_QUICK, rotate=4)
        out += history_cases(HIST_TYPED, rotate=4, dtypes=("i8", "u8", "i4"))
        out += xreg_cases(tier)
        for f in ("L", "T"):
            out.append(make_epoch_case(f, (), free=False))
    else:
        for f, ks in fam.items():
            for a, b, c in itertools.product(ks, ks, ks):
                nd = sum(k in ("Tdelta", "Gdelta") for k in (a, b, c))
                if nd > 1 or (nd == 1 and any(k in ("Tplain", "rad", "degree") for k in (a, b, c))):
                    continue  # the difference-spelled symbolic unit: one per triple, next to units with an offset (prefixed ones included)
                out.append(make_chain_case([a, b, c], (), ENTRIES, "chain" + f))
            for a, b in itertools.product(ks, ks):
                out.append(make_chain_case([a, b], (2,), ENTRIES, "pair" + f))
        for sh in [(), (2,), (2, 2)]:
            out.append(make_chain_case(["compound", "compound", "compound"], sh, ENTRIES, "chain"))
            out.append(make_chain_case(["plainE", "MplainE", "plainE"], sh, ENTRIES, "chain"))
        out.append(make_chain_case(["TkS", "Taffine"], (), ENTRIES[:2], "pairS"))
        out.append(make_chain_case(["TkS", "TkS", "Tplain"], (), ENTRIES[:2], "chainS"))
        for a, b in EM_PAIRS:
            for pa, pb in [("", ""), ("k", ""), ("", "m"), ("u", "M")]:
                for sh in [(), (2,)]:
                    out.append(make_em_case(a, b, pa, pb, sh))
        for k in sorted(KINDS):
            for s in ("cgs", "mks"):
                for sh in [(), (2,)]:
                    if k not in EM_KINDS:
                        out.append(make_base_case(k, s, sh))
        # thinned: every second of the other chains per (triple, in-place step) instead of all of them (the full product is ~4x the cost)
        out += history_cases(HIST_TRIPLES_QUICK + HIST_TRIPLES_MORE, rotate=2, flip=1)
        out += history_cases(HIST_TRIPLES_QUICK[:3], rotate=2, shapes=[(2, 2)])
        out += history_cases(HIST_TYPED + HIST_TYPED_MORE, rotate=2, dtypes=("i8", "u8", "i4", "f4"))
        for f in ("L", "T", "G"):
            for sh in [(), (2,)]:
                out.append(make_epoch_case(f, sh))
        out += xreg_cases(tier)
    return out
