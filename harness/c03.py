"""C03 - unit conversion obeys identity, inverse and composition laws on every route."""
import itertools
import math

import numpy as np

from .common import (PREFIX, And, Case, Not, Or, U, all_close, call, check_names, close, elements, exact_eq, payload,
                     si_close, vabs)

LEVEL = "other"
MANIFEST = dict(
    category="other",
    text=("Bounded symbolic execution of the real conversion code (symx): for every enumerated pair/triple of unit kinds and "
          "every entry point, z3 proves identity, inverse, composition, route agreement and the affine SI oracle for ALL real "
          "values, scales and offsets (unsat of pc & not P per path); any model is replayed on plain unyt. Bounded: kinds, "
          "payload shapes <= (2,2); rounding is outside."),
    design="DESIGN.md section 4 C03",
    technique="symbolic execution of the real Python code over z3 real terms; SMT (QF_NRA) obligations per path; counterexample replay")
EXPLANATION = (
    "The real _get_conversion_factor, _split_prefix, _check_em_conversion, _em_conversion, in_units/to, to_value, "
    "convert_to_units, in_base/in_cgs/in_mks, convert_to_base/cgs/mks, get_base_equivalent and Unit.get_conversion_factor "
    "are executed on quantities whose value(s), unit scales and unit offsets are z3 reals (custom registry rows). Per path, "
    "z3 decides pc & not(P) for: A->A identity, A->B->A inverse, A->B->C == A->C, agreement of every route (to, in_units, "
    "to_value, convert_to_units in place, factor/offset by hand, base routes) in numbers and unit, all against the "
    "independent affine oracle SI = s*(x - o). unsat = holds for every real value/scale/offset on that path."
)
BOUNDS = {
    "quick": "unit kinds {plain, prefixed plain, compound, temperature plain/affine/prefixed-affine, user angle with offset, "
             "table lat/lon/degree/rad, 10 EM pairs with SI prefixes}; all ordered pairs per family, selected triples; "
             "scalar and 2-element payloads; 6 entry points",
    "thorough": "same kinds; all ordered triples per family; scalar, (2,) and (2,2) payloads; 6 entry points; EM pairs with 3 prefixes",
}
OUTSIDE = "IEEE rounding/overflow (A1); integer and complex payloads (C17); units whose scale is not positive except the table's lat"

NAMES = ["xa", "xb", "xc", "xta", "xtb", "xtc", "xtk", "xtp", "xtq", "xga", "xgb", "xs"]


class Kind:
    """a way to obtain a unit of some family; build(ctx, reg, slot) -> (unit_string, oracle U)"""

    def __init__(self, name, family, build):
        self.name, self.family, self.build = name, family, build


def _plain(dims_name, prefix=""):
    def build(ctx, reg, slot):
        D = getattr(ctx.mods["unyt"].dimensions, dims_name)
        n = "x" + "abc"[slot]
        s = ctx.real(n + "_s", pos=True)
        ctx.add_row(reg, n, D, s, 0.0, prefixable=True)
        if prefix:
            return prefix + n, U(prefix + n, s * PREFIX[prefix], 0.0)
        return n, U(n, s, 0.0)
    return build


def _compound(ctx, reg, slot):
    D = ctx.mods["unyt"].dimensions
    n = "x" + "abc"[slot]
    s = ctx.real(n + "_s", pos=True)
    ctx.add_row(reg, n, D.length, s, 0.0, prefixable=True)
    if "xs" not in reg.lut:
        ctx.add_row(reg, "xs", D.time, ctx.real("xs_s", pos=True), 0.0)
    st = ctx.real("xs_s", pos=True)
    return f"{n}**2/xs", U(f"{n}**2/xs", s * s / st, 0.0)


def _temp_plain(ctx, reg, slot):
    D = ctx.mods["unyt"].dimensions
    n = "xtk" if slot == 0 else "xtk" + "abc"[slot]
    s = ctx.real(n + "_s", pos=True)
    ctx.add_row(reg, n, D.temperature, s, 0.0)
    return n, U(n, s, 0.0)


def _temp_affine(ctx, reg, slot):
    D = ctx.mods["unyt"].dimensions
    n = "xt" + "abc"[slot]
    s = ctx.real(n + "_s", pos=True)
    o = ctx.real(n + "_o")
    ctx.add_row(reg, n, D.temperature, s, o)
    return n, U(n, s, o)


def _temp_prefixed(prefix, base_scale_symbolic=False):
    def build(ctx, reg, slot):
        D = ctx.mods["unyt"].dimensions
        n = ["xtp", "xtq", "xtr"][slot]
        sb = ctx.real(n + "_s", pos=True) if base_scale_symbolic else 1.0
        o = ctx.real(n + "_o")
        ctx.add_row(reg, n, D.temperature, sb, o, prefixable=True)
        p = PREFIX[prefix]
        # a reading x of the prefixed unit is the reading p*x of the base unit: SI = sb*(p*x - o) = sb*p*(x - o/p)
        return prefix + n, U(prefix + n, sb * p, o / p)
    return build


def _angle_affine(ctx, reg, slot):
    D = ctx.mods["unyt"].dimensions
    n = "xg" + "abc"[slot]
    s = ctx.real(n + "_s", pos=True)
    o = ctx.real(n + "_o")
    ctx.add_row(reg, n, D.angle, s, o)
    return n, U(n, s, o)


def _table(name, s, o=0.0):
    def build(ctx, reg, slot):
        return name, U(name, s, o)
    return build


KINDS = {
    "plainL": Kind("plainL", "L", _plain("length")),
    "kplainL": Kind("kplainL", "L", _plain("length", "k")),
    "uplainL": Kind("uplainL", "L", _plain("length", "u")),
    "plainE": Kind("plainE", "E", _plain("energy")),
    "MplainE": Kind("MplainE", "E", _plain("energy", "M")),
    "compound": Kind("compound", "C", _compound),
    "Tplain": Kind("Tplain", "T", _temp_plain),
    "Taffine": Kind("Taffine", "T", _temp_affine),
    "Tk": Kind("Tk", "T", _temp_prefixed("k")),
    "Tm": Kind("Tm", "T", _temp_prefixed("m")),
    "TkS": Kind("TkS", "TS", _temp_prefixed("k", True)),
    "Gaffine": Kind("Gaffine", "G", _angle_affine),
    "rad": Kind("rad", "G", _table("rad", 1.0)),
    "degree": Kind("degree", "G", _table("degree", math.pi / 180.0)),
    "lat": Kind("lat", "G", _table("lat", -math.pi / 180.0, 90.0)),
    "lon": Kind("lon", "G", _table("lon", math.pi / 180.0, -180.0)),
    "K": Kind("K", "T", _table("K", 1.0)),
    "degC": Kind("degC", "T", _table("degC", 1.0, -273.15)),
    "degF": Kind("degF", "T", _table("degF", 5.0 / 9.0 if False else None, -459.67)),
    "mdegC": Kind("mdegC", "T", _table("mdegC", 1e-3, -273150.0)),
}


def _fix_table_scales(mods):
    # degF/R scale: the exact definition 5/9 K
    KINDS["degF"] = Kind("degF", "T", _table("degF", 5.0 / 9.0, -459.67))
    KINDS["R"] = Kind("R", "T", _table("R", 5.0 / 9.0))


ENTRIES = ["to", "in_units", "to_value", "convert_to_units", "manual", "Unit.get_conversion_factor"]


def convert(ctx, q, ustr_or_unit, entry):
    """one conversion request through a given entry point -> (values as flat list, resulting Unit or None)"""
    if entry == "to":
        r = q.to(ustr_or_unit)
        return payload(r), r.units
    if entry == "in_units":
        r = q.in_units(ustr_or_unit)
        return payload(r), r.units
    if entry == "to_value":
        r = q.to_value(ustr_or_unit)
        return elements(r), None
    if entry == "convert_to_units":
        c = q.copy()
        c.convert_to_units(ustr_or_unit)
        return payload(c), c.units
    if entry in ("manual", "Unit.get_conversion_factor"):
        Unit = ctx.mods["unyt"].Unit
        tgt = ustr_or_unit if isinstance(ustr_or_unit, Unit) else Unit(ustr_or_unit, registry=q.units.registry)
        f, off = q.units.get_conversion_factor(tgt)
        vals = [v * f for v in elements(q.d)]
        if off is not None:
            vals = [v - off for v in vals]
        return vals, None
    raise KeyError(entry)


def unit_same(u, v):
    return And(str(u) == str(v), u.dimensions == v.dimensions, exact_eq(u.base_value, v.base_value), exact_eq(u.base_offset, v.base_offset))


def make_chain_case(kinds, shape, entries, tag):
    ks = [KINDS[k] for k in kinds]

    def h(ctx):
        unyt = ctx.mods["unyt"]
        reg = ctx.registry([])
        us = []
        for slot, k in enumerate(ks):
            us.append(k.build(ctx, reg, slot))
        (sA, oA) = us[0]
        x = ctx.reals("x", shape)
        q = ctx.quantity(x, sA, reg)
        u_before = q.units
        xs = elements(x)
        si_in = [oA.si(v) for v in xs]
        # identity
        for e in entries:
            vals, u = convert(ctx, q, sA, e)
            ctx.require(f"identity/{e}", all_close(vals, xs), entry=e)
            ctx.observe(f"identity/{e}", vals)
        (sB, oB) = us[1]
        ref = None
        for e in entries:
            vals, u = convert(ctx, q, sB, e)
            ctx.require(f"A->B si/{e}", And(*[si_close(oB.si(v), s, oB, oA) for v, s in zip(vals, si_in)]), entry=e)
            ctx.observe(f"A->B/{e}", vals)
            if u is not None:
                ctx.require(f"A->B unit/{e}", unit_same(u, unyt.Unit(sB, registry=reg)))
            if ref is None:
                ref = vals
            else:
                ctx.require(f"A->B routes agree/{e}", all_close(vals, ref, extra=float(1e-6) * (vabs(oA.o) + vabs(oB.o))))
        qb = q.to(sB)
        # inverse
        back = qb.to(sA)
        ctx.require("A->B->A", And(*[si_close(oA.si(v), s, oA, oB) for v, s in zip(payload(back), si_in)]))
        ctx.require("A->B->A numbers", all_close(payload(back), xs, extra=float(1e-6) * (vabs(oA.o) + vabs(oB.o * oB.s / oA.s))))
        ctx.observe("back", payload(back))
        if len(us) > 2:
            (sC, oC) = us[2]
            via = qb.to(sC)
            direct = q.to(sC)
            ctx.require("A->B->C == A->C", all_close(payload(via), payload(direct), extra=float(1e-6) * (vabs(oC.o) + vabs(oA.o * oA.s / oC.s) + vabs(oB.o * oB.s / oC.s))))
            ctx.require("A->C si", And(*[si_close(oC.si(v), s, oC, oA) for v, s in zip(payload(direct), si_in)]))
            ctx.require("A->B->C unit", unit_same(via.units, direct.units))
            ctx.observe("via", payload(via))
        # the input must be untouched by all of the above
        ctx.require("input untouched", And(all_close(payload(q), xs, tol=0), q.units is u_before, unit_same(q.units, unyt.Unit(sA, registry=reg))))

    return Case(f"C03/{tag}/{'>'.join(kinds)}/shape{'x'.join(map(str, shape)) or '0'}", h,
                bounds="symbolic: values, scales, offsets", budget_s=900, max_paths=20000, weight=10 * len(kinds) * (1 + sum(k.endswith('affine') for k in kinds)))


# ----------------------------------------------------------------------------- EM pairs (concrete factors)

EM_PAIRS = [("C", "statC"), ("statC", "C"), ("T", "G"), ("G", "T"), ("A", "statA"), ("statA", "A"), ("V", "statV"),
            ("statV", "V"), ("ohm", "statohm"), ("statohm", "ohm")]
C_CM = 29979245800.0
EM_FACTOR = {("C", "statC"): 0.1 * C_CM, ("T", "G"): 1.0e4, ("A", "statA"): 0.1 * C_CM, ("V", "statV"): 1.0e8 / C_CM,
             ("ohm", "statohm"): 1.0e9 / C_CM**2}


def em_factor(a, b):
    if (a, b) in EM_FACTOR:
        return EM_FACTOR[(a, b)]
    return 1.0 / EM_FACTOR[(b, a)]


def make_em_case(a, b, pa, pb, shape):
    """the property claims the laws for the EM pairs, not the factor: routes agree, the map is linear in the value
    (f(x) = x*f(1)), prefixes scale it as SI prefixes do, there-and-back is the identity"""
    def h(ctx):
        unyt = ctx.mods["unyt"]
        x = ctx.reals("x", shape)
        A, B = pa + a, pb + b
        q = ctx.quantity(x, A)
        xs = elements(x)
        k0 = payload(ctx.quantity(ctx.const_array(1.0) if shape == () else ctx.const_array(np.ones(shape)), a).to(b))[0]
        want = [v * k0 * (PREFIX.get(pa, 1.0) / PREFIX.get(pb, 1.0)) for v in xs]
        for e in ["to", "in_units", "to_value", "convert_to_units"]:
            vals, u = convert(ctx, q, B, e)
            ctx.require(f"EM linear, prefix-covariant, routes agree/{e}", all_close(vals, want), entry=e)
            ctx.observe(f"EM/{e}", vals)
            if u is not None:
                ctx.require(f"EM unit/{e}", str(u) == str(unyt.Unit(B)))
        back = q.to(B).to(A)
        ctx.require("EM A->B->A", all_close(payload(back), xs))
        cgs = b.startswith("stat") or b == "G"
        r1 = q.in_cgs() if cgs else q.in_mks()
        c = q.copy()
        (c.convert_to_cgs if cgs else c.convert_to_mks)()
        ctx.require("EM in_base == convert_to_base", And(all_close(payload(r1), payload(c)), str(r1.units) == str(c.units)))
        r3 = q.to(r1.units)
        ctx.require("EM in_base == to(base unit)", all_close(payload(r1), payload(r3)))
        ctx.observe("EM base", payload(r1))
        ctx.require("input untouched", all_close(payload(q), xs, tol=0))
    return Case(f"C03/em/{pa}{a}>{pb}{b}/shape{'x'.join(map(str, shape)) or '0'}", h, bounds="concrete EM factors, symbolic values")


def make_base_case(kind, system, shape):
    """in_base == convert_to_base == to(get_base_equivalent), for symbolic-scale units"""
    k = KINDS[kind]

    def h(ctx):
        reg = ctx.registry([])
        sA, oA = k.build(ctx, reg, 0)
        x = ctx.reals("x", shape)
        q = ctx.quantity(x, sA, reg)
        xs = elements(x)
        r1 = q.in_base(system)
        c = q.copy()
        c.convert_to_base(system)
        tgt = q.units.get_base_equivalent(system)
        r3 = q.to(tgt)
        r4 = {"cgs": q.in_cgs, "mks": q.in_mks}[system]()
        c2 = q.copy()
        {"cgs": c2.convert_to_cgs, "mks": c2.convert_to_mks}[system]()
        for nm, r in (("convert_to_base", c), ("to(get_base_equivalent)", r3), ("in_" + system, r4), ("convert_to_" + system, c2)):
            ctx.require(f"in_base == {nm}", And(all_close(payload(r1), payload(r)), str(r1.units) == str(r.units)))
        sb = r1.units.base_value
        ob = r1.units.base_offset
        ctx.require("in_base si", And(*[close((v - ob) * sb, oA.si(w), extra=1e-6 * (vabs(oA.s * oA.o) + vabs(sb * ob))) for v, w in zip(payload(r1), xs)]))
        ctx.observe("in_base", payload(r1))
        ctx.require("input untouched", And(all_close(payload(q), xs, tol=0), unit_same(q.units, ctx.mods["unyt"].Unit(sA, registry=reg))))
    return Case(f"C03/base/{kind}/{system}/shape{'x'.join(map(str, shape)) or '0'}", h)


def cases(tier, mods):
    _fix_table_scales(mods)
    check_names(mods, NAMES)
    out = []
    fam = {
        "L": ["plainL", "kplainL", "uplainL"],
        "T": ["Tplain", "Taffine", "Tk", "Tm"],
        "G": ["Gaffine", "rad", "degree", "lat", "lon"],
        "Ttab": ["K", "degC", "degF", "mdegC", "R", "Taffine"],
    }
    shapes_q = [(), (2,)]
    if tier == "quick":
        # all ordered pairs per family + a fixed list of triples
        for f, ks in fam.items():
            for a, b in itertools.product(ks, ks):
                if a == b and a not in ("Taffine", "plainL", "Gaffine"):
                    continue
                out.append(make_chain_case([a, b], (), ENTRIES, "pair" + f))
        for tr in (["plainL", "kplainL", "uplainL"], ["Tplain", "Tk", "Tm"], ["degC", "degF", "K"], ["K", "degC", "mdegC"],
                   ["R", "mdegC", "degF"], ["rad", "degree", "lat"], ["lat", "lon", "degree"], ["Taffine", "degC", "degF"],
                   ["Gaffine", "lat", "rad"], ["Tk", "Taffine", "Tplain"], ["degF", "Taffine", "mdegC"]):
            out.append(make_chain_case(tr, (), ENTRIES, "chain"))
        out.append(make_chain_case(["compound", "compound", "compound"], (2,), ENTRIES, "chain"))
        out.append(make_chain_case(["plainE", "MplainE", "plainE"], (2,), ENTRIES, "chain"))
        out.append(make_chain_case(["Taffine", "Taffine"], (2,), ENTRIES, "pair"))
        out.append(make_chain_case(["TkS", "Taffine"], (), ENTRIES[:2], "pairS"))
        for a, b in EM_PAIRS:
            out.append(make_em_case(a, b, "", "", ()))
        out.append(make_em_case("C", "statC", "k", "m", (2,)))
        out.append(make_em_case("G", "T", "u", "", (2,)))
        for k in ("plainL", "plainE", "compound", "Taffine", "Gaffine", "Tk", "Tm", "mdegC", "degF", "degC", "lat", "kplainL"):
            for s in ("cgs", "mks"):
                out.append(make_base_case(k, s, ()))
    else:
        for f, ks in fam.items():
            for a, b, c in itertools.product(ks, ks, ks):
                out.append(make_chain_case([a, b, c], (), ENTRIES, "chain" + f))
            for a, b in itertools.product(ks, ks):
                out.append(make_chain_case([a, b], (2,), ENTRIES, "pair" + f))
        for sh in [(), (2,), (2, 2)]:
            out.append(make_chain_case(["compound", "compound", "compound"], sh, ENTRIES, "chain"))
            out.append(make_chain_case(["plainE", "MplainE", "plainE"], sh, ENTRIES, "chain"))
        out.append(make_chain_case(["TkS", "Taffine"], (), ENTRIES[:2], "pairS"))
        out.append(make_chain_case(["TkS", "TkS", "Tplain"], (), ENTRIES[:2], "chainS"))
        for a, b in EM_PAIRS:
            for pa, pb in [("", ""), ("k", ""), ("", "m"), ("u", "M")]:
                for sh in [(), (2,)]:
                    out.append(make_em_case(a, b, pa, pb, sh))
        for k in sorted(KINDS):
            for s in ("cgs", "mks"):
                for sh in [(), (2,)]:
                    out.append(make_base_case(k, s, sh))
    return out
