"""C18 - non-mutating calls do not mutate; failed calls leave their operands intact.

Every operand of every call is a VIEW (a window) of a larger array - a C-contiguous slice or, on the memory-layout axis, every
second row, rows in reverse order, a transposed (Fortran-ordered) block, every second column. out= is a fresh window, the input
object itself, or a SECOND view object on memory of an input (the same window carved again, a child view, the memory walked
backwards, the window shifted by one row, the window under another unit), with or without where=. Before the call every
operand, every parent, every unit object and the registry rows are snapshotted; after the call - returned or raised - the obligations are term-for-term
equalities (z3, under the path condition, tol=0) between the snapshot and what the objects hold now.

Copy routes are walked in every spelling of their optional arguments (order=, copy=, memo, units=None, equivalence=None; positional
and keyword) and each is followed by an in-place edit of what it returned: the original must not move. Sequences of quantities
stored by one call (item assignment, np.put / putmask / place) carry each fault at every position of the sequence.

Histories: the same disciplines are applied to every step of two- and three-call sequences run inside ONE path (refused /
returned in-place call, refused / returned copying call, on the same or on another array), so that whatever a call leaves
behind in unyt (a cache entry, a shared helper object, a switch a raising call did not reset) meets the next call.
"""
import copy as _copy
import operator
import re

import numpy as np
import z3

from .common import And, Case, Iff, PREFIX, call, check_names, close, exact_eq
from .common import elements as _elements
from symx.core import SymBool, SymReal, Unsupported

LEVEL = "other"
MANIFEST = dict(
    category="other",
    text=("Bounded symbolic execution of the real unyt code (symx) with a before/after frame check: for every enumerated call "
          "(conversions and their in-place twins, operators and augmented assignments, ufuncs with/without out= incl. out= "
          "aliasing an input, reductions, array functions, item assignment, Unit arithmetic, copies) x every injected fault x "
          "every operand position, the operands are windows on larger arrays whose elements, unit scales and unit offsets are "
          "z3 reals; two more discrete axes are enumerated: the MEMORY LAYOUT of operands, in-place targets and out= buffers "
          "(C-contiguous slice, every second row, reversed rows, transposed/Fortran-ordered block, every second column) and the "
          "ALIASING RELATION between out= and the inputs (a fresh buffer, the input object itself, a second view object on the "
          "input's memory: same window, child view, reversed, shifted by one row = partial overlap, relabelled with another unit; "
          "the statement form parent[window] op= b), plus where= masks on ufuncs with out= (unselected elements keep their exact "
          "old terms); z3 proves per path that every input of a copying call, and the target of an in-place call that raised, "
          "hold exactly the terms they held before (numbers, unit object fields, dtype, parent array, registry rows), and that "
          "a successful in-place call changed only its target and agrees with the copying twin. Integer-buffer failure points "
          "run on real int8..int64 buffers with symbolic unit scales. Call HISTORIES are part of the enumeration: all two-call and "
          "a family of three-call sequences over {refused in-place, returned in-place, refused copying, returned copying} calls "
          "(10 equivalences and pairs of equivalences sharing a dimension; conversions, base conversions, operators, ufuncs with "
          "out=, array functions, item assignment, copies and Unit arithmetic on one operand set) run inside one path without any "
          "reset in between, each step held to its frame rule, with the results of earlier steps, the module-level physical "
          "constants and the registry's unit system as bystanders; read-only targets are one more injected fault. "
          "Two further discrete axes: the ARGUMENT SPELLING of the copying calls (order= of copy / np.copy / np.array / astype / "
          "flatten in each of its values, copy=True, deepcopy memo, units=None, equivalence=None; positionally and by keyword; "
          "identity conversions to / in_units / in_base / in_cgs / to_equivalent on a source already in the target unit; the "
          "unit-stripping copies to_ndarray / value / v / to_value()), each followed by an in-place edit of the returned object "
          "under which the original and its parent must keep their exact terms; and SEQUENCES of quantities stored by one call "
          "(list / tuple, one entry per slot, each entry in its own symbolic-scale unit; item assignment under 9 index kinds, "
          "np.put / putmask / place) with every fault injected at EVERY position of the sequence, so that a refusal after the "
          "earlier slots were written is a counter-model of 'in-place call raised: numbers of the target unchanged'. "
          "BARE ndarray operands next to quantities in SCALED pure-number units (percent-like table units, a user unit of "
          "symbolic scale, cancelling pairs km/m, k<u>/<u>, <u>/<v> of two symbolic scales) are tracked as INPUTS of every binary "
          "key whose unit rule rescales the second operand (add, subtract, 6 comparisons, remainder, floor_divide, fmod, "
          "maximum, minimum, fmax, fmin, hypot, arctan2, copysign, nextafter, heaviside, logaddexp) x {operator, reflected "
          "operator, ufunc call with the bare array second, ufunc call with it first} x {whole array, contiguous window, strided "
          "window of a parent that is tracked too} on symbolic object payloads, and - ground part, because np.asarray(x, "
          "dtype=float) is the identity only there - on real float64 / float32 buffers with table units. "
          "Counterexamples are replayed on plain unyt."),
    design="DESIGN.md section 4 C18",
    technique="symbolic execution of the real Python code over z3 real terms; frame obligations (term equality under the path condition) decided by z3; counterexample replay")
EXPLANATION = (
    "The real conversion entry points (to, in_units, to_value, in_base/in_cgs/in_mks, to_equivalent, convert_to_units/base/cgs/"
    "mks/equivalent), unyt_array.__array_ufunc__ (operators, augmented assignments, ufuncs with out=, reduce/accumulate), the "
    "__array_function__ handlers (concatenate, stack, where, clip, dot, take, around, choose, einsum, copyto, put, putmask, "
    "place, fill_diagonal, insert, append, sort, cumsum ...), __setitem__, Unit.__mul__/__truediv__/__pow__/__eq__, "
    "get_base_equivalent, as_coeff_unit, simplify and the copy protocols are executed on operands that are slices of larger "
    "arrays of z3 reals, in units whose scale/offset are z3 reals. A snapshot (element terms, units object and its expr/"
    "base_value/base_offset/dimensions/registry, dtype, shape, all registry rows) is taken before the call. Per path z3 decides "
    "pc & not(P), P = the snapshot still holds (exact term equality, handed to the solver unsimplified) for every input of a "
    "copying call and for the target of an in-place call that raised; for an in-place call that returned: only the target (and "
    "the parent's elements it overlays) changed, the target's numbers are within the 1e-6 band of the copying twin's numbers and "
    "its unit has the twin's fields. Where the library never touches a buffer the equalities are syntactic and discharge at once; "
    "the solver's real work is on paths where data was rewritten (in-place vs copying twin, conversion of the second operand, "
    "offset subtraction) and in producing the counter-models for mutations. "
    "History cases run two or three such calls one after the other inside one path (unyt's caches and module-level objects are "
    "not reset in between; an in-place step is NOT preceded by its copying twin, the twin of a step that returned runs afterwards on "
    "a harness-built clone of the old target): every step gets its own snapshot and its own frame obligations, labelled with the "
    "step, so a copying call that writes into its input only after an earlier in-place call was refused (state left behind by the "
    "raising call) is a counter-model of 'step 2 ...: copying call returned: numbers of p unchanged'. What a copying step returned "
    "is tracked as a bystander of the later steps and must share no memory with an operand or an earlier result; the physical "
    "constants the equivalences read and the registry's unit system object are bystanders too. "
    "Memory layout and aliasing: a window's positions in its parent are computed by the harness from an index array carved the "
    "same way, so 'only the target changed' is stated element by element on the parent for every layout; when out= is a second "
    "view object on memory of an input, the target's window of the parent must hold the numbers of the copying twin (evaluated "
    "BEFORE the call on the untouched operands), every other parent element its old term, and the overlaid operand keeps its unit "
    "object, dtype, shape and class - so an intermediate result parked in out= before the operand underneath was read (a guard by "
    "object identity instead of memory overlap), or a result written into a contiguous temporary of a strided / transposed out= "
    "while the caller's buffer is only relabelled, is a counter-model of 'target holds the numbers of the copying twin'. With "
    "where=[True, False] the selected elements must equal the twin's, the others must be exactly their old terms. "
    "Copy routes and their argument spellings: a route that answers one spelling of one argument with a view of its input "
    "(np.asfortranarray / np.asarray in place of np.copy because 'the layout is already the one asked for', an identity conversion "
    "that returns self) gives the right numbers and leaves its input alone, so the copying discipline alone cannot see it: every "
    "copy case therefore continues with an in-place call on the returned object (*=, out=, item assignment, fill, convert_to_units / "
    "base) inside the same path, and z3 decides that the original and the parent under it still hold their snapshot terms while "
    "the copy agrees with its copying twin; the sources are 1-d windows (C- and Fortran-contiguous at once), C-ordered and "
    "Fortran-ordered 2x2 windows, strided windows and 0-d quantities. Branches taken only for real float buffers (dtype.kind tests) "
    "are walked by the same cases on concrete float64/float32 data (ground obligations, counted as such). "
    "Sequences: __setitem__ / np.put / np.putmask / np.place with a list or tuple of quantities - each entry element 1 of its own "
    "4-element parent, in a unit with its own symbolic scale (or offset) - are run with the fault (other dimension, bare number, "
    "dimensionless entry, prefixed other dimension) at position 0, 1 and 2; raised -> target, parent, every entry and every entry's "
    "parent hold their snapshot terms; returned -> every slot within the 1e-6 band of entry.in_units(array unit) computed beforehand. "
    "barescale/<key>/<form>/<unit>/<payload>/<operand>: a quantity a in a scaled pure-number unit and a bare ndarray b (read as "
    "dimensionless, so one of the two is rescaled by the unit's base value inside __array_ufunc__); form op = a <op> b, rop = b <op> a, "
    "uf = np.key(a, b), ruf = np.key(b, a); payload sym = object arrays of z3 reals (unit scale symbolic for xd, xa/xb), f64 / f32 = "
    "real float buffers with exactly representable numbers and table units (ground); operand whole = b owns its memory, window / "
    "strided = b is a view of a tracked parent. Returned or raised: numbers, dtype, shape, class of a, a^, b, b^ and the unit "
    "object of a as in the snapshot taken before the call; registry rows unchanged."
)
BOUNDS = {
    "quick": "conversions x 5 entry points x {valid plain/prefixed/affine/compound/table/EM/identity, dimension mismatch, unknown unit, "
             "unparsable unit}; base conversions x 13 entry points x {plain, affine, compound, table, EM x2, irreducible x2, unknown "
             "system}; 22 equivalence routes x 4 entry points incl. invalid equivalence (source/target/name), bad kwarg, unknown "
             "unit, offset unit; 12 binary operators + 6 augmented assignments + ** (6 forms x 13 exponent kinds) + 3 unary x "
             "[bare ndarray next to a scaled pure number: 21 binary keys x {op, rop, uf, ruf} x {sym, f64, f32} with the unit kind (6 for "
             "sym, 3 table units for real buffers) and the operand kind {whole, window, strided} rotating so that every pair of the two "
             "occurs per payload kind; keys without an object loop only on real buffers; floor_divide without the ratio of two symbolic scales] "
             "operand variants {same unit, other scale, table pair, other dimension, quantity, bare number/array on either side, "
             "same object twice, offset guards, K/degC guard, logarithmic unit, non-dimensionless exponent}; 45 ufunc configurations x "
             "out in {none, fresh, other unit, bare ndarray, wrong shape, wrong shape in a commensurable other unit, wrong shape in another "
             "dimension, alias of input 0, alias of input 1}; reduce/accumulate; 23 reductions with/without out= (same out forms); 49 "
             "array-function call forms without out=, 28 handlers/methods with out= (concatenate, stack, clip, dot/outer/matmul, take, "
             "around/round, choose, einsum, compress, cumsum, sum) x 7 out forms + out= an int32 slice in another unit (right and wrong "
             "shape: NumPy refuses the cast or the shape), 14 in-place ones "
             "(sort, copyto, put, putmask, place, fill_diagonal, fill); item assignment 5 index kinds x 12 value kinds + 7 kinds of "
             "values a float buffer refuses; 46 Unit operations x 8 unit pairs; 11 copy routes each followed by in-place edits of "
             "the copy; integer buffers int8/int32/uint16 (convert_to_*, out=, augmented assignment, copies) with symbolic scales on "
             "the routes that fail before arithmetic; float-only forms (x**2 / x**0.5 / x**-1 fast paths, modf/divmod/frexp/copysign/"
             "isfinite with out= tuples) on concrete doubles with symbolic unit scales. Operands are 2-element slices of 4-element "
             "parents (2x2 slices of 4x2 parents where a matrix is needed). The quick tier drops the bare/other-unit/wrong-shape out= "
             "forms for most ufuncs and half of the copy-then-edit and Unit-pair combinations. "
             "HISTORIES (calls in one path, no reset in between): (A) equivalence conversions, table units with symbolic payloads and "
             "symbolic mu/gamma: thermal: 20 first calls {in-place refused by: target outside the equivalence, unexpected keyword, "
             "unknown unit, unknown equivalence, source outside the equivalence, read-only target, int8 target; in-place returned "
             "(other side / same-dimension unit); copying refused x5; copying returned} x 2 in-place entry points x 11 second calls "
             "{to_equivalent, to, in_units, to_value with equivalence=, same-dimension target, convert_to_equivalent, "
             "convert_to_units(equivalence=), refused copying, refused in-place} x {other array in the other side's unit; same array "
             "(every 4th pair in quick)}; the 9 other configurations (mass_energy, spectral x2, sound_speed x2, number_density, "
             "schwarzschild, compton, effective_temperature) x 3 first x 2 second calls; 9 ordered pairs of equivalences that share "
             "a dimension x 3 x 2; all 64 three-call words over {refused in-place, returned in-place, refused copying, returned "
             "copying} for thermal. (B) one operand set in harness units with symbolic scales (q, p sharing a Unit object, c in "
             "another dimension, out= buffers o/o3/o4, a read-only view w): 18 in-place letters (convert_to_units valid/dimension/"
             "unknown, convert_to_cgs, convert_to_base(unknown), +=, += dimension, *=, -= on read-only, np.add out=o / out=input / "
             "dimension mismatch with out / wrong-shape out, np.concatenate out= valid/dimension, item assignment valid/dimension, "
             "sort) x 11 second calls, 6 refused copying letters x 5, 5 returned copying letters x 4, alternating same-array / "
             "other-array; an affine operand set (symbolic offsets) 9 x 5; 64 + 32 three-call words (conversion letters; operator "
             "letters, words that start with an in-place call). (C) read-only targets: 22 in-place call forms on a read-only view. "
             "MEMORY LAYOUT (windows that are not C-contiguous: 1-d {every second element, reversed}, 2x2 {transposed = Fortran-ordered, "
             "every second column, every second row}): out= of the 28 array-function forms and of reduce/accumulate in EVERY such layout; "
             "reductions with out= {strided, reversed | transposed, colstrided}; 53 ufunc configurations x out= strided (+ operands "
             "strided / reversed with one rotating out= form); a rotating choice of 1-2 layouts per call site for the target of "
             "convert_to_units (2), the 6 in-place base conversions, the 2 in-place equivalence entries, every augmented assignment x "
             "operand variant, ipow / np.power(out=), the 14 in-place array functions (2), item assignment (index kind x value kind), "
             "copy-then-edit, and for the operands of the copying calls to / to_value / in_base / in_cgs / to_equivalent, every binary "
             "operator x variant (2x2 windows for + - * / only: comparisons, floor and mod fork per element), the 49 array functions, "
             "reductions; int32 buffers every second element (convert_to_units/base, np.add(out=int), +=). "
             "OUT= ALIASING (out= a second view OBJECT on memory of an input): 53 ufunc configurations (8 more than before: point - "
             "absolute temperatures, which unyt refuses only after rescaling an operand, difference + point, subtract on table units) x "
             "{same window of operand 0, of operand 1} + 2 rotating of {child view, reversed view, window shifted by one element = "
             "partial overlap, same window under another commensurable unit} x {operand 0, operand 1}; array functions with out= of the "
             "operand's shape (clip, dot, matmul, take, around, round, choose, einsum, compress, cumsum): same window + 1 rotating; "
             "add.accumulate and cumsum {same window, reversed, shifted, relabelled}; the other reductions: out= a row of the input; "
             "np.power(out=view of a); modf/divmod/frexp/copysign/isfinite on doubles {same window, shifted}; the statement form "
             "parent[window] op= b for += -= %= (and *= /= //= by a bare number); history letter np.add(x, y, out=x[...]). "
             "WHERE=: ufuncs with out= and where=[True, False]: out fresh and out= a second view of operand 0 for every configuration. "
             "ARGUMENT SPELLING: 5 more spellings of to / in_units / to_value (units=, equivalence None positionally / by keyword) and 3 of "
             "convert_to_units x 7 unit pairs/faults; in_base(unit_system=) / in_base(None) / in_base(UnitSystem object) and their "
             "in-place twins x 8 sources; 68 copy-route spellings (order C/F/A/K positional and keyword for copy, np.copy, np.array, "
             "astype, flatten; copy=True; deepcopy memo; to_ndarray / value / v / to_value() / to_value(None) / to_value(units=None); "
             "identity to / in_units / in_base / in_mks / in_cgs / to_equivalent; np.repeat / np.tile) x {1-d window, one of "
             "Fortran-ordered / C-ordered 2x2 window} x a rotating in-place edit of the copy (8 edits), + every route once on a real "
             "float64 buffer (concrete doubles, ground obligations). "
             "SEQUENCES: item assignment of a list/tuple of quantities: 5 unit patterns x 2 containers x 9 index kinds (2 of 5 in quick), "
             "rows of a 2x2 window; 4 faults x position 0/1/2 x index kind x container (1 of 3 in quick) + one non-contiguous target each; "
             "np.put / np.putmask / np.place with the same sequences: valid x 2, dimension mismatch x 3 positions",
    "thorough": "the same catalogue with every op x variant x out= form, array operands and scalar operands (element 1 of a 4-element "
                "parent), integer buffers int8/uint8/int16/uint16/int32/int64; histories: thermal 20 x 11 x both array patterns, the "
                "other 9 equivalences 9 x 7 x both patterns, equivalence pairs 3 x 6, three-call words for thermal/sound_speed/spectral "
                "x two array patterns, scalar operands for 15 thermal pairs; (B) ALL ordered pairs of the 42 letters x both array "
                "patterns, affine set x both patterns, 4 x 64 three-call words; memory layout: every listed call site x ALL its "
                "non-contiguous layouts (copying conversion entries, binary operators and copies: 2-3 rotating), integer buffers "
                "int8..int64 x {strided, reversed}; out= aliasing: all 10 second-view forms per ufunc configuration and 5 (+3 on "
                "operand 1) per array function, operands strided x {none, fresh, the input, second view} and reversed x {none, the "
                "input, shifted}; where= x {fresh, the input, second view, strided, other unit}; statement form also on strided and "
                "2x2 every-second-column windows; argument spelling: every spelling x every unit pair x scalar / array / one "
                "non-contiguous layout, copy spellings x 7 sources (1-d, C / Fortran 2x2, strided, every second column, reversed, 0-d) + "
                "float64 and float32 buffers; sequences: the full product unit pattern x container x index kind, every fault x position "
                "x index kind x container, np.put / putmask / place x 4 faults x 3 positions; bare ndarray next to a scaled pure number: "
                "the full product key x form x payload kind x unit kind x operand kind",
}
OUTSIDE = ("IEEE rounding/overflow/nan (A1); complex payloads; bare operands next to scaled pure numbers other than 1-d arrays of two "
           "elements (0-d, 2-d, lists - NumPy copies those -, float16 / integer bare buffers) and real float buffers next to a unit of "
           "symbolic scale (the rescaled copy becomes an object array: another route than the one real buffers take); sequences longer than three entries, nested sequences and sequences "
           "handed to np.copyto / fill (unyt stores their raw numbers: C01's subject); astype(copy=False) and the as*array functions "
           "(documented to return their input when they can); order= spellings of routes other than the copy routes; histories longer than three calls, histories that cross the "
           "equivalence / plain-catalogue operand sets, and state that survives a path only in a worker process (every path starts "
           "from whatever the previous path of that worker left in module-level objects other than the lru_caches: on the unchanged "
           "tree nothing; a history therefore always contains its own first call); out= windows that lie on memory of an input of ANOTHER shape "
           "(np.concatenate / np.stack into a buffer covering an input: NumPy itself does not define the result; only 'a row of the "
           "input' is walked for reductions), partially overlapping out= together with where= (NumPy writes a temporary back over "
           "the whole window: np.equal(x[1:3], y, out=x[2:4], where=[True, False]) changes x[3] on bare ndarrays), where= masks other "
           "than [True, False], windows of more than two dimensions, zero-stride (broadcast) and retyped views, the statement form "
           "parent[window] op= b for operators whose result carries another unit than the array (__setitem__ refuses it after the "
           "product was formed: Python's statement semantics, not one call); dask/astropy/pint/h5py bridges; the integer-buffer and float-only "
           "routes run on concrete numbers (the buffer content is not symbolic there, the unit scales/offsets are); what a successful "
           "in-place dtype change does to the integer parent under the target (C16) and float16 precision of 2-byte integers (C17); "
           "ndarray.std and the divmod operator on symbolic payloads (NumPy has no object-dtype route for them: std is not run, divmod "
           "runs on concrete doubles); whether a call SHOULD have been refused (C01) or returns the right numbers (C03/C04/C06) - only "
           "the frame and the in-place/copy agreement are claimed here")
CONFORM = {"quick": 120, "thorough": 360}

# harness unit rows: name -> (attribute of unyt.dimensions, has symbolic offset)
ROWS = {"xa": ("length", False), "xb": ("length", False), "xs": ("time", False), "xm": ("mass", False),
        "xta": ("temperature", True), "xtb": ("temperature", True), "xtk": ("temperature", False),
        "xga": ("angle", False), "xd": ("dimensionless", False)}
NAMES = list(ROWS)
_IDENT = re.compile(r"[A-Za-z_][A-Za-z_0-9]*")


def lib_call(fn, *a, **k):
    """call of the library under test; an exception that only exists because the payload is symbolic is not 'unyt raised'"""
    r = call(fn, *a, **k)
    if r[0] == "raise" and isinstance(r[1], TypeError):
        m = str(r[1])
        if "SymReal" in m or "SymBool" in m or "loop of ufunc" in m or "not supported for the input types" in m or ("Cannot cast ufunc" in m and "dtype('O')" in m):
            raise Unsupported("object-dtype refusal: " + m[:160])
    if r[0] == "raise" and isinstance(r[1], KeyError) and "ufunc 'real'" in str(r[1]):
        raise Unsupported("object-dtype artefact: ndarray.real of an object array is a ufunc call")
    return r


def elements(x):
    """flat list of the numbers in x. A9: `objarr[i] = zero_d_array` stores the 0-d wrapper itself where a float buffer would
    store its number - unwrap it"""
    out = []
    for e in _elements(x):
        while isinstance(e, np.ndarray) and e.shape == () and e.dtype == object:
            e = np.asarray(e)[()]
        out.append(e)
    return out


def payload(x):
    return elements(x.d) if hasattr(x, "units") and hasattr(x, "d") else elements(x)


def unit_fields(u):
    return (u.expr, u.base_value, u.base_offset, u.dimensions, u.registry)


def fields_same(f, g):
    return And(f[0] == g[0], str(f[0]) == str(g[0]), exact_eq(f[1], g[1]), exact_eq(f[2], g[2]), f[3] == g[3], f[4] is g[4])


def unit_equiv(u, v):
    """same unit as far as a user can tell: expression, dimensions, scale, offset"""
    return And(str(u) == str(v), u.dimensions == v.dimensions, exact_eq(u.base_value, v.base_value),
               exact_eq(u.base_offset, v.base_offset))


def val_same(x, y):
    if isinstance(x, SymBool) or isinstance(y, SymBool):
        return Iff(x, y)
    if isinstance(x, (bool, np.bool_)) and isinstance(y, (bool, np.bool_)):
        return bool(x) == bool(y)
    return exact_eq(x, y)


def val_close(x, y, extra=0):
    if isinstance(x, SymBool) or isinstance(y, SymBool):
        return Iff(x, y)
    return close(x, y, extra=extra)


def vals_same(xs, ys):
    xs, ys = list(xs), list(ys)
    if len(xs) != len(ys):
        return False
    return And(*[val_same(x, y) for x, y in zip(xs, ys)]) if xs else True


def vals_close(xs, ys, extra=0):
    xs, ys = list(xs), list(ys)
    if len(xs) != len(ys):
        return False
    return And(*[val_close(x, y, extra) for x, y in zip(xs, ys)]) if xs else True


def flat(r):
    """all numbers of a result (quantity, ndarray, scalar, tuple of those)"""
    if isinstance(r, (tuple, list)):
        out = []
        for e in r:
            out += flat(e)
        return out
    if r is None or isinstance(r, (str, bytes)) or getattr(r, "is_Unit", False):
        return []
    try:
        return list(payload(r))
    except (TypeError, ValueError):
        return []


def obs(vals):
    out = []
    for v in vals:
        if isinstance(v, SymBool):
            t = z3.simplify(v.t)
            out.append(True if z3.is_true(t) else False if z3.is_false(t) else "?")
        elif isinstance(v, (bool, np.bool_)):
            out.append(bool(v))
        elif isinstance(v, SymReal):
            t = z3.simplify(v.t)
            out.append(v if (z3.is_rational_value(t) or z3.is_algebraic_value(t) or not _is_ground(t)) else "uninterpreted")
        else:
            out.append(v)
    return out


def _is_ground(t):
    """no free real constant inside (pinned mode): then a non-numeral is an uninterpreted application"""
    todo, seen = [t], set()
    while todo:
        x = todo.pop()
        if x.get_id() in seen:
            continue
        seen.add(x.get_id())
        if z3.is_const(x) and x.decl().kind() == z3.Z3_OP_UNINTERPRETED:
            return False
        todo.extend(x.children())
    return True


LAYOUTS = ("c", "strided", "rev", "T", "colstrided")
LAY1 = ["strided", "rev"]              # one-dimensional windows that are not C-contiguous
LAY2 = ["T", "colstrided", "strided"]  # two-dimensional: a Fortran-ordered block, every second column, every second row


def _parent_shape(shape, layout):
    if shape == ():
        return (4,)
    n, rest = shape[0], tuple(shape[1:])
    if layout in ("c", "rev"):
        return (n + 2,) + rest
    if layout == "strided" or (layout == "colstrided" and not rest):
        return (2 * n + 2,) + rest
    if layout == "T":
        assert len(shape) == 2
        return (shape[1] + 2, shape[0])
    if layout == "colstrided":
        return (n + 2,) + rest[:-1] + (2 * rest[-1],)
    raise KeyError(layout)


def _window(shape, layout, shift=0):
    """index expression of the window of that layout on a parent of _parent_shape (shift: moved on by so many window rows);
    layout 'T': the index of the block that is then transposed"""
    n, k = shape[0], 1 + shift
    if layout == "c":
        return slice(k, k + n)
    if layout == "strided" or (layout == "colstrided" and len(shape) == 1):
        return slice(1 + 2 * shift, 1 + 2 * shift + 2 * n, 2)
    if layout == "rev":
        return slice(n + shift, shift, -1)
    if layout == "T":
        return slice(k, k + shape[1])
    if layout == "colstrided":
        return (slice(k, k + n), Ellipsis, slice(None, None, 2))
    raise KeyError(layout)


def _carve(par, shape, layout, shift=0):
    v = par[_window(shape, layout, shift)]
    return v.T if layout == "T" else v


class Snap:
    def __init__(self, obj):
        self.obj = obj
        self.is_unit = bool(getattr(obj, "is_Unit", False))
        if self.is_unit:
            self.uobj, self.ufields = obj, unit_fields(obj)
            return
        self.vals = list(elements(obj))
        self.dtype, self.shape, self.cls = obj.dtype, obj.shape, type(obj)
        self.uobj = getattr(obj, "units", None)
        self.ufields = unit_fields(self.uobj) if self.uobj is not None else None


class _Lut(dict):
    """copy of the registry rows at snapshot time (+ the registry's unit system object)"""


class Env:
    """registry + tracked objects of one harness run"""

    def __init__(self, ctx):
        self.ctx = ctx
        self.unyt = ctx.mods["unyt"]
        if ctx.symbolic:
            from symx.kernels import KernelModel
            KernelModel.strict = True  # an exception raised by unyt's own code is the library's outcome, never a modelled kernel
        from symx import shims
        shims.clear_caches(ctx.mods)  # also in concrete mode: unyt's lru_caches hand out Unit objects of equal units of EARLIER registries
        self.reg = ctx.registry([])
        self.rows = {}
        self.tracked = {}    # key -> object
        self.parent_of = {}  # key -> (parent key, flat positions)
        self.carved = {}     # key -> (shape, layout) of an operand that is a window on its parent
        self.overlap = {}    # key of a second view -> keys of the tracked operands whose memory it lies on
        self.under_check = True
        self.must_return = False  # set for 'valid' variants: the call under test has to return (guards the catalogue itself)
        self.parent_full = False  # integer routes: a retyped view and its integer parent read the same bytes differently
        self.observe_values = True  # off for discontinuous operations (floor/mod): exact rationals vs doubles differ near the jumps

    # ---------------------------------------------------------------- units
    def need(self, ustr):
        D = self.unyt.dimensions
        for ident in _IDENT.findall(ustr):
            base = ident
            if base not in ROWS:
                for p in PREFIX:
                    if ident.startswith(p) and ident[len(p):] in ROWS:
                        base = ident[len(p):]
            if base in ROWS and base not in self.rows:
                dn, off = ROWS[base]
                s = self.ctx.real(base + "_s", pos=True)
                o = self.ctx.real(base + "_o") if off else 0.0
                self.ctx.add_row(self.reg, base, getattr(D, dn), s, o, prefixable=True)
                self.rows[base] = (s, o)

    def unit(self, ustr, key=None):
        self.need(ustr)
        u = self.unyt.Unit(ustr, registry=self.reg)
        if key:
            self.tracked[key] = u
        return u

    # ---------------------------------------------------------------- operands
    def _wrap(self, raw, ustr):
        if ustr is None:
            return raw
        self.need(ustr)
        return self.unyt.unyt_array(raw, ustr, registry=self.reg)  # a view of raw, not a copy

    def _slice(self, name, par, shape, layout="c"):
        if shape == ():
            op = par[1]
            pos = None
        else:
            op = _carve(par, shape, layout)
            pos = [int(i) for i in _carve(np.arange(int(np.prod(par.shape))).reshape(par.shape), shape, layout).ravel()]
            assert op.shape == tuple(shape), (op.shape, shape, layout)
        self.tracked[name + "^"] = par
        if isinstance(op, np.ndarray):
            self.tracked[name] = op
            if pos is not None:
                self.parent_of[name] = (name + "^", pos)
                self.carved[name] = (tuple(shape), layout)
        return op

    def view(self, name, ustr, shape=(2,), layout="c", **kw):
        """an operand that is a window on a larger parent (layout 'c': the slice [1:1+n] of a parent with two more rows; the other
        LAYOUTS: every second row, rows in reverse order, a transposed = Fortran-ordered block, every second column; shape () ->
        element 1 of a 4-element parent); ustr None -> bare ndarray / bare number. Payload = fresh symbols name_i"""
        raw = self.ctx.reals(name, _parent_shape(shape, layout), **kw)
        return self._slice(name, self._wrap(raw, ustr), shape, layout)

    def concrete(self, name, values, ustr=None, dtype=float, layout="c"):
        """operand with concrete numbers (exponents, index-like data, typed integer buffers): a window on a larger parent"""
        vals = np.asarray(values)
        if vals.shape == ():
            full = np.array([7, vals[()], 5, 9], dtype=dtype)
            return self._slice(name, self._wrap(full, ustr), ())
        if layout == "c":
            full = np.concatenate([np.full((1,) + vals.shape[1:], 7), vals, np.full((1,) + vals.shape[1:], 9)]).astype(dtype)
        else:
            pshape = _parent_shape(vals.shape, layout)
            full = (7 + np.arange(int(np.prod(pshape))) % 3).reshape(pshape).astype(dtype)
            _carve(full, vals.shape, layout)[...] = vals
        return self._slice(name, self._wrap(full, ustr), vals.shape, layout)

    def alias(self, name, of, how, ustr=None):
        """a SECOND view object on memory of the tracked operand `of` (itself a window on its parent), to be handed to out=:
        'view' the same window carved from the parent once more (x[::2] written twice), 'subview' of[...] (a child view of the
        operand), 'flip' the operand's memory walked in the opposite direction, 'shift' the window moved on by one row (it lies on
        one half of the operand and on parent elements the operand does not cover), 'relabel' the same window in the unit ustr"""
        pkey, _ = self.parent_of[of]
        par, a = self.tracked[pkey], self.tracked[of]
        shape, layout = self.carved[of]
        idx = np.arange(int(np.prod(par.shape))).reshape(par.shape)
        ia = _carve(idx, shape, layout)
        if how == "view":
            v, iv = _carve(par, shape, layout), ia
        elif how == "subview":
            v, iv = a[...], ia[...]
        elif how == "flip":
            v, iv = a[::-1], ia[::-1]
        elif how == "shift":
            v, iv = _carve(par, shape, layout, shift=1), _carve(idx, shape, layout, shift=1)
        elif how == "relabel":
            self.need(ustr)
            v, iv = self.unyt.unyt_array(_carve(par.view(np.ndarray), shape, layout), ustr, registry=self.reg), ia
        else:
            raise KeyError(how)
        assert v is not a and v.shape == a.shape and np.shares_memory(v, a)
        self.tracked[name] = v
        self.parent_of[name] = (pkey, [int(i) for i in iv.ravel()])
        self.overlap[name] = {of}
        return v

    def operand(self, name, spec, shape=(2,), **kw):
        """spec: 'xa' (array view in that unit) | 'q:xa' (scalar quantity) | 'bare' | 'num' | ('const', value[, unit])"""
        if isinstance(spec, tuple):
            return self.concrete(name, spec[1], spec[2] if len(spec) > 2 else None)
        if spec == "bare":
            return self.view(name, None, shape, **kw)
        if spec == "num":
            return self.view(name, None, (), **kw)
        if spec.startswith("q:"):
            return self.view(name, spec[2:], (), **kw)
        return self.view(name, spec, shape, **kw)

    def track(self, key, obj):
        self.tracked[key] = obj
        return obj

    # ---------------------------------------------------------------- snapshots
    def snapshot(self):
        snaps = {k: Snap(o) for k, o in self.tracked.items()}
        lut0 = _Lut(self.reg.lut)
        lut0.unit_system = self.reg.unit_system
        return snaps, lut0

    def _intact(self, tag, key, s, what=("numbers", "unit", "dtype")):
        ctx = self.ctx
        if s.is_unit:
            ctx.require(f"{tag}: unit object {key} unchanged", fields_same(unit_fields(s.uobj), s.ufields), to_solver=True)
            return
        o = s.obj
        if "numbers" in what:
            ctx.require(f"{tag}: numbers of {key} unchanged", vals_same(elements(o), s.vals), to_solver=True)
        if "unit" in what and s.uobj is not None:
            ctx.require(f"{tag}: unit of {key} unchanged",
                        And(fields_same(unit_fields(o.units), s.ufields), fields_same(unit_fields(s.uobj), s.ufields)), to_solver=True)
        if "dtype" in what:
            ctx.require(f"{tag}: dtype/shape/class of {key} unchanged", o.dtype == s.dtype and o.shape == s.shape and type(o) is s.cls)

    def registry_intact(self, tag, lut0):
        ok = True
        for k, row in lut0.items():
            now = self.reg.lut.get(k)
            if now is row:
                continue
            if now is None or len(now) != len(row):
                ok = False
                break
            ok = And(ok, exact_eq(now[0], row[0]), now[1] == row[1], exact_eq(now[2], row[2]), now[3] == row[3], now[4] == row[4])
        self.ctx.require(f"{tag}: registry rows unchanged", ok)
        if getattr(lut0, "unit_system", None) is not None:
            self.ctx.require(f"{tag}: unit system of the registry unchanged", self.reg.unit_system is lut0.unit_system)

    def all_intact(self, tag, S):
        snaps, lut0 = S
        for k, s in snaps.items():
            self._intact(tag, k, s)
        self.registry_intact(tag, lut0)

    # ---------------------------------------------------------------- the two call disciplines
    def outcome(self, r):
        self.ctx.observe("outcome", "ok" if r[0] == "ok" else type(r[1]).__name__)
        if self.must_return and r[0] != "ok":
            self.ctx.require("catalogue sanity: this call form is listed as valid and must return", False,
                             raised=f"{type(r[1]).__name__}: {r[1]}"[:200])

    def copying(self, fn, tag="copying"):
        """a call documented to return a new object: every tracked object must be exactly as before, returned or raised"""
        S = self.snapshot()
        r = lib_call(fn)
        self.outcome(r)
        self.all_intact(f"{tag} call {'returned' if r[0] == 'ok' else 'raised'}", S)
        if r[0] == "ok" and self.observe_values:
            self.ctx.observe("result", obs(flat(r[1])))
        return r

    def _wants(self, tkeys, tw, expect):
        if expect:
            return expect(tw[1])
        if len(tkeys) == 1:
            return [(flat(tw[1]), getattr(tw[1], "units", None))]
        return [(flat(x), getattr(x, "units", None)) for x in tw[1]]

    def clone(self, s):
        """a fresh, untracked array holding what the snapshot s held (numbers and the unit OBJECT of that moment): built by the
        harness from the snapshot, not by a copying call of the library"""
        raw = np.empty(len(s.vals), dtype=s.dtype)
        for i, v in enumerate(s.vals):
            raw[i] = v
        return self.unyt.unyt_array(raw.reshape(s.shape), s.uobj)

    def inplace(self, tkeys, fn, twin, expect=None, slack=0, pre="", twin_after=False, where=None):
        """an in-place call on the tracked objects tkeys. twin() is the corresponding copying call (evaluated first; it is
        itself held to the copying discipline). expect(twin_result) -> [(numbers, unit or None)] per target: what the target
        must hold after success; default: the twin's payload and unit.
        pre: label prefix (the step of a history). twin_after (histories): NO call of the library precedes the in-place call;
        only if it returned, twin(*clones) is run afterwards on harness-built clones of what the targets held before, and is
        itself held to the copying discipline (clones and every tracked object).
        where: flat list of booleans, the where= mask of the call: the target holds the twin's numbers where it is set and
        exactly its old numbers where it is not."""
        ctx = self.ctx
        if isinstance(tkeys, str):
            tkeys = [tkeys]
        tw, wants = ("raise", "not run"), None
        if not twin_after:
            S0 = self.snapshot()
            tw = lib_call(twin)
            self.all_intact(pre + "copying twin", S0)
            if tw[0] == "ok":  # taken now: the twin's result may be a view of an input (np.einsum, transposes ...)
                wants = self._wants(tkeys, tw, expect)
        snaps, lut0 = self.snapshot()
        r = lib_call(fn)
        self.outcome(r)
        pkeys = [self.parent_of[t][0] for t in tkeys if t in self.parent_of]
        others = [k for k in snaps if k not in tkeys and k not in pkeys]
        if twin_after and r[0] == "ok":
            clones = [self.clone(snaps[t]) for t in tkeys]
            S1 = self.snapshot()
            csnaps = [Snap(c) for c in clones]
            tw = lib_call(lambda: twin(*clones))
            if tw[0] == "ok":
                wants = self._wants(tkeys, tw, expect)
            for t, cs in zip(tkeys, csnaps):
                self._intact(pre + "copying twin (run after, on a clone of the old target)", "clone of " + t, cs)
            self.all_intact(pre + "copying twin (run after, on a clone of the old target)", S1)
        if r[0] == "raise":
            tag = pre + "in-place call raised"
            for t in tkeys:
                self._intact(tag, t + "(target)", snaps[t])
            for t in tkeys:
                if t not in self.parent_of:
                    continue
                p, pos = self.parent_of[t]
                if self.parent_full:
                    self._intact(tag, p + "(parent of target)", snaps[p])
                    continue
                # the parent's elements under the target are the target's memory (checked above)
                ps = snaps[p]
                pnow = elements(ps.obj)
                outside = [i for i in range(len(ps.vals)) if i not in pos]
                ctx.require(f"{tag}: elements of {p}(parent of target) outside the target unchanged",
                            vals_same([pnow[i] for i in outside], [ps.vals[i] for i in outside]), to_solver=True)
                self._intact(tag, p + "(parent of target)", ps, what=("unit", "dtype"))
        else:
            tag = pre + "in-place call returned"
            ctx.require(f"{tag}: the copying twin returns too", tw[0] == "ok", twin=str(tw[1])[:120])
            if tw[0] == "ok":
                for t, (want_vals, want_unit) in zip(tkeys, wants):
                    tgt = self.tracked[t]
                    now = elements(tgt)
                    if where is None:
                        ctx.require(f"{tag}: target {t} holds the numbers of the copying twin", vals_close(now, want_vals, slack), to_solver=True)
                    else:
                        sel = [i for i, m in enumerate(where) if m]
                        rest = [i for i, m in enumerate(where) if not m]
                        ctx.require(f"{tag}: target {t} holds the numbers of the copying twin where the where= mask is set",
                                    len(now) == len(where) == len(want_vals) and vals_close([now[i] for i in sel], [want_vals[i] for i in sel], slack), to_solver=True)
                        ctx.require(f"{tag}: target {t} keeps its numbers where the where= mask is not set",
                                    len(now) == len(where) and vals_same([now[i] for i in rest], [snaps[t].vals[i] for i in rest]), to_solver=True)
                    if self.observe_values:
                        ctx.observe("target", obs(now))
                    if want_unit is not None and hasattr(tgt, "units"):
                        ctx.require(f"{tag}: target {t} has the unit of the copying twin", unit_equiv(tgt.units, want_unit), to_solver=True)
                    if snaps[t].uobj is not None:
                        ctx.require(f"{tag}: old unit object of target {t} not mutated",
                                    fields_same(unit_fields(snaps[t].uobj), snaps[t].ufields), to_solver=True)
            for t in tkeys:
                if t not in self.parent_of:
                    continue
                pkey, pos = self.parent_of[t]
                ps = snaps[pkey]
                pnow = elements(ps.obj)
                outside = [i for i in range(len(ps.vals)) if i not in pos]
                ctx.require(f"{tag}: elements of {pkey}(parent of target) outside the target unchanged",
                            vals_same([pnow[i] for i in outside], [ps.vals[i] for i in outside]), to_solver=True)
                if self.under_check:
                    ctx.require(f"{tag}: elements of {pkey}(parent of target) under the target are the target's",
                                vals_same([pnow[i] for i in pos], elements(self.tracked[t])), to_solver=True)
                self._intact(tag, pkey + "(parent of target)", ps, what=("unit", "dtype"))
        # a tracked operand the target lies on (out= is a second view of its memory): when the call returned, its numbers are the
        # parent's, which are checked element by element above; its unit object, dtype, shape and class stay as they were
        lap = set().union(*[self.overlap.get(t, ()) for t in tkeys]) if r[0] == "ok" else set()
        for k in others:
            if k in lap:
                self._intact(tag, k, snaps[k], what=("unit", "dtype"))
                pk, pos = self.parent_of[k]
                ctx.require(f"{tag}: {k} (shares memory with the target) still reads its window of {pk}",
                            pk in pkeys and vals_same(elements(snaps[k].obj), [elements(snaps[pk].obj)[i] for i in pos]), to_solver=True)
                continue
            self._intact(tag, k, snaps[k])
        self.registry_intact(tag, lut0)
        return r, tw


def _shape_tag(shape):
    return "x".join(map(str, shape)) or "0"


def _lay_tag(layout):
    return "" if layout == "c" else "@" + layout


def _cid(*parts):
    return "/".join(["C18"] + [str(p).replace(" ", "_") for p in parts])


# =========================================================================================== conversions

# (tag, source unit, target unit, fault)
CONV_PAIRS = [
    ("plain", "xa", "xb", None), ("prefixed", "xa", "kxb", None), ("affine", "xta", "xtb", None),
    ("compound", "xa**2/xs", "xb**2/xs", None), ("table", "m", "cm", None), ("tableT", "degC", "degF", None),
    ("em", "C", "statC", None), ("identity", "xa", "xa", None),
    ("dim", "xa", "xs", "dimension mismatch"), ("dimT", "xta", "xa", "dimension mismatch"),
    ("unknown", "xa", "xnope", "unknown unit"), ("junk", "xa", "xb**", "unparsable unit"),
]
CONV_COPY = {"to": lambda q, u: q.to(u), "in_units": lambda q, u: q.in_units(u), "to_value": lambda q, u: q.to_value(u),
             # the argument-spelling axis: the unit by keyword, the optional equivalence spelled out as None (positionally / by keyword)
             "to(units=)": lambda q, u: q.to(units=u), "to(u,None)": lambda q, u: q.to(u, None),
             "in_units(units=,equivalence=None)": lambda q, u: q.in_units(units=u, equivalence=None),
             "to_value(units=)": lambda q, u: q.to_value(units=u), "to_value(u,None)": lambda q, u: q.to_value(u, None)}
CONV_SPELLINGS = ["to(units=)", "to(u,None)", "in_units(units=,equivalence=None)", "to_value(units=)", "to_value(u,None)"]
CONV_INPLACE = {"convert_to_units": lambda q, u: q.convert_to_units(u),
                "convert_to_units(units=)": lambda q, u: q.convert_to_units(units=u),
                "convert_to_units(u,None)": lambda q, u: q.convert_to_units(u, None),
                "convert_to_units(u,equivalence=None)": lambda q, u: q.convert_to_units(u, equivalence=None)}
BASE_SRC = [("plain", "xa", None), ("affine", "xta", None), ("compound", "xm*xa**2/xs**2", None), ("table", "erg/s", None),
            ("emA", "A", None), ("emG", "G", None), ("irreducible", "A**2", "irreducible unit"),
            ("irreducible2", "A*statA", "irreducible unit")]
EQUIV = [  # tag, source unit, target unit, equivalence, kwargs, fault, payload domain
    ("thermal", "K", "keV", "thermal", {}, None, "pos"),
    ("thermal_back", "keV", "K", "thermal", {}, None, "pos"),
    ("mass_energy", "g", "J", "mass_energy", {}, None, "pos"),
    ("spectral_len_E", "nm", "eV", "spectral", {}, None, "pos"),
    ("spectral_E_freq", "eV", "Hz", "spectral", {}, None, "pos"),
    ("spectral_freq_len", "MHz", "m", "spectral", {}, None, "pos"),
    ("sound_T_v", "K", "km/s", "sound_speed", {}, None, "pos"),
    ("sound_v_T", "km/s", "K", "sound_speed", {"mu": "sym", "gamma": "sym"}, None, "pos"),
    ("sound_v_E", "km/s", "keV", "sound_speed", {}, None, "pos"),
    ("lorentz_v_g", "c", "dimensionless", "lorentz", {}, None, "beta"),
    ("number_density", "g/cm**3", "cm**-3", "number_density", {"mu": "sym"}, None, "pos"),
    ("schwarzschild", "Msun", "km", "schwarzschild", {}, None, "pos"),
    ("compton", "me", "angstrom", "compton", {}, None, "pos"),
    ("effective_T", "K", "W/m**2", "effective_temperature", {}, None, "pos"),
    ("same_dims", "xa", "xb", "thermal", {}, None, "pos"),
    ("bad_target", "K", "s", "thermal", {}, "invalid equivalence (target)", "pos"),
    ("bad_source", "xa", "keV", "thermal", {}, "invalid equivalence (source)", "pos"),
    ("unknown_equiv", "K", "keV", "xnope", {}, "unknown equivalence", "pos"),
    ("bad_kwarg", "K", "keV", "thermal", {"mu": 2.0}, "unexpected equivalence kwarg", "pos"),
    ("unknown_unit", "K", "xnope", "thermal", {}, "unknown unit", "pos"),
    ("offset", "degC", "keV", "thermal", {}, "offset temperature", "pos"),
    ("offset_target", "km/s", "degC", "sound_speed", {}, None, "pos"),
]


def conv_case(entry, tag, src, dst, fault, shape, layout="c"):
    def h(ctx):
        E = Env(ctx)
        E.must_return = fault is None
        q = E.view("q", src, shape, layout=layout)
        E.need(dst)
        if shape == ():
            E.track("q", q)
        if entry in CONV_COPY:
            E.copying(lambda: CONV_COPY[entry](q, dst))
        elif entry == "to(Unit)":
            r = call(E.unit, dst, "U")
            if r[0] == "ok":
                E.copying(lambda: q.to(r[1]))
            else:
                E.copying(lambda: q.to(dst))
        elif entry in CONV_INPLACE:
            E.inplace("q", lambda: CONV_INPLACE[entry](q, dst), lambda: q.in_units(dst))
        else:
            raise KeyError(entry)
    return Case(_cid("conv", entry, tag, fault or "valid", "shape" + _shape_tag(shape) + _lay_tag(layout)), h)


BASE_COPY = {"in_base(mks)": lambda q: q.in_base("mks"), "in_base(cgs)": lambda q: q.in_base("cgs"), "in_base()": lambda q: q.in_base(),
             "in_cgs": lambda q: q.in_cgs(), "in_mks": lambda q: q.in_mks(), "in_base(galactic)": lambda q: q.in_base("galactic"),
             "in_base(xnope)": lambda q: q.in_base("xnope")}
BASE_COPY.update({"in_base(unit_system=cgs)": lambda q: q.in_base(unit_system="cgs"), "in_base(None)": lambda q: q.in_base(None),
                  "in_base(UnitSystem)": lambda q: q.in_base(__import__("unyt").unit_systems.cgs_unit_system)})
BASE_INPLACE = {"convert_to_base(unit_system=cgs)": (lambda q: q.convert_to_base(unit_system="cgs"), "in_base(unit_system=cgs)"),
                "convert_to_base(None)": (lambda q: q.convert_to_base(None), "in_base(None)"),
                "convert_to_base(mks)": (lambda q: q.convert_to_base("mks"), "in_base(mks)"),
                "convert_to_base(cgs)": (lambda q: q.convert_to_base("cgs"), "in_base(cgs)"),
                "convert_to_base()": (lambda q: q.convert_to_base(), "in_base()"),
                "convert_to_cgs": (lambda q: q.convert_to_cgs(), "in_cgs"),
                "convert_to_mks": (lambda q: q.convert_to_mks(), "in_mks"),
                "convert_to_base(xnope)": (lambda q: q.convert_to_base("xnope"), "in_base(xnope)")}


def base_case(entry, tag, src, fault, shape, layout="c"):
    def h(ctx):
        E = Env(ctx)
        E.must_return = fault is None and "xnope" not in entry
        q = E.view("q", src, shape, layout=layout)
        if shape == ():
            E.track("q", q)
        if entry in BASE_COPY:
            E.copying(lambda: BASE_COPY[entry](q))
        else:
            f, tw = BASE_INPLACE[entry]
            E.inplace("q", lambda: f(q), lambda: BASE_COPY[tw](q))
    fl = fault or ("unknown unit system" if "xnope" in entry else "valid")
    return Case(_cid("base", entry, tag, fl, "shape" + _shape_tag(shape) + _lay_tag(layout)), h)


def equiv_case(entry, tag, src, dst, eq, kw, fault, dom, shape, layout="c"):
    def h(ctx):
        E = Env(ctx)
        E.must_return = fault is None
        q = E.view("q", src, shape, layout=layout, lo=0, hi=0.5) if dom == "beta" else E.view("q", src, shape, layout=layout, pos=True)
        E.need(dst)
        if shape == ():
            E.track("q", q)
        kws = {k: (ctx.real("kw_" + k, pos=True) if v == "sym" else v) for k, v in kw.items()}
        if entry == "to_equivalent":
            E.copying(lambda: q.to_equivalent(dst, eq, **kws))
        elif entry == "to(equivalence=)":
            E.copying(lambda: q.to(dst, equivalence=eq, **kws))
        elif entry == "convert_to_equivalent":
            E.inplace("q", lambda: q.convert_to_equivalent(dst, eq, **kws), lambda: q.to_equivalent(dst, eq, **kws))
        elif entry == "convert_to_units(equivalence=)":
            E.inplace("q", lambda: q.convert_to_units(dst, equivalence=eq, **kws), lambda: q.to(dst, equivalence=eq, **kws))
        else:
            raise KeyError(entry)
    return Case(_cid("equiv", entry, tag, fault or "valid", "shape" + _shape_tag(shape) + _lay_tag(layout)), h)


# =========================================================================================== operators

BINOPS = {"add": operator.add, "sub": operator.sub, "mul": operator.mul, "truediv": operator.truediv,
          "floordiv": operator.floordiv, "mod": operator.mod, "divmod": divmod, "lt": operator.lt, "le": operator.le,
          "gt": operator.gt, "ge": operator.ge, "eq": operator.eq, "ne": operator.ne}
AUGOPS = {"iadd": (operator.iadd, "add"), "isub": (operator.isub, "sub"), "imul": (operator.imul, "mul"),
          "itruediv": (operator.itruediv, "truediv"), "ifloordiv": (operator.ifloordiv, "floordiv"), "imod": (operator.imod, "mod")}
UNOPS = {"neg": operator.neg, "abs": abs, "pos": operator.pos}
ADDLIKE = ["add", "sub", "lt", "le", "gt", "ge", "eq", "ne", "floordiv", "mod"]
MULLIKE = ["mul", "truediv"]
ALLBIN = ADDLIKE + MULLIKE
# (tag, left spec, right spec, fault, ops, divisor must be nonzero)
OPVARS = [
    ("same", "xa", "xa", None, ALLBIN),
    ("scaled", "xa", "xb", None, [o for o in ADDLIKE if o != "floordiv"] + ["mul"]),
    ("table", "m", "cm", None, ALLBIN),
    ("otherdim", "xa", "xs", None, MULLIKE),
    ("dim", "xa", "xs", "dimension mismatch", ADDLIKE),
    ("quantity", "xa", "q:xb", None, [o for o in ADDLIKE if o != "floordiv"] + ["mul"]),
    ("dimq", "xa", "q:xs", "dimension mismatch", ADDLIKE),
    ("qleft", "q:xa", "xb", None, ["add", "sub", "mul", "lt", "eq"]),
    ("num", "xa", "num", "bare operand", ALLBIN),
    ("bare", "xa", "bare", "bare operand", ["add", "mul", "truediv", "lt", "eq"]),
    ("rnum", "num", "xa", "bare operand", ["add", "sub", "mul", "truediv", "lt"]),
    ("rbare", "bare", "xa", "bare operand", ["add", "mul", "truediv", "eq"]),
    ("offset_num", "xta", "num", "offset temperature", MULLIKE + ["floordiv", "mod", "add"]),
    ("offset_same", "xta", "xta", "offset temperature", ["add", "sub", "mul", "truediv", "lt", "eq"]),
    ("offset_other", "xta", "xtb", "offset temperature", ["add", "sub", "lt", "eq"]),
    ("offset_dimless", "xta", "xd", "offset temperature", MULLIKE),
    ("K_degC", "K", "degC", "offset temperature", ["add", "sub", "lt", "mul"]),
    ("degC_K", "degC", "K", "offset temperature", ["add", "sub", "lt", "truediv"]),
    ("degC_delta", "degC", "delta_degC", "offset temperature", ["add", "sub"]),
    ("log", "Np", "xa", "logarithmic unit", ["mul", "truediv"]),
]
# exponent variants: (tag, base spec, exponent spec, fault)
POWVARS = [
    ("pow2", "xa", ("const", 2.0), None), ("pow_half", "xa", ("const", 0.5), None), ("pow0", "xa", ("const", 0.0), None),
    ("pow_neg", "xa", ("const", -1.0), None), ("pow_q", "xa", ("const", 2.0, "dimensionless"), None),
    ("pow_unitful", "xa", "q:xs", "non-dimensionless exponent"),
    ("pow_arr", "xa", ("const", [2.0, 2.0]), None), ("pow_arr_mixed", "xa", ("const", [2.0, 3.0]), "non-uniform exponent"),
    ("pow_arr_unitful", "xa", "xs", "non-dimensionless exponent"),
    ("pow_arr_unitful_c", "xa", ("const", [2.0, 2.0], "xs"), "non-dimensionless exponent"),
    ("pow_offset", "xta", ("const", 2.0), "offset temperature"),
    # /repo 0ee5197: differing exponents are refused for a SCALED pure number too (xd has a symbolic scale: refused unless it is
    # exactly 1); the unscaled pure number must return
    ("pow_dimless_base", "xd", ("const", [2.0, 3.0]), "non-uniform exponent on a scaled pure number"),
    ("pow_dimless_base_plain", "dimensionless", ("const", [2.0, 3.0]), None),
]
NEEDS_NONZERO = ("truediv", "floordiv", "mod", "divmod")
DISCONT = ("floor", "mod", "remainder", "sign", "rint", "around", "sin", "cos", "tan", "exp", "log", "arctan")  # + uninterpreted


def _divisor_kw(opname, spec):
    if any(opname.endswith(n) for n in NEEDS_NONZERO):
        return dict(nonzero=True)
    return {}


def op_case(opname, tag, sa, sb, fault, shape, layout="c", stmt=False):
    aug = opname in AUGOPS
    fn, twin_name = AUGOPS[opname] if aug else (BINOPS[opname], None)

    def h(ctx):
        E = Env(ctx)
        E.must_return = fault is None
        E.observe_values = not any(d in opname for d in DISCONT)
        a = E.operand("a", sa, shape, layout=layout)
        same_obj = (tag == "same_object")
        b = a if same_obj else E.operand("b", sb, shape, layout=layout, **_divisor_kw(opname, sb))
        if aug:
            if "a" not in E.tracked:
                E.track("a", a)
            tw = BINOPS[twin_name]
            if stmt:
                # the statement form  parent[window] op= b : a fresh view, the augmented assignment on it, then the result is
                # assigned back into its own window of the parent (__setitem__ with a value that lies on the target's memory)
                par, w = E.tracked["a^"], _window(E.carved["a"][0], layout)

                def statement():
                    v = par[w]
                    v = fn(v, b)
                    par[w] = v
                E.inplace("a", statement, lambda: tw(a, b))
                return
            E.inplace("a", lambda: fn(a, b), lambda: tw(a, b))
        else:
            E.copying(lambda: fn(a, b))
    return Case(_cid("op", opname, tag, fault or "valid", "shape" + _shape_tag(shape) + _lay_tag(layout) + ("+stmt" if stmt else "")), h)


def pow_case(form, tag, sa, sb, fault, shape, layout="c"):
    def h(ctx):
        E = Env(ctx)
        E.must_return = fault is None
        a = E.operand("a", sa, shape, pos=True, layout=layout)
        b = E.operand("b", sb, shape)
        if form == "pow":
            E.copying(lambda: a ** b)
        elif form == "np.power":
            E.copying(lambda: np.power(a, b))
        elif form == "ipow":
            E.inplace("a", lambda: operator.ipow(a, b), lambda: a ** b)
        elif form == "np.power(out=a)":
            E.inplace("a", lambda: np.power(a, b, out=a), lambda: np.power(a, b))
        elif form == "np.power(out=o)":
            E.view("o", "xs", shape, layout=layout)
            E.inplace("o", lambda: np.power(a, b, out=E.tracked["o"]), lambda: np.power(a, b))
        elif form == "np.power(out=view of a)":
            E.alias("o", "a", "view")
            E.inplace("o", lambda: np.power(a, b, out=E.tracked["o"]), lambda: np.power(a, b))
    return Case(_cid("op", form, tag, fault or "valid", "shape" + _shape_tag(shape) + _lay_tag(layout)), h)


def unop_case(opname, src, shape):
    def h(ctx):
        E = Env(ctx)
        a = E.operand("a", src, shape)
        E.copying(lambda: UNOPS[opname](a))
    return Case(_cid("op", opname, src, "valid", "shape" + _shape_tag(shape)), h)


# =========================================================================================== bare operands next to scaled pure numbers
# A bare ndarray next to a quantity whose unit is a SCALED pure number (percent, mg/kg, km/m, a user unit of symbolic scale, a
# ratio of two user units) is read as dimensionless and has to be rescaled to the unit of the first operand: the one route on
# which a binary call multiplies the numbers of an operand that unyt does not own. The bare operand is an INPUT: snapshot before,
# compared after (and its parent, when it is a window). key -> (operator or None, needs a non-zero divisor, smooth)
BARESCALE_KEYS = {
    "add": (operator.add, False, True), "subtract": (operator.sub, False, True),
    "less": (operator.lt, False, False), "less_equal": (operator.le, False, False), "greater": (operator.gt, False, False),
    "greater_equal": (operator.ge, False, False), "equal": (operator.eq, False, False), "not_equal": (operator.ne, False, False),
    "remainder": (operator.mod, True, False), "floor_divide": (operator.floordiv, True, False), "fmod": (None, True, False),
    "maximum": (None, False, False), "minimum": (None, False, False), "fmax": (None, False, False), "fmin": (None, False, False),
    "hypot": (None, False, False), "arctan2": (None, True, False), "copysign": (None, False, False),
    "nextafter": (None, False, False), "heaviside": (None, False, False), "logaddexp": (None, False, False),
}
BARESCALE_FORMS = ("op", "rop", "uf", "ruf")  # q op bare | bare op q | np.key(q, bare) | np.key(bare, q)
# real float buffers (ground part: concrete exactly representable numbers AND concrete table units - a symbolic scale would turn
# the rescaled copy into an object array, which is not the route np.asarray(x, dtype=float) is the identity on)
BARESCALE_UNITS = {"sym": ("xd", "xa/xb", "percent", "km/m", "kxa/xa", "mg/kg"), "f64": ("percent", "km/m", "mg/kg"),
                   "f32": ("percent", "km/m", "mg/kg")}
BARESCALE_NO_OBJECT_LOOP = ("copysign", "nextafter", "heaviside", "logaddexp")  # real buffers only
BARESCALE_OPERANDS = ("whole", "window", "strided")


def barescale_case(key, form, unit, payload_kind, operand):
    oper, nonzero, smooth = BARESCALE_KEYS[key]

    def h(ctx):
        E = Env(ctx)
        E.observe_values = smooth and payload_kind == "sym"
        kw = dict(nonzero=True) if nonzero else {}
        lay = "strided" if operand == "strided" else "c"
        if payload_kind == "sym":
            a = E.view("a", unit, (2,), **kw)
            if operand == "whole":
                b = E.track("b", ctx.reals("b", (2,), **kw))
            else:
                b = E.view("b", None, (2,), layout=lay, **kw)
        else:
            dt = np.float64 if payload_kind == "f64" else np.float32
            a = E.concrete("a", [1.5, 3.0], unit, dtype=np.float64)
            if operand == "whole":
                b = E.track("b", np.array([0.5, -2.25], dtype=dt))
            else:
                b = E.concrete("b", [0.5, -2.25], None, dtype=dt, layout=lay)
        assert type(b) is np.ndarray and "b" in E.tracked and (operand == "whole" or "b^" in E.tracked)
        uf = getattr(np, key)
        fn = {"op": lambda: oper(a, b), "rop": lambda: oper(b, a), "uf": lambda: uf(a, b), "ruf": lambda: uf(b, a)}[form]
        r = E.copying(fn, tag="bare operand next to a scaled pure number: copying")
        if payload_kind != "sym" and unit in ("percent", "km/m", "mg/kg") and key in ("add", "subtract", "less", "equal", "maximum", "minimum"):
            ctx.require("catalogue sanity: a bare array next to a table pure-number unit is accepted", r[0] == "ok", raised=str(r[1])[:160])
    return Case(_cid("barescale", key, form, unit.replace("/", "_per_"), payload_kind, operand), h)


def _barescale_cases(quick):
    out, rot = [], {}
    for key, (oper, _, _) in BARESCALE_KEYS.items():
        for form in BARESCALE_FORMS:
            if oper is None and form in ("op", "rop"):
                continue
            for pk in ("sym", "f64", "f32"):
                if pk == "sym" and key in BARESCALE_NO_OBJECT_LOOP:
                    continue
                units = BARESCALE_UNITS[pk]
                if key == "floor_divide":  # the ratio of two symbolic scales: sympy's is_integer on a symbolic real (engine limit)
                    units = tuple(u for u in units if u != "xa/xb")
                if quick:  # every key x form x payload kind; unit kind and operand kind rotate (all pairs of the two per payload kind)
                    n = rot.get(pk, 0)
                    rot[pk] = n + 1
                    out.append(barescale_case(key, form, units[n % len(units)], pk, BARESCALE_OPERANDS[(n // len(units) + n) % 3]))
                    continue
                for unit in units:
                    for operand in BARESCALE_OPERANDS:
                        out.append(barescale_case(key, form, unit, pk, operand))
    return out



# =========================================================================================== ufuncs

# name -> (arity, nout, unit of operand 0, unit of operand 1, payload kw, fault)
UFUNCS = [
    ("negative", 1, 1, "xa", None, {}, None), ("absolute", 1, 1, "xa", None, {}, None), ("sqrt", 1, 1, "xa", None, dict(pos=True), None),
    ("square", 1, 1, "xa", None, {}, None), ("reciprocal", 1, 1, "xa", None, dict(nonzero=True), None),
    ("floor", 1, 1, "xa", None, {}, None), ("sign", 1, 1, "xa", None, {}, None), ("sin", 1, 1, "xga", None, {}, None),
    ("cos", 1, 1, "degree", None, {}, None), ("exp", 1, 1, "xd", None, {}, None), ("log", 1, 1, "xa", None, dict(pos=True), None),
    
    ("square@offset", 1, 1, "xta", None, {}, "offset temperature"), ("sqrt@log", 1, 1, "Np", None, dict(pos=True), "logarithmic unit"),
    ("square@log", 1, 1, "Np", None, {}, "logarithmic unit"), ("negative@offset", 1, 1, "xta", None, {}, "offset temperature"),
    ("sqrt@offset", 1, 1, "xta", None, dict(pos=True), "offset temperature"), ("reciprocal@offset", 1, 1, "xta", None, dict(nonzero=True), "offset temperature"),
    ("add", 2, 1, "xa", "xb", {}, None), ("subtract", 2, 1, "xa", "xb", {}, None), ("multiply", 2, 1, "xa", "xs", {}, None),
    ("divide", 2, 1, "m", "cm", dict(nonzero=True), None), ("maximum", 2, 1, "xa", "xb", {}, None), ("hypot", 2, 1, "xa", "xa", {}, None),
    ("arctan2", 2, 1, "xa", "xb", {}, None), ("floor_divide", 2, 1, "m", "cm", dict(nonzero=True), None),
    ("remainder", 2, 1, "xa", "xa", dict(nonzero=True), None), 
    ("greater", 2, 1, "xa", "xb", {}, None), ("equal", 2, 1, "xa", "xb", {}, None), 
    ("add@dim", 2, 1, "xa", "xs", {}, "dimension mismatch"), ("subtract@dim0", 2, 1, "xs", "xa", {}, "dimension mismatch"),
    ("maximum@dim", 2, 1, "xa", "xs", {}, "dimension mismatch"), ("greater@dim", 2, 1, "xa", "xs", {}, "dimension mismatch"),
    ("equal@dim", 2, 1, "xa", "xs", {}, "dimension mismatch"), ("not_equal@dim", 2, 1, "xa", "xs", {}, "dimension mismatch"),
    ("arctan2@dim", 2, 1, "xa", "xs", {}, "dimension mismatch"), 
    ("multiply@offset", 2, 1, "xta", "num", {}, "offset temperature"), ("divide@offset", 2, 1, "xta", "num", dict(nonzero=True), "offset temperature"),
    ("multiply@offset_dimless", 2, 1, "xta", "xd", {}, "offset temperature"), ("multiply@offset_unitful", 2, 1, "xta", "xa", {}, "offset temperature"),
    ("add@offset_other", 2, 1, "xta", "xtb", {}, "offset temperature"), ("add@K_degC", 2, 1, "K", "degC", {}, "offset temperature"),
    ("multiply@roffset", 2, 1, "num", "xta", {}, "offset temperature"), ("multiply@log", 2, 1, "Np", "xa", {}, "logarithmic unit"),
    ("add@bare", 2, 1, "xa", "bare", {}, "bare operand"), ("multiply@bare", 2, 1, "xa", "bare", {}, None),
    # refusals that unyt reaches only AFTER the second operand was rescaled (point - absolute), and their returning neighbours
    ("subtract@degC_K", 2, 1, "degC", "K", {}, "offset temperature"), ("subtract@offset_abs", 2, 1, "xta", "xtk", {}, "offset temperature"),
    ("subtract@K_degC", 2, 1, "K", "degC", {}, "offset temperature"), ("add@degC_K", 2, 1, "degC", "K", {}, None),
    ("maximum@degC_delta", 2, 1, "degC", "delta_degC", {}, None), ("subtract@table", 2, 1, "m", "cm", {}, None),
    # difference + point: here unyt rescales the FIRST operand
    ("add@delta_degC", 2, 1, "delta_degC", "degC", {}, None), ("add@delta_degF_degC", 2, 1, "delta_degF", "degC", {}, None),
]
OUT_FORMS = ["none", "fresh", "otherunit", "bareout", "wrongshape", "wrongshape_otherunit", "wrongshape_otherdim", "alias0", "alias1"]
# out= that NumPy itself refuses (wrong shape) while it carries ANOTHER unit than the result: a handler that relabels its target
# before NumPy has accepted the call leaves the target with its old numbers under a new unit
_COMMENSURABLE = {"xa": "xb", "xb": "xa", "xta": "xtb", "xtb": "xta", "m": "cm", "cm": "m", "xs": "ks", "K": "degC", "degC": "K",
                  "Np": "dB", "xd": "percent", "xga": "degree", "degree": "xga", "xtk": "xta"}


def out_unit(outform, ua, ub=None):
    base = ua if ua not in ("num", "bare", None) else ub
    if outform in ("fresh", "wrongshape"):
        return base
    if outform == "bareout":
        return None
    if outform == "wrongshape_otherunit":
        return _COMMENSURABLE.get(base, "xb")
    if outform == "otherunit":
        return "xs"
    if outform == "wrongshape_otherdim":
        return "xm"
    raise KeyError(outform)


def is_wrongshape(outform):
    return outform.startswith("wrongshape")


# out= that is a SECOND view object over memory of an input (np.add(x[::2], b, out=x[::2]) is the spelled-out x[::2] += b):
# (form, operand position, how the second view is made - see Env.alias)
ALIAS_FORMS = {"view0": (0, "view"), "view1": (1, "view"), "subview0": (0, "subview"), "subview1": (1, "subview"),
               "flip0": (0, "flip"), "flip1": (1, "flip"), "shift0": (0, "shift"), "shift1": (1, "shift"),
               "relabel0": (0, "relabel"), "relabel1": (1, "relabel")}
# out= buffers (in the unit of operand 0) that are not C-contiguous
LAYOUT_FORMS = {"strided": "strided", "reversed": "rev", "transposed": "T", "colstrided": "colstrided"}
WHERE_MASK = [True, False]


def ufunc_case(name, arity, nout, ua, ub, kw, fault, outform, shape, layout="c"):
    """layout: memory layout of the operands; outform: 'none' | an OUT_FORMS / ALIAS_FORMS / LAYOUT_FORMS name, '+where' appended:
    the call also carries where=[True, False]"""
    ufname = name.split("@")[0]
    outform0, _, wh = outform.partition("+")

    def h(ctx):
        E = Env(ctx)
        E.must_return = fault is None and not is_wrongshape(outform0)
        E.observe_values = not any(d in ufname for d in DISCONT)
        uf = getattr(np, ufname)
        a = E.operand("a", ua, shape, **dict(kw if arity == 1 else {}, **({"layout": layout} if ua != "num" and not str(ua).startswith("q:") else {})))
        args = [a]
        if arity == 2:
            args.append(E.operand("b", ub, shape, **dict(kw, **({"layout": layout} if ub != "num" and not str(ub).startswith("q:") else {}))))
        kws, mask = {}, None
        if wh:
            mask = list(WHERE_MASK)
            kws["where"] = np.array(mask)
        if outform0 in ALIAS_FORMS:
            posn, how = ALIAS_FORMS[outform0]
            of = "ab"[posn]
            if posn >= arity or of not in E.parent_of:
                ctx.require("no such out= form for a scalar operand", True)
                return
            E.alias("o", of, how, ustr=_COMMENSURABLE.get((ua, ub)[posn], "xs") if how == "relabel" else None)
            keys = ["o"]
        elif ("a" not in E.tracked and outform0 == "alias0") or (arity == 2 and "b" not in E.tracked and outform0 == "alias1"):
            ctx.require("no such out= form for a scalar operand", True)
            return
        elif outform0 == "none":
            E.copying(lambda: uf(*args))
            return
        elif outform0 in ("alias0", "alias1"):
            keys = ["a" if outform0 == "alias0" else "b"]
            if nout == 2:
                E.view("o2", "xs", shape)
                keys.append("o2")
        else:
            olayout = LAYOUT_FORMS.get(outform0, "c")
            oshape = (3,) if is_wrongshape(outform0) else (shape if shape != () else (1,))
            ounit = out_unit("fresh" if outform0 in LAYOUT_FORMS else outform0, ua, ub)
            keys = []
            for j in range(nout):
                E.view(f"o{j}", ounit, oshape, layout=olayout)
                keys.append(f"o{j}")
        outs = tuple(E.tracked[k] for k in keys)
        E.inplace(keys, lambda: uf(*args, out=outs if nout > 1 else outs[0], **kws), lambda: uf(*args), where=mask)
    return Case(_cid("ufunc", name, f"out={outform}", fault or "valid", "shape" + _shape_tag(shape) + ("" if layout == "c" else "@" + layout)), h)


METHODS = [  # (tag, callable on (np, a, out) , unit, kw, twin)
    ("add.reduce", lambda a, o: np.add.reduce(a, out=o), lambda a: np.add.reduce(a), "xa", {}),
    ("add.accumulate", lambda a, o: np.add.accumulate(a, out=o), lambda a: np.add.accumulate(a), "xa", {}),
    ("maximum.reduce", lambda a, o: np.maximum.reduce(a, out=o), lambda a: np.maximum.reduce(a), "xa", {}),
    ("multiply.reduce", lambda a, o: np.multiply.reduce(a, out=o), lambda a: np.multiply.reduce(a), "xa", {}),
    ("multiply.reduce@offset", lambda a, o: np.multiply.reduce(a, out=o), lambda a: np.multiply.reduce(a), "xta", {}),
    ("add.reduce@offset", lambda a, o: np.add.reduce(a, out=o), lambda a: np.add.reduce(a), "xta", {}),
]


def method_case(tag, f, tw, unit, kw, outform, layout="c"):
    def h(ctx):
        E = Env(ctx)
        a = E.view("a", unit, (2, 2), layout=layout, **kw)
        if outform == "none":
            E.copying(lambda: tw(a))
            return
        oshape = (2, 2) if "accumulate" in tag else (2,)
        if is_wrongshape(outform):
            oshape = (3,)
        if outform in ALIAS_FORMS:
            if oshape != (2, 2):
                ctx.require("out= cannot lie on an input of another shape", True)
                return
            E.alias("o", "a", ALIAS_FORMS[outform][1], ustr=_COMMENSURABLE.get(unit, "xs"))
        else:
            E.view("o", out_unit("fresh" if outform in LAYOUT_FORMS else outform, unit), oshape, layout=LAYOUT_FORMS.get(outform, "c"))
        E.inplace("o", lambda: f(a, E.tracked["o"]), lambda: tw(a))
    return Case(_cid("ufunc", tag, f"out={outform}", "offset temperature" if "@offset" in tag else "valid", "shape2x2" + _lay_tag(layout)), h)


# =========================================================================================== reductions & array functions

# (tag, f(a, **out) , accepts out=, unit, payload kw)
REDUCTIONS = [
    ("sum", lambda a, **k: a.sum(axis=0, **k), True), ("np.sum", lambda a, **k: np.sum(a, axis=0, **k), True),
    ("mean", lambda a, **k: a.mean(axis=0, **k), True), ("min", lambda a, **k: a.min(axis=0, **k), True),
    ("np.max", lambda a, **k: np.max(a, axis=0, **k), True), ("ptp", lambda a, **k: np.ptp(a, axis=0, **k), False),
    ("var", lambda a, **k: np.var(a, axis=0, **k), True),
    ("np.percentile", lambda a, **k: np.percentile(a, 50, axis=0, **k), True), ("np.quantile", lambda a, **k: np.quantile(a, 0.5, axis=0, **k), True),
    ("np.median", lambda a, **k: np.median(a, axis=0, **k), True), ("np.nanmax", lambda a, **k: np.nanmax(a, axis=0, **k), True), ("np.mean", lambda a, **k: np.mean(a, axis=0, **k), True),
    ("prod", lambda a, **k: a.prod(axis=0, **k), False), ("np.prod", lambda a, **k: np.prod(a, axis=0, **k), True),
    ("cumsum", lambda a, **k: a.cumsum(axis=0, **k), True), ("np.cumsum", lambda a, **k: np.cumsum(a, axis=0, **k), True),
    ("cumprod", lambda a, **k: np.cumprod(a, axis=0, **k), False), ("median", lambda a, **k: np.median(a, axis=0, **k), False),
    ("sum_all", lambda a, **k: a.sum(**k), False), ("np.linalg.norm", lambda a, **k: np.linalg.norm(a, axis=0, **k), False),
    ("argmax", lambda a, **k: a.argmax(axis=0, **k), False), ("np.average", lambda a, **k: np.average(a, axis=0, **k), False),
]


def reduction_case(tag, f, unit, outform, layout="c"):
    def h(ctx):
        E = Env(ctx)
        a = E.view("a", unit, (2, 2), layout=layout, pos=(tag in ("std", "np.linalg.norm")))
        if outform == "none":
            E.copying(lambda: f(a))
            return
        oshape = (2, 2) if "cum" in tag else (2,)
        if is_wrongshape(outform):
            oshape = (3,)
        if outform in ALIAS_FORMS:
            if oshape != (2, 2):
                ctx.require("out= cannot lie on an input of another shape", True)
                return
            E.alias("o", "a", ALIAS_FORMS[outform][1], ustr=_COMMENSURABLE.get(unit, "xs"))
        elif outform == "row0":
            # out= is a row of the input itself (a second view object on part of the input's memory)
            E.track("o", a[0])
            E.parent_of["o"] = (E.parent_of["a"][0], E.parent_of["a"][1][:2])
            E.overlap["o"] = {"a"}
        else:
            E.view("o", out_unit("fresh" if outform in LAYOUT_FORMS else outform, unit), oshape, layout=LAYOUT_FORMS.get(outform, "c"))
        E.inplace("o", lambda: f(a, out=E.tracked["o"]), lambda: f(a))
    return Case(_cid("reduce", tag, unit, f"out={outform}", "shape2x2" + _lay_tag(layout)), h)


def _mask(n=2):
    return np.array([True, False][:n])


# array functions without out=: (tag, f(a, b), unit a, unit b, shape, fault)
FUNCS = [
    ("concatenate", lambda a, b: np.concatenate([a, b]), "xa", "xa", (2,), None),
    ("concatenate@unit", lambda a, b: np.concatenate([a, b]), "xa", "xb", (2,), "unit mismatch"),
    ("concatenate@dim", lambda a, b: np.concatenate([a, b]), "xa", "xs", (2,), "dimension mismatch"),
    ("concatenate@dim0", lambda a, b: np.concatenate([b, a]), "xa", "xs", (2,), "dimension mismatch"),
    ("concatenate@bare", lambda a, b: np.concatenate([a, b]), "xa", "bare", (2,), "bare operand"),
    ("stack", lambda a, b: np.stack([a, b]), "xa", "xa", (2,), None),
    ("vstack@dim", lambda a, b: np.vstack([a, b]), "xa", "xs", (2,), "dimension mismatch"),
    ("hstack", lambda a, b: np.hstack([a, b]), "xa", "xa", (2,), None),
    ("where", lambda a, b: np.where(_mask(), a, b), "xa", "xa", (2,), None),
    ("where@dim", lambda a, b: np.where(_mask(), a, b), "xa", "xs", (2,), "dimension mismatch"),
    ("where@dim0", lambda a, b: np.where(_mask(), b, a), "xa", "xs", (2,), "dimension mismatch"),
    ("clip", lambda a, b: np.clip(a, b[0], b[1]), "xa", "xa", (2,), None),
    ("clip@unit", lambda a, b: np.clip(a, b[0], b[1]), "xa", "xb", (2,), "unit mismatch"),
    ("clip@dim", lambda a, b: np.clip(a, b[0], b[1]), "xa", "xs", (2,), "dimension mismatch"),
    ("clip@dim_hi", lambda a, b: np.clip(a, a[0], b[1]), "xa", "xs", (2,), "dimension mismatch"),
    ("a.clip", lambda a, b: a.clip(b[0], b[1]), "xa", "xa", (2,), "method refused on this tree"),
    ("a.clip@dim", lambda a, b: a.clip(b[0], b[1]), "xa", "xs", (2,), "dimension mismatch"),
    ("dot", lambda a, b: np.dot(a, b), "xa", "xs", (2, 2), None),
    ("a.dot", lambda a, b: a.dot(b), "xa", "xs", (2, 2), None),
    ("matmul", lambda a, b: a @ b, "xa", "xs", (2, 2), None),
    ("dot@offset", lambda a, b: np.dot(a, b), "xta", "xa", (2, 2), "offset temperature"),
    ("a.dot@offset", lambda a, b: a.dot(b), "xta", "xa", (2, 2), "offset temperature"),
    ("vdot", lambda a, b: np.vdot(a, b), "xa", "xs", (2,), None),
    ("outer", lambda a, b: np.outer(a, b), "xa", "xs", (2,), None),
    ("cross@offset", lambda a, b: np.cross(a, b), "xta", "xa", (2,), "offset temperature"),
    ("np.sort", lambda a, b: np.sort(a), "xa", None, (2,), None),
    ("argsort", lambda a, b: np.argsort(a), "xa", None, (2,), None),
    ("take", lambda a, b: np.take(a, [1, 0]), "xa", None, (2,), None),
    ("around", lambda a, b: np.around(a), "xa", None, (2,), None),
    ("choose", lambda a, b: np.choose([0, 1], [a, b]), "xa", "xa", (2,), None),
    ("choose@dim", lambda a, b: np.choose([0, 1], [a, b]), "xa", "xs", (2,), "dimension mismatch"),
    ("einsum", lambda a, b: np.einsum("ij->ji", a), "xa", None, (2, 2), None),
    ("insert", lambda a, b: np.insert(a, 1, b[0]), "xa", "xa", (2,), None),
    ("insert@dim", lambda a, b: np.insert(a, 1, b[0]), "xa", "xs", (2,), "dimension mismatch"),
    ("append", lambda a, b: np.append(a, b), "xa", "xa", (2,), None),
    ("append@dim", lambda a, b: np.append(a, b), "xa", "xs", (2,), "dimension mismatch"),
    ("diff", lambda a, b: np.diff(a), "xa", None, (2,), None),
    ("diff@offset", lambda a, b: np.diff(a), "xta", None, (2,), "offset temperature"),
    ("isclose", lambda a, b: np.isclose(a, b), "xa", "xb", (2,), None),
    ("isclose@dim", lambda a, b: np.isclose(a, b), "xa", "xs", (2,), "dimension mismatch"),
    ("array_equal", lambda a, b: np.array_equal(a, b), "xa", "xb", (2,), None),
    ("linspace", lambda a, b: np.linspace(a[0], b[1], 3), "xa", "xa", (2,), None),
    ("linspace@dim", lambda a, b: np.linspace(a[0], b[1], 3), "xa", "xs", (2,), "dimension mismatch"),
    ("isin@dim", lambda a, b: np.isin(a, b), "xa", "xs", (2,), "dimension mismatch"),
    ("searchsorted@dim", lambda a, b: np.searchsorted(a, b), "xa", "xs", (2,), "dimension mismatch"),
    ("trace", lambda a, b: np.trace(a), "xa", None, (2, 2), None),
    ("transpose", lambda a, b: a.T, "xa", None, (2, 2), None),
    ("unyt_array(a)", lambda a, b: type(a)(a), "xa", None, (2,), None),
    ("uconcatenate@dim", lambda a, b: __import__("unyt").uconcatenate([a, b]), "xa", "xs", (2,), "dimension mismatch"),
]
# array functions with out=: (tag, f(a, b, out), twin f(a, b), unit a, unit b, operand shape, out shape, fault)
FUNCS_OUT = [
    ("concatenate", lambda a, b, o: np.concatenate([a, b], out=o), lambda a, b: np.concatenate([a, b]), "xa", "xa", (2,), (4,), None),
    ("concatenate@dim", lambda a, b, o: np.concatenate([a, b], out=o), lambda a, b: np.concatenate([a, b]), "xa", "xs", (2,), (4,), "dimension mismatch"),
    ("stack", lambda a, b, o: np.stack([a, b], out=o), lambda a, b: np.stack([a, b]), "xa", "xa", (2,), (2, 2), None),
    ("clip", lambda a, b, o: np.clip(a, b[0], b[1], out=o), lambda a, b: np.clip(a, b[0], b[1]), "xa", "xa", (2,), (2,), None),
    ("clip@dim", lambda a, b, o: np.clip(a, b[0], b[1], out=o), lambda a, b: np.clip(a, b[0], b[1]), "xa", "xs", (2,), (2,), "dimension mismatch"),
    ("dot", lambda a, b, o: np.dot(a, b, out=o), lambda a, b: np.dot(a, b), "xa", "xs", (2, 2), (2, 2), None),
    ("a.dot", lambda a, b, o: a.dot(b, out=o), lambda a, b: a.dot(b), "xa", "xs", (2, 2), (2, 2), None),
    ("dot@offset", lambda a, b, o: np.dot(a, b, out=o), lambda a, b: np.dot(a, b), "xta", "xa", (2, 2), (2, 2), "offset temperature"),
    ("a.dot@offset", lambda a, b, o: a.dot(b, out=o), lambda a, b: a.dot(b), "xta", "xa", (2, 2), (2, 2), "offset temperature"),
    ("matmul", lambda a, b, o: np.matmul(a, b, out=o), lambda a, b: np.matmul(a, b), "xa", "xs", (2, 2), (2, 2), None),
    ("take", lambda a, b, o: np.take(a, [1, 0], out=o), lambda a, b: np.take(a, [1, 0]), "xa", None, (2,), (2,), None),
    ("a.take", lambda a, b, o: a.take([1, 0], out=o), lambda a, b: a.take([1, 0]), "xa", None, (2,), (2,), None),
    ("around", lambda a, b, o: np.around(a, out=o), lambda a, b: np.around(a), "xa", None, (2,), (2,), None),
    ("choose", lambda a, b, o: np.choose([0, 1], [a, b], out=o), lambda a, b: np.choose([0, 1], [a, b]), "xa", "xa", (2,), (2,), None),
    ("choose@dim", lambda a, b, o: np.choose([0, 1], [a, b], out=o), lambda a, b: np.choose([0, 1], [a, b]), "xa", "xs", (2,), (2,), "dimension mismatch"),
    ("einsum", lambda a, b, o: np.einsum("ij->ji", a, out=o), lambda a, b: np.einsum("ij->ji", a), "xa", None, (2, 2), (2, 2), None),
    ("outer", lambda a, b, o: np.outer(a, b, out=o), lambda a, b: np.outer(a, b), "xa", "xs", (2,), (2, 2), None),
    ("np.round", lambda a, b, o: np.round(a, out=o), lambda a, b: np.round(a), "xa", None, (2,), (2,), None),
    ("a.round", lambda a, b, o: a.round(out=o), lambda a, b: a.round(), "xa", None, (2,), (2,), None),
    ("hstack-like concatenate axis=None", lambda a, b, o: np.concatenate([a, b], axis=None, out=o), lambda a, b: np.concatenate([a, b], axis=None), "xa", "xa", (2, 2), (8,), None),
    ("stack axis=1", lambda a, b, o: np.stack([a, b], axis=1, out=o), lambda a, b: np.stack([a, b], axis=1), "xa", "xa", (2,), (2, 2), None),
    ("a.clip", lambda a, b, o: a.clip(b[0], b[1], out=o), lambda a, b: a.clip(b[0], b[1]), "xa", "xa", (2,), (2,), "method refused on this tree"),
    ("einsum product", lambda a, b, o: np.einsum("ij,jk->ik", a, b, out=o), lambda a, b: np.einsum("ij,jk->ik", a, b), "xa", "xs", (2, 2), (2, 2), None),
    ("a.compress", lambda a, b, o: a.compress([True, True], out=o), lambda a, b: a.compress([True, True]), "xa", None, (2,), (2,), None),
    ("np.compress", lambda a, b, o: np.compress([True, True], a, out=o), lambda a, b: np.compress([True, True], a), "xa", None, (2,), (2,), None),
    ("a.cumsum", lambda a, b, o: a.cumsum(out=o), lambda a, b: a.cumsum(), "xa", None, (2,), (2,), None),
    ("a.sum", lambda a, b, o: a.sum(axis=0, out=o), lambda a, b: a.sum(axis=0), "xa", None, (2, 2), (2,), None),
]
_CONC = {(2,): ([2.0, 3.0], [4.0, 5.0]), (2, 2): ([[2.0, 3.0], [4.0, 5.0]], [[1.0, 2.0], [3.0, 4.0]])}


def func_out_typed_case(tag, f, tw, ua, ub, shape, oshape, fault, dtype, wrongshape):
    """out= is a slice of a larger INTEGER buffer in another unit than the result: NumPy refuses to cast the double result into it
    (or, for wrongshape, refuses the shape). Concrete doubles with symbolic unit scales: the refusal is NumPy's own in both modes"""
    def h(ctx):
        E = _int_env(ctx)
        E.observe_values = False
        av, bv = _CONC[shape]
        a = E.concrete("a", av, ua)
        b = E.concrete("b", bv, ub) if ub else None
        osh = (3,) if wrongshape else oshape
        E.concrete("o", np.arange(11, 11 + int(np.prod(osh))).reshape(osh), _COMMENSURABLE.get(ua, "xb"), dtype=dtype)
        E.inplace("o", lambda: f(a, b, E.tracked["o"]), lambda: tw(a, b))
    return Case(_cid("func", tag, f"out={dtype}_otherunit" + ("_wrongshape" if wrongshape else ""), fault or "valid", "shape" + _shape_tag(shape)), h)

# in-place array functions: (tag, f(a, b) mutating a, expected numbers oracle(old a values, b values), unit a, unit b, shape, fault)
FUNCS_INPLACE = [
    ("a.sort", lambda a, b: a.sort(), lambda a, b: np.sort(a), None, "xa", None, (2,), None),
    ("copyto", lambda a, b: np.copyto(a, b), lambda a, b: b.copy(), None, "xa", "xa", (2,), None),
    ("copyto@unit", lambda a, b: np.copyto(a, b), lambda a, b: b.copy(), None, "xa", "xb", (2,), None),
    ("copyto@dim", lambda a, b: np.copyto(a, b), lambda a, b: b.copy(), None, "xa", "xs", (2,), None),
    ("put", lambda a, b: np.put(a, [0], b[1]), None, lambda av, bv: [bv[1], av[1]], "xa", "xa", (2,), None),
    ("put@unit", lambda a, b: np.put(a, [0], b[1]), None, lambda av, bv: [bv[1], av[1]], "xa", "xb", (2,), "unit mismatch"),
    ("put@dim", lambda a, b: np.put(a, [0], b[1]), None, None, "xa", "xs", (2,), "dimension mismatch"),
    ("putmask", lambda a, b: np.putmask(a, _mask(), b), None, lambda av, bv: [bv[0], av[1]], "xa", "xa", (2,), None),
    ("putmask@dim", lambda a, b: np.putmask(a, _mask(), b), None, None, "xa", "xs", (2,), "dimension mismatch"),
    ("place", lambda a, b: np.place(a, _mask(), b), None, lambda av, bv: [bv[0], av[1]], "xa", "xa", (2,), None),
    ("place@dim", lambda a, b: np.place(a, _mask(), b), None, None, "xa", "xs", (2,), "dimension mismatch"),
    ("fill_diagonal", lambda a, b: np.fill_diagonal(a, b[0, 0]), None, lambda av, bv: [bv[0], av[1], av[2], bv[0]], "xa", "xa", (2, 2), None),
    ("fill_diagonal@dim", lambda a, b: np.fill_diagonal(a, b[0, 0]), None, None, "xa", "xs", (2, 2), "dimension mismatch"),
    ("a.fill", lambda a, b: a.fill(b[0]), None, lambda av, bv: [bv[0], bv[0]], "xa", "xa", (2,), None),
]


def func_case(tag, f, ua, ub, shape, fault, layout="c"):
    def h(ctx):
        E = Env(ctx)
        E.must_return = fault is None
        a = E.view("a", ua, shape, layout=layout)
        b = E.view("b", None if ub == "bare" else ub, shape, layout=layout) if ub else None
        E.copying(lambda: f(a, b))
    return Case(_cid("func", tag, fault or "valid", "shape" + _shape_tag(shape) + _lay_tag(layout)), h)


def func_out_case(tag, f, tw, ua, ub, shape, oshape, fault, outform, layout="c"):
    def h(ctx):
        E = Env(ctx)
        E.must_return = fault is None and outform in ("fresh", "otherunit", "alias0") and layout == "c"
        a = E.view("a", ua, shape, layout=layout)
        b = E.view("b", ub, shape, layout=layout) if ub else None
        if outform == "alias0":
            if oshape != shape:
                ctx.require("out= cannot alias an input of another shape", True)
                return
            E.inplace("a", lambda: f(a, b, a), lambda: tw(a, b))
            return
        if outform in ALIAS_FORMS:
            posn, how = ALIAS_FORMS[outform]
            if oshape != shape or (posn == 1 and b is None):
                ctx.require("out= cannot lie on an input of another shape", True)
                return
            E.alias("o", "ab"[posn], how, ustr=_COMMENSURABLE.get((ua, ub)[posn], "xs"))
            E.inplace("o", lambda: f(a, b, E.tracked["o"]), lambda: tw(a, b))
            return
        osh = (3,) if is_wrongshape(outform) else oshape
        olay = LAYOUT_FORMS.get(outform, "c")
        if olay == "T" and len(osh) != 2:
            ctx.require("a one-dimensional out= has no transposed layout", True)
            return
        E.view("o", "xm" if outform == "otherunit" else out_unit("fresh" if outform in LAYOUT_FORMS else outform, ua), osh, layout=olay)
        E.inplace("o", lambda: f(a, b, E.tracked["o"]), lambda: tw(a, b))
    return Case(_cid("func", tag, f"out={outform}", fault or "valid", "shape" + _shape_tag(shape) + _lay_tag(layout)), h)


def func_inplace_case(tag, f, tw, oracle, ua, ub, shape, fault, layout="c"):
    def h(ctx):
        E = Env(ctx)
        E.must_return = fault is None
        a = E.view("a", ua, shape, layout=layout)
        b = E.view("b", ub, shape, layout=layout) if ub else None
        if tw is not None:
            E.inplace("a", lambda: f(a, b), lambda: tw(a, b))
        else:
            av, bv = list(elements(a)), list(elements(b))
            au = a.units
            E.inplace("a", lambda: f(a, b), lambda: None,
                      expect=(lambda _: [(oracle(av, bv), au)]) if oracle else (lambda _: [(av, au)]))
    return Case(_cid("func", tag, "in-place", fault or "valid", "shape" + _shape_tag(shape) + _lay_tag(layout)), h)


# =========================================================================================== item assignment

# value kinds: (tag, array unit, value spec, fault, how the expected numbers are obtained)
SETVALS = [
    ("same", "xa", "q:xa", None), ("scaled", "xa", "q:xb", None), ("scaled_arr", "xa", "xb", None), ("table", "m", "q:cm", None),
    ("num", "xa", "num", None), ("bare", "xa", "bare", None), ("dim", "xa", "q:xs", "dimension mismatch"),
    ("dim_arr", "xa", "xs", "dimension mismatch"), ("dimless", "xa", "q:dimensionless", "dimensionless value"),
    ("affine", "xta", "q:xtb", None), ("K_degC", "K", "q:degC", None), ("offset_dim", "xta", "q:xa", "dimension mismatch"),
]
INDEXES = {"int": 0, "slice": slice(0, 2), "mask": np.array([True, False]), "ellipsis": Ellipsis, "neg": -1}


def setitem_case(tag, ua, vspec, fault, iname, layout="c"):
    idx = INDEXES[iname]

    def h(ctx):
        E = Env(ctx)
        E.must_return = fault is None
        a = E.view("a", ua, (2,), layout=layout)
        if isinstance(vspec, tuple) and vspec[0] == "str":
            v = vspec[1]
        else:
            v = E.operand("v", vspec, (2,))
        if isinstance(v, np.ndarray) and v.shape == (2,) and iname in ("int", "neg"):
            v = v[0]  # one number for a single slot
        elif isinstance(v, np.ndarray) and v.shape == (2,) and iname == "mask":
            v = v[:1]  # one True slot
        old = list(elements(a))
        au = a.units

        def twin():
            if hasattr(v, "units"):
                if v.units.dimensions == 1 and str(v.units) == "dimensionless":
                    return v.d  # unyt accepts a plain dimensionless value as a bare number (C01's subject, not a frame question)
                return v.in_units(au)
            return v

        def expect(tv):
            buf = np.empty(2, dtype=object)
            buf[:] = old
            new = flat(tv)
            if not new:
                return [(old, au)]
            if iname in ("int", "neg"):
                buf[idx] = new[0]
            elif iname == "mask":
                buf[idx] = new[0] if len(new) == 1 else np.array(new, dtype=object)[idx]
            else:
                buf[idx] = new[0] if len(new) == 1 else np.array(new, dtype=object)
            return [(list(buf), au)]
        slack = 0
        if tag == "affine":
            # unyt stores the value unconverted when the two units agree to 1e-9 (Unit.__eq__): with offsets that is an
            # absolute deviation of up to 1e-9*|offset|, granted here as the usual offset slack
            (sa, oa), (sb, ob) = E.rows["xta"], E.rows["xtb"]
            slack = (abs(oa) + abs(ob * sb / sa) + abs(ob)) * 1e-6
        E.inplace("a", lambda: operator.setitem(a, idx, v), twin, expect=expect, slack=slack)
    return Case(_cid("setitem", tag, f"index={iname}", (fault or "valid") + _lay_tag(layout)), h)


# ---- SEQUENCES of quantities written into several slots by one call: the value is a list / tuple (one entry per slot, each entry a
# quantity that is itself an element of a larger array, in its own unit), the fault is injected at EVERY position of the sequence
# (first, middle, last): a refusal that comes only after the entries before the bad one were stored leaves a half-written target.
# index -> (index expression on a 3-element window, number of slots it selects)
SEQ_INDEXES = {"slice": (slice(0, 3), 3), "all": (slice(None), 3), "ellipsis": (Ellipsis, 3), "fancy": ([0, 1, 2], 3),
               "mask": (np.array([True, True, True]), 3), "rev": (slice(None, None, -1), 3), "part": (slice(1, 3), 2),
               "step": (slice(0, 3, 2), 2), "fancy2": ([2, 0], 2)}
# unit pattern of the (valid) entries: (unit of the array, unit per slot)
SEQ_UNITS = {"same": ("xa", ["xa", "xa", "xa"]), "lead": ("xa", ["xb", "xa", "xa"]), "scaled": ("xa", ["xb", "xa", "kxb"]),
             "table": ("m", ["km", "cm", "mm"]), "affine": ("xta", ["xta", "xtb", "xta"])}
# fault -> what replaces the entry at the fault position
SEQ_FAULTS = {"dimension mismatch": "xs", "bare number": None, "dimensionless entry": "dimensionless", "other dimension prefixed": "kxm"}
SEQ_CONTAINERS = {"list": list, "tuple": tuple}
# call forms that store a sequence into several slots (index kinds other than 'all' only for item assignment)
SEQ_CALLS = {
    "setitem": lambda a, idx, v: operator.setitem(a, idx, v),
    "np.put": lambda a, idx, v: np.put(a, list(range(len(v))), v),
    "np.putmask": lambda a, idx, v: np.putmask(a, np.array([True] * len(v)), v),
    "np.place": lambda a, idx, v: np.place(a, np.array([True] * len(v)), v),
}


def setitem_seq_case(cname, uname, fault, pos, iname, cont, layout="c", rows=False):
    """rows: the target is a 2x2 window and the sequence has one 1-d quantity array per row"""
    idx, n = SEQ_INDEXES[iname]
    if rows:
        n = 2
    ua, units = SEQ_UNITS[uname]
    units = list(units[:n])
    if fault is not None:
        units[pos] = SEQ_FAULTS[fault]

    def h(ctx):
        E = Env(ctx)
        E.must_return = fault is None and cname == "setitem"
        a = E.view("a", ua, (2, 2) if rows else (3,), layout=layout)
        vals = [E.view(f"v{i}", u, (2,) if rows else ()) for i, u in enumerate(units)]
        seq = SEQ_CONTAINERS[cont](vals)
        old, au = list(elements(a)), a.units
        shp = a.shape

        def twin():
            return [v.in_units(au) for v in vals]

        def expect(tv):
            buf = np.empty(len(old), dtype=object)
            buf[:] = old
            buf = buf.reshape(shp)
            new = np.empty(len(flat(tv)), dtype=object)
            new[:] = flat(tv)
            buf[idx if cname == "setitem" else slice(0, n)] = new.reshape((2, 2)) if rows else new
            return [(list(buf.ravel()), au)]
        slack = 0
        if uname == "affine":
            (sa, oa), (sb, ob) = E.rows["xta"], E.rows["xtb"]
            slack = (abs(oa) + abs(ob * sb / sa) + abs(ob)) * 1e-6
        E.inplace("a", lambda: SEQ_CALLS[cname](a, idx, seq), twin, expect=expect, slack=slack)
        # the container itself is an input too
        ctx.require("the sequence still holds the same entry objects", len(seq) == len(vals) and all(x is y for x, y in zip(seq, vals)))
    return Case(_cid("setitem-seq", cname, cont + ("-rows" if rows else ""), uname, f"index={iname}",
                     (f"{fault}@{pos}" if fault else "valid") + _lay_tag(layout)), h)


# =========================================================================================== Unit arithmetic

UNIT_PAIRS = [("plain", "xa", "xb"), ("otherdim", "xa", "xs"), ("compound", "xa**2/xs", "xb"), ("offset", "xta", "xa"),
              ("cancel", "m**2/cm", "cm"), ("log", "Np", "xa"), ("em", "A", "statA"), ("prefixed", "kxa", "xa")]
UNIT_OPS = {
    "mul": lambda U, V, E: U * V, "div": lambda U, V, E: U / V, "pow2": lambda U, V, E: U ** 2, "pow_half": lambda U, V, E: U ** 0.5,
    "pow_neg": lambda U, V, E: U ** -1, "pow_bad": lambda U, V, E: U ** "x", "pow_unit": lambda U, V, E: U ** V,
    "eq": lambda U, V, E: U == V, "ne": lambda U, V, E: U != V, "hash": lambda U, V, E: isinstance(hash(U), int), "str": lambda U, V, E: (str(U), repr(U)),
    "latex": lambda U, V, E: U.latex_repr, "mul_num": lambda U, V, E: U * 2.0, "rmul_num": lambda U, V, E: 2.0 * U,
    "mul_arr": lambda U, V, E: U * E.tracked["n"], "rmul_arr": lambda U, V, E: E.tracked["n"] * U, "div_num": lambda U, V, E: U / 2.0,
    "rdiv_num": lambda U, V, E: 2.0 / U, "mul_q": lambda U, V, E: U * E.tracked["q"], "q_mul": lambda U, V, E: E.tracked["q"] * U,
    "q_div": lambda U, V, E: E.tracked["q"] / U, "add": lambda U, V, E: U + V, "sub": lambda U, V, E: U - V,
    "same_dimensions_as": lambda U, V, E: U.same_dimensions_as(V), "is_dimensionless": lambda U, V, E: U.is_dimensionless,
    "get_conversion_factor": lambda U, V, E: U.get_conversion_factor(V), "get_base_equivalent()": lambda U, V, E: U.get_base_equivalent(),
    "get_base_equivalent(cgs)": lambda U, V, E: U.get_base_equivalent("cgs"), "get_base_equivalent(galactic)": lambda U, V, E: U.get_base_equivalent("galactic"),
    "get_base_equivalent(xnope)": lambda U, V, E: U.get_base_equivalent("xnope"), "get_cgs_equivalent": lambda U, V, E: U.get_cgs_equivalent(),
    "get_mks_equivalent": lambda U, V, E: U.get_mks_equivalent(), "as_coeff_unit": lambda U, V, E: U.as_coeff_unit(),
    "copy": lambda U, V, E: U.copy(), "copy(deep)": lambda U, V, E: U.copy(deep=True), "copy.copy": lambda U, V, E: _copy.copy(U),
    "copy.deepcopy": lambda U, V, E: _copy.deepcopy(U), "simplify": lambda U, V, E: U.simplify(),
    "has_equivalent": lambda U, V, E: U.has_equivalent("thermal"), "has_equivalent(xnope)": lambda U, V, E: U.has_equivalent("xnope"),
    "Unit(U)": lambda U, V, E: type(U)(U, registry=U.registry), "units": lambda U, V, E: U.units,
}
UNIT_INPLACE = {"iadd": operator.iadd, "isub": operator.isub, "imul": operator.imul, "itruediv": operator.itruediv}


def unit_case(opname, tag, su, sv):
    def h(ctx):
        E = Env(ctx)
        U = E.unit(su, "U")
        V = E.unit(sv, "V")
        q = E.view("q", None, (2,))
        # a quantity that carries U itself as its unit object, and a bare array
        qq = E.unyt.unyt_array(q, U, registry=E.reg)
        E.track("q", qq)
        E.track("n", E.view("n", None, (2,)))
        if opname in UNIT_INPLACE:
            f = UNIT_INPLACE[opname]
            S = E.snapshot()
            r = lib_call(lambda: f(U, V))
            E.outcome(r)
            ctx.require("in-place operator on a Unit is refused", r[0] == "raise")
            E.all_intact("in-place call raised", S)
        else:
            f = UNIT_OPS[opname]
            r = E.copying(lambda: f(U, V, E))
            if r[0] == "ok" and getattr(r[1], "is_Unit", False):
                ctx.observe("result unit", str(r[1]))
    return Case(_cid("unit", opname, tag), h)


# =========================================================================================== copies

COPIES = {"q.copy()": lambda q: q.copy(), "copy.copy": lambda q: _copy.copy(q), "copy.deepcopy": lambda q: _copy.deepcopy(q),
          "np.copy": lambda q: np.copy(q, subok=True), "q.to(same)": lambda q: q.to(q.units),
          "q.in_units(str)": lambda q: q.in_units(str(q.units)), "q*1": lambda q: q * 1, "+q": lambda q: +q,
          "np.array(q)": lambda q: np.array(q, subok=True), "q.astype": lambda q: q.astype(q.dtype), 
          "q.to_equivalent(same dims)": lambda q: q.to_equivalent(str(q.units), "thermal")}
EDITS = {"imul": (lambda c: operator.imul(c, 2.0), lambda c: c * 2.0), "convert": (lambda c: c.convert_to_units("xb"), lambda c: c.in_units("xb")),
         "setitem": (lambda c: operator.setitem(c, 0, 0.0), None), "iadd": (lambda c: operator.iadd(c, c), lambda c: c + c),
         "convert_base": (lambda c: c.convert_to_base("cgs"), lambda c: c.in_base("cgs")), "fill": (lambda c: c.fill(1.0), None),
         "out": (lambda c: np.multiply(c, 2.0, out=c), lambda c: c * 2.0), "setall": (lambda c: operator.setitem(c, Ellipsis, 0.0), None)}


# The ARGUMENT-SPELLING axis of the copy routes: every optional argument a copy route documents (order= of copy / np.copy / np.array /
# astype / flatten in each of its four values, copy=True, the memo of deepcopy, units=None of to_value, equivalence=None of to /
# in_units), passed positionally and by keyword. A route that answers one spelling with a view of its input (np.asfortranarray /
# np.ascontiguousarray / np.asarray instead of np.copy: "no copy needed, the layout is already the one asked for") returns the
# right numbers and leaves its input alone - only the in-place edit of the returned object that follows shows, on the ORIGINAL
# (and on the parent under it), that the two share memory. Sources are one-dimensional (C- and Fortran-contiguous at once),
# C-ordered and Fortran-ordered 2x2 windows, strided windows and 0-d quantities.
_ORDERS = ("C", "F", "A", "K")
COPY_FORMS = {}
for _o in _ORDERS:
    COPY_FORMS[f"q.copy('{_o}')"] = lambda q, o=_o: q.copy(o)
    COPY_FORMS[f"q.copy(order='{_o}')"] = lambda q, o=_o: q.copy(order=o)
    COPY_FORMS[f"np.copy(q,order='{_o}',subok=True)"] = lambda q, o=_o: np.copy(q, order=o, subok=True)
    COPY_FORMS[f"np.copy(q,'{_o}',True)"] = lambda q, o=_o: np.copy(q, o, True)
    COPY_FORMS[f"np.array(q,order='{_o}',subok=True)"] = lambda q, o=_o: np.array(q, order=o, subok=True)
    COPY_FORMS[f"q.astype(dtype,'{_o}')"] = lambda q, o=_o: q.astype(q.dtype, o)
    COPY_FORMS[f"q.astype(dtype,order='{_o}')"] = lambda q, o=_o: q.astype(q.dtype, order=o)
    COPY_FORMS[f"q.flatten('{_o}')"] = lambda q, o=_o: q.flatten(o)
    COPY_FORMS[f"q.flatten(order='{_o}')"] = lambda q, o=_o: q.flatten(order=o)
COPY_FORMS.update({
    "np.copy(q)": lambda q: np.copy(q), "np.array(q)": lambda q: np.array(q),
    "np.array(q,copy=True,subok=True)": lambda q: np.array(q, copy=True, subok=True),
    "q.astype(dtype,copy=True)": lambda q: q.astype(q.dtype, copy=True), "q.astype(str)": lambda q: q.astype(q.dtype.str if q.dtype != object else object),
    "q.flatten()": lambda q: q.flatten(),
    "q.__copy__()": lambda q: q.__copy__(), "q.__deepcopy__({})": lambda q: q.__deepcopy__({}), "copy.deepcopy(q,{})": lambda q: _copy.deepcopy(q, {}),
    "q.to_ndarray()": lambda q: q.to_ndarray(), "q.value": lambda q: q.value, "q.v": lambda q: q.v,
    "q.to_value()": lambda q: q.to_value(), "q.to_value(None)": lambda q: q.to_value(None), "q.to_value(units=None)": lambda q: q.to_value(units=None),
    "q.to(units,None)": lambda q: q.to(q.units, None), "q.to(units,equivalence=None)": lambda q: q.to(q.units, equivalence=None),
    "q.in_units(units,None)": lambda q: q.in_units(q.units, None), "q.in_units(units=)": lambda q: q.in_units(units=q.units),
    "q.to_value(units)": lambda q: q.to_value(q.units), "q.to_value(str,None)": lambda q: q.to_value(str(q.units), None),
    "np.repeat(q,1,axis=0)": lambda q: np.repeat(q, 1, axis=0), "np.tile(q,1)": lambda q: np.tile(q, 1),
})
# copy routes that are identity conversions only on a source that is already in base units
COPY_SRC = {"q.in_base()": "m", "q.in_mks()": "m", "q.in_base('mks')": "m", "q.in_base(unit_system='mks')": "m", "q.in_cgs()": "cm",
            "q.in_base('cgs')": "cm", "q.in_units('m')": "m", "q.to('m',None)": "m", "q.to_equivalent('m','thermal')": "m"}
COPY_FORMS.update({
    "q.in_base()": lambda q: q.in_base(), "q.in_mks()": lambda q: q.in_mks(), "q.in_base('mks')": lambda q: q.in_base("mks"),
    "q.in_base(unit_system='mks')": lambda q: q.in_base(unit_system="mks"), "q.in_cgs()": lambda q: q.in_cgs(),
    "q.in_base('cgs')": lambda q: q.in_base("cgs"), "q.in_units('m')": lambda q: q.in_units("m"), "q.to('m',None)": lambda q: q.to("m", None),
    "q.to_equivalent('m','thermal')": lambda q: q.to_equivalent("m", "thermal"),
})
_UNITLESS_COPY = ("np.copy(q)", "np.array(q)", "q.to_ndarray()", "q.value", "q.v", "q.to_value")


def _copy_want(cname, q):
    """the numbers of q in the order the copy holds them (flatten walks a 2-d source in the order asked for)"""
    m = re.match(r"q\.flatten\((?:order=)?'([CFAK])'\)", cname)
    if m and q.ndim == 2 and (m.group(1) == "F" or (m.group(1) in "AK" and q.flags.f_contiguous and not q.flags.c_contiguous)):
        return elements(q.T)
    return elements(q)


def copy_case(cname, ename, src, shape, layout="c", dtype=None):
    """dtype: the source is a REAL float buffer of that type (concrete doubles in a table unit) instead of z3 terms: the branches
    of a copy route that are taken only for float data (dtype.kind tests) are invisible to an object payload"""
    def h(ctx):
        E = Env(ctx)
        if dtype:
            q = E.concrete("q", np.array([1.5, -2.25, 3.0, 0.5][:int(np.prod(shape))]).reshape(shape), src, dtype=dtype, layout=layout)
        else:
            q = E.view("q", src, shape, layout=layout)
        if shape == ():
            E.track("q", q)
        E.need("xb")
        fn = COPIES.get(cname) or COPY_FORMS[cname]
        r = E.copying(lambda: fn(q))
        if cname in COPY_FORMS:
            ctx.require("catalogue sanity: this copy route is listed as valid and must return", r[0] == "ok",
                        raised=str(r[1])[:160] if r[0] != "ok" else "")
        if r[0] != "ok":
            return
        c = r[1]
        if not isinstance(c, np.ndarray):
            ctx.require("copy of a scalar is a fresh number", True)
            return
        E.track("c", c)
        ctx.require("the copy holds the numbers of the original", vals_close(elements(c), _copy_want(cname, q)), to_solver=True)
        if hasattr(c, "units") or not cname.startswith(_UNITLESS_COPY):
            ctx.require("the copy has the unit of the original", hasattr(c, "units") and unit_equiv(c.units, q.units), to_solver=True)
        ctx.require("the copy shares no memory with the original or its parent",
                    not np.shares_memory(c, E.tracked["q^"]) and not np.shares_memory(c, q))
        ed, tw = EDITS[ename]
        if tw is None:
            old = list(elements(c))
            cu = getattr(c, "units", None)
            new = {"setitem": lambda: [0.0] + old[1:], "fill": lambda: [1.0] * len(old), "setall": lambda: [0.0] * len(old)}[ename]()
            E.inplace("c", lambda: ed(c), lambda: None, expect=lambda _: [(new, cu)])
        else:
            E.inplace("c", lambda: ed(c), lambda: tw(c))
    return Case(_cid("copy", cname, "then_" + ename, src, "shape" + _shape_tag(shape) + _lay_tag(layout) + (":" + dtype if dtype else "")), h)


# =========================================================================================== integer buffers

def _int_env(ctx):
    E = Env(ctx)
    E.parent_full = True
    E.under_check = False  # a successful in-place retyping reinterprets the integer parent's bytes: that is C16's subject
    return E


def int_convert_case(dtype, src, dst, entry, layout="c"):
    def h(ctx):
        E = _int_env(ctx)
        q = E.concrete("q", [3, 40], src, dtype=dtype, layout=layout)
        table = {"convert_to_units": (lambda: q.convert_to_units(dst), lambda: q.in_units(dst)),
                 "convert_to_base": (lambda: q.convert_to_base("cgs"), lambda: q.in_base("cgs")),
                 "convert_to_equivalent": (lambda: q.convert_to_equivalent(dst, "thermal"), lambda: q.to_equivalent(dst, "thermal")),
                 "convert_to_units(unknown)": (lambda: q.convert_to_units("xnope"), lambda: q.in_units("xnope")),
                 "convert_to_units(dim)": (lambda: q.convert_to_units("xs"), lambda: q.in_units("xs"))}
        E.need("xs")
        E.need(dst)
        f, tw = table[entry]
        E.inplace("q", f, tw)
    return Case(_cid("int", entry, f"{src}->{dst}", dtype + _lay_tag(layout)), h)


def int_out_case(dtype, ufname, ua, ub, uo, fault, layout="c"):
    """data are concrete doubles (a float out= buffer cannot hold a term); the unit scales/offsets are symbols"""
    def h(ctx):
        E = _int_env(ctx)
        uf = getattr(np, ufname)
        a, b = E.concrete("a", [1.5, 2.5], ua), E.concrete("b", [50.0, 150.0], ub)
        E.concrete("o", [3, 40], uo, dtype=dtype, layout=layout)
        E.inplace("o", lambda: uf(a, b, out=E.tracked["o"]), lambda: uf(a, b))
    return Case(_cid("int", f"np.{ufname}(out=int)", f"{ua},{ub}->{uo}", fault or "valid", dtype + _lay_tag(layout)), h)


def int_aug_case(dtype, opname, ua, ub, fault, symbolic_b, layout="c"):
    fn, twn = AUGOPS[opname]

    def h(ctx):
        E = _int_env(ctx)
        a = E.concrete("a", [3, 40], ua, dtype=dtype, layout=layout)
        if ub == "num":
            b = 2.5
        elif symbolic_b:
            b = E.view("b", ub, (2,))
        else:
            b = E.concrete("b", [50.0, 150.0], ub)
        E.inplace("a", lambda: fn(a, b), lambda: BINOPS[twn](a, b))
    return Case(_cid("int", opname, f"{ua},{ub}", fault or "valid", dtype + _lay_tag(layout)), h)


def int_copying_case(dtype, tag, f, src):
    def h(ctx):
        E = _int_env(ctx)
        q = E.concrete("q", [3, 40], src, dtype=dtype)
        E.need("xb")
        E.copying(lambda: f(q))
    return Case(_cid("int", tag, src, dtype), h)


FLOAT_UFUNCS = [("modf", 1, 2, "xa", None, None), ("isfinite", 1, 1, "xa", None, None), ("copysign", 2, 1, "xa", "xs", None),
                ("divmod", 2, 2, "xa", "xa", None), ("divmod@dim", 2, 2, "xa", "xs", "dimension mismatch"),
                ("modf@offset", 1, 2, "xta", None, "offset temperature"), ("frexp", 1, 2, "xd", None, None),
                ("frexp@dim", 1, 2, "xa", None, "dimensional argument")]


def float_ufunc_case(name, arity, nout, ua, ub, fault, outform):
    ufname = name.split("@")[0]

    def h(ctx):
        E = Env(ctx)
        E.observe_values = False
        uf = getattr(np, ufname)
        args = [E.concrete("a", [1.5, -2.25], ua)]
        if arity == 2:
            args.append(E.concrete("b", [0.5, 4.0], ub))
        if outform == "none":
            E.copying(lambda: uf(*args))
            return
        if outform == "alias0":
            keys = ["a"]
            if nout == 2:
                E.concrete("o1", [0.0, 0.0], "xs")
                keys.append("o1")
        elif outform in ALIAS_FORMS:
            E.alias("o", "a", ALIAS_FORMS[outform][1], ustr=_COMMENSURABLE.get(ua, "xs"))
            keys = ["o"]
            if nout == 2:
                E.concrete("o1", [0.0, 0.0], "xs")
                keys.append("o1")
        else:
            ounit = out_unit("fresh" if outform in LAYOUT_FORMS else outform, ua)
            keys = []
            for j in range(nout):
                E.concrete(f"o{j}", [0.0, 0.0, 0.0] if is_wrongshape(outform) else [0.0, 0.0], ounit, layout=LAYOUT_FORMS.get(outform, "c"))
                keys.append(f"o{j}")
        outs = tuple(E.tracked[k] for k in keys)
        E.inplace(keys, lambda: uf(*args, out=outs if nout > 1 else outs[0]), lambda: uf(*args))
    return Case(_cid("floatufunc", name, f"out={outform}", fault or "valid"), h)


def float_pow_case(form, unit, p):
    """NumPy rewrites `x ** 2`, `x ** 0.5`, `x ** -1` on FLOAT buffers into square/sqrt/reciprocal (a fast path an object payload
    does not take): these forms run on concrete doubles with symbolic unit scale/offset"""
    def h(ctx):
        E = Env(ctx)
        E.observe_values = False
        a = E.concrete("a", [1.5, 2.25], unit)
        if form == "pow":
            E.copying(lambda: a ** p)
        elif form == "ipow":
            E.inplace("a", lambda: operator.ipow(a, p), lambda: a ** p)
        else:
            E.concrete("o", [0.0, 0.0], "xs")
            E.inplace("o", lambda: np.power(a, p, out=E.tracked["o"]), lambda: np.power(a, p))
    return Case(_cid("floatpow", form, unit, f"p={p}"), h)


TYPED_SETVALS = {"string": "xnope", "list_of_str": ["p", "q"], "too_long": [1.0, 2.0, 3.0], "complex": 1j,
                 "quantity_dim": ("q", "xs"), "array_dim": ("a", "xs"), "dict": {}}


def typed_setitem_case(vname, iname):
    """item assignment of values a float buffer refuses (an object payload would accept them): concrete doubles, symbolic scales"""
    idx = INDEXES[iname]

    def h(ctx):
        E = Env(ctx)
        a = E.concrete("a", [1.5, -2.25], "xa")
        v = TYPED_SETVALS[vname]
        if isinstance(v, tuple):
            v = E.concrete("v", 3.0 if v[0] == "q" else [3.0, 4.0], v[1])
        old, au = list(elements(a)), a.units
        S = E.snapshot()
        r = lib_call(lambda: operator.setitem(a, idx, v))
        E.outcome(r)
        ctx.require("an incompatible value is refused", r[0] == "raise")
        E.all_intact("in-place call raised", S)
    return Case(_cid("setitem", "typed", vname, f"index={iname}", "incompatible value"), h)


# =========================================================================================== histories
#
# Sequences of two and three calls inside ONE path. unyt's caches are cleared (and module state is whatever the previous path
# left) only at the start of a path, so everything a call leaves behind - a cache entry, a shared helper object, a switch that a
# raising call did not reset, a Unit object shared by two arrays - is still there when the next call of the history runs. Every
# step is held to its own discipline (copying: every tracked object as before; in-place: raised -> target as before, returned ->
# agrees with the copying twin), with the snapshot taken right before that step. In-place steps run WITHOUT a preceding twin
# call (twin_after): the history is exactly the sequence of calls named in the case id; the twin of a step that returned is run
# afterwards on a harness-built clone of the old target.

def _track_result(E, k, r):
    """what a copying step returned is an object of its own: the later steps of the history must leave it alone"""
    if r[0] == "ok" and isinstance(r[1], np.ndarray):
        # 'returns a new object': the result shares no memory with an operand, a bystander or what an earlier step returned
        shared = [key for key, o in E.tracked.items() if isinstance(o, np.ndarray) and (o is r[1] or np.shares_memory(o, r[1]))]
        E.ctx.require(f"step {k}: the result of a copying call is a new object (shares no memory with an operand or an earlier result)",
                      not shared, shares_with=shared)
    if r[0] == "ok" and (getattr(r[1], "is_Unit", False) or isinstance(r[1], np.ndarray)):
        E.track(f"result of step {k}", r[1])


HEQ_CONSTANTS = ("kboltz", "clight", "mh", "h_mks", "G", "stefan_boltzmann_constant_mks")  # what the equivalences compute with


def _hist_id(seq):
    return ",".join(f"{letter}@{t}" if not c else f"{c}.{letter}@{t}" for (letter, t, c) in seq)


# ---- (A) equivalence conversions. cfg -> (equivalence, (unit, same-dimension alternative) of side A, of side B, valid kwargs,
#      a target unit outside the equivalence, kwargs the equivalence does not take)
HEQ = {
    "thermal": ("thermal", ("K", "mK"), ("keV", "J"), {}, "s", {"mu": 2.0}),
    "mass_energy": ("mass_energy", ("g", "kg"), ("J", "erg"), {}, "s", {"mu": 2.0}),
    "spectral": ("spectral", ("nm", "m"), ("eV", "J"), {}, "K", {"mu": 2.0}),
    "spectral_freq": ("spectral", ("MHz", "Hz"), ("m", "cm"), {}, "K", {"mu": 2.0}),
    "sound_speed": ("sound_speed", ("K", "mK"), ("km/s", "m/s"), {"mu": "sym", "gamma": "sym"}, "g", {"nu": 2.0}),
    "sound_speed_E": ("sound_speed", ("km/s", "m/s"), ("keV", "J"), {}, "g", {"nu": 2.0}),
    "number_density": ("number_density", ("g/cm**3", "kg/m**3"), ("cm**-3", "m**-3"), {"mu": "sym"}, "s", {"gamma": 2.0}),
    "schwarzschild": ("schwarzschild", ("Msun", "kg"), ("km", "m"), {}, "s", {"mu": 2.0}),
    "compton": ("compton", ("me", "g"), ("angstrom", "nm"), {}, "s", {"mu": 2.0}),
    "effective_temperature": ("effective_temperature", ("K", "mK"), ("W/m**2", "erg/s/cm**2"), {}, "s", {"mu": 2.0}),
}
HEQ_OUTSIDER = "A"  # a unit whose dimension belongs to no equivalence
HEQ_COPY = {"te": lambda x, u, e, kw: x.to_equivalent(u, e, **kw), "to": lambda x, u, e, kw: x.to(u, equivalence=e, **kw),
            "iu": lambda x, u, e, kw: x.in_units(u, equivalence=e, **kw), "tv": lambda x, u, e, kw: x.to_value(u, equivalence=e, **kw)}
HEQ_INPLACE = {"ce": (lambda x, u, e, kw: x.convert_to_equivalent(u, e, **kw), "te"),
               "cu": (lambda x, u, e, kw: x.convert_to_units(u, equivalence=e, **kw), "to")}
# letters: <C|I>.<variant>:<entry>. variants: ok (to the other side), same (same-dimension unit: the plain conversion route),
# tgt / kw / unit / name / src (refused: target outside the equivalence, unexpected keyword, unknown unit, unknown equivalence,
# source outside the equivalence), ro (read-only target), int (int8 target: NumPy refuses the cast into it)
HEQ_REFUSED = ("tgt", "kw", "unit", "name", "src", "ro", "int")


class _HeqState:
    def __init__(self, E, seq, shape):
        self.E, self.cur = E, {}
        ctx = E.ctx
        first = HEQ[seq[0][2]]
        variants = {l.split(".")[1].split(":")[0] for (l, _, _) in seq}
        targets = {t for (_, t, _) in seq}
        q = E.view("q", first[1][0], shape, pos=True)
        if shape == ():
            E.track("q", q)
        self.cur["q"] = first[1][0]
        if "p" in targets:
            E.view("p", first[2][0], shape, pos=True)
            self.cur["p"] = first[2][0]
        if "src" in variants:
            E.view("r", HEQ_OUTSIDER, (2,), pos=True)
            self.cur["r"] = HEQ_OUTSIDER
        if "ro" in variants:
            w = E.view("w", first[1][0], (2,), pos=True)
            w.flags.writeable = False  # the view only: its parent stays writeable
            self.cur["w"] = first[1][0]
        if "int" in variants:
            E.concrete("i", [3, 40], first[1][0], dtype="int8")
            self.cur["i"] = first[1][0]
        # shared objects every equivalence conversion reads: the module-level physical constants
        pc = E.unyt.physical_constants
        for n in HEQ_CONSTANTS:
            E.track("constant " + n, getattr(pc, n))


def _heq_step(H, k, letter, tname, cfg):
    E = H.E
    ctx = E.ctx
    eq, sideA, sideB, kwspec, badtgt, badkw = HEQ[cfg]
    kv, _, entry = letter.partition(":")
    kind, variant = kv.split(".")
    tname = {"src": "r", "ro": "w", "int": "i"}.get(variant, tname)
    x = E.tracked[tname]
    cur = H.cur[tname]
    if cur in sideA:
        dst, alt = sideB[0], sideA[1 - sideA.index(cur)]
    elif cur in sideB:
        dst, alt = sideA[0], sideB[1 - sideB.index(cur)]
    else:
        dst, alt = sideA[0], sideA[1]
    kws = {n: (ctx.real(f"kw{k}_{n}", pos=True) if v == "sym" else v) for n, v in kwspec.items()}
    u, e = (alt if variant == "same" else dst), eq
    if variant == "tgt":
        u = badtgt
    elif variant == "kw":
        kws = dict(badkw)
    elif variant == "unit":
        u = "xnope"
    elif variant == "name":
        e = "xnope"
    pre = f"step {k} {letter}@{tname}: "
    known_side = cur in sideA or cur in sideB
    E.must_return = variant in ("ok", "same") and known_side
    if kind == "C":
        f = HEQ_COPY[entry]
        r = E.copying(lambda: f(x, u, e, kws), tag=pre + "copying")
        _track_result(E, k, r)
    else:
        f, twn = HEQ_INPLACE[entry]
        tw = HEQ_COPY[twn]
        flags = (E.parent_full, E.under_check)
        if variant == "int":
            E.parent_full, E.under_check = True, False
        r, _ = E.inplace(tname, lambda: f(x, u, e, kws), lambda c: tw(c, u, e, kws), pre=pre, twin_after=True)
        E.parent_full, E.under_check = flags
        if r[0] == "ok":
            H.cur[tname] = u
    E.must_return = False
    if variant in HEQ_REFUSED and (known_side or variant in ("src", "unit", "name")):
        ctx.require(pre + "catalogue sanity: this call form is listed as refused and must raise", r[0] == "raise")
    return r


def hist_equiv_case(seq, shape=(2,)):
    """seq: [(letter, target name, cfg)]"""
    def h(ctx):
        E = Env(ctx)
        E.observe_values = False  # root witnesses of the sound-speed / effective-temperature routes are not observable
        H = _HeqState(E, seq, shape)
        for k, (letter, tname, cfg) in enumerate(seq, 1):
            _heq_step(H, k, letter, tname, cfg)
    cfgs = [c for (_, _, c) in seq]
    name = cfgs[0] if len(set(cfgs)) == 1 else ">".join(cfgs)
    return Case(_cid("hist-equiv", name, _hist_id([(l, t, None) for (l, t, _) in seq]), "shape" + _shape_tag(shape)), h)


# ---- (B) the plain catalogue: conversions, base conversions, operators, ufuncs with out=, array functions, item assignment,
#      copies and Unit arithmetic on ONE operand set in harness units with symbolic scales (and offsets in the affine set):
#      q, p (same unit string: they share their Unit object through unyt's caches), c (another dimension), o/o3/o4 (out= buffers),
#      w (a read-only view)
HMIX_UNITS = {"plain": ("xa", "xb", "xs"), "affine": ("xta", "xtb", "xs")}


def _unwrap_buffer(x):
    """A9: `objarr[i] = zero_d_quantity` stores the 0-d wrapper itself where a float buffer stores its number (see elements()).
    Before the NEXT call of a history reads that buffer the wrapper is replaced by the term it wraps (same number)."""
    raw = x.view(np.ndarray)
    if raw.dtype != object:
        return
    for idx in np.ndindex(raw.shape):
        e = raw[idx]
        if isinstance(e, np.ndarray):
            while isinstance(e, np.ndarray) and e.shape == () and e.dtype == object:
                e = np.asarray(e)[()]
            raw[idx] = e


def _mix_dst(H, t):
    uA, uB, _ = H.units
    return uB if H.cur.get(t) == uA else uA


def _setitem_expect(x, conv):
    old, xu = list(elements(x)), x.units
    return lambda tv: [([flat(tv)[0]] + old[1:], xu)]


# copying letters: name -> f(H, x, y) -> the call
HMIX_COPY = {
    "C.in_units": lambda H, x, y, t: (lambda: x.in_units(_mix_dst(H, t))),
    "C.to": lambda H, x, y, t: (lambda: x.to(_mix_dst(H, t))),
    "C.to_value": lambda H, x, y, t: (lambda: x.to_value(_mix_dst(H, t))),
    "C.in_units(dim)": lambda H, x, y, t: (lambda: x.in_units(H.units[2])),
    "C.to(unknown)": lambda H, x, y, t: (lambda: x.to("xnope")),
    "C.in_cgs": lambda H, x, y, t: (lambda: x.in_cgs()),
    "C.in_base(unknown)": lambda H, x, y, t: (lambda: x.in_base("xnope")),
    "C.add": lambda H, x, y, t: (lambda: x + y),
    "C.sub(dim)": lambda H, x, y, t: (lambda: x - H.c),
    "C.mul": lambda H, x, y, t: (lambda: x * H.c),
    "C.lt": lambda H, x, y, t: (lambda: x < y),
    "C.neg": lambda H, x, y, t: (lambda: -x),
    "C.np.add": lambda H, x, y, t: (lambda: np.add(x, y)),
    "C.np.add(dim)": lambda H, x, y, t: (lambda: np.add(x, H.c)),
    "C.concatenate": lambda H, x, y, t: (lambda: np.concatenate([x, y])),
    "C.concatenate(dim)": lambda H, x, y, t: (lambda: np.concatenate([x, H.c])),
    "C.where": lambda H, x, y, t: (lambda: np.where(_mask(), x, y)),
    "C.copy": lambda H, x, y, t: (lambda: x.copy()),
    "C.deepcopy": lambda H, x, y, t: (lambda: _copy.deepcopy(x)),
    "C.getitem": lambda H, x, y, t: (lambda: x[0]),
    "C.unit_mul": lambda H, x, y, t: (lambda: x.units * H.c.units),
    "C.unit_eq": lambda H, x, y, t: (lambda: x.units == y.units),
    "C.unit_pow": lambda H, x, y, t: (lambda: x.units ** 2),
    "C.get_base_equivalent": lambda H, x, y, t: (lambda: x.units.get_base_equivalent("cgs")),
}
HMIX_COPY_REFUSED = ("C.in_units(dim)", "C.to(unknown)", "C.in_base(unknown)", "C.sub(dim)", "C.np.add(dim)", "C.concatenate(dim)")
# in-place letters: name -> f(H, x, y, t) -> dict(keys, fn, twin(*clones), expect=None, newcur=None)
HMIX_INPLACE = {
    "I.convert": lambda H, x, y, t: (lambda d: dict(keys=[t], fn=lambda: x.convert_to_units(d), twin=lambda c: c.in_units(d), newcur=d))(_mix_dst(H, t)),
    "I.convert(dim)": lambda H, x, y, t: dict(keys=[t], fn=lambda: x.convert_to_units(H.units[2]), twin=lambda c: c.in_units(H.units[2])),
    "I.convert(unknown)": lambda H, x, y, t: dict(keys=[t], fn=lambda: x.convert_to_units("xnope"), twin=lambda c: c.in_units("xnope")),
    "I.convert_to_cgs": lambda H, x, y, t: dict(keys=[t], fn=lambda: x.convert_to_cgs(), twin=lambda c: c.in_cgs(), newcur="cgs"),
    "I.convert_to_base(unknown)": lambda H, x, y, t: dict(keys=[t], fn=lambda: x.convert_to_base("xnope"), twin=lambda c: c.in_base("xnope")),
    "I.iadd": lambda H, x, y, t: dict(keys=[t], fn=lambda: operator.iadd(x, y), twin=lambda c: c + y),
    "I.iadd(dim)": lambda H, x, y, t: dict(keys=[t], fn=lambda: operator.iadd(x, H.c), twin=lambda c: c + H.c),
    "I.imul": lambda H, x, y, t: dict(keys=[t], fn=lambda: operator.imul(x, 2.0), twin=lambda c: c * 2.0),
    "I.isub(ro)": lambda H, x, y, t: dict(keys=["w"], fn=lambda: operator.isub(H.w, y), twin=lambda c: c - y),
    "I.add(out=o)": lambda H, x, y, t: dict(keys=["o"], fn=lambda: np.add(x, y, out=H.o), twin=lambda c: np.add(x, y)),
    "I.add(out=x)": lambda H, x, y, t: dict(keys=[t], fn=lambda: np.add(x, y, out=x), twin=lambda c: np.add(c, y)),
    "I.add(out=x[...])": lambda H, x, y, t: dict(keys=[t], fn=lambda: np.add(x, y, out=x[...]), twin=lambda c: np.add(c, y)),
    "I.add(dim,out=o)": lambda H, x, y, t: dict(keys=["o"], fn=lambda: np.add(x, H.c, out=H.o), twin=lambda c: np.add(x, H.c)),
    "I.add(out=o3)": lambda H, x, y, t: dict(keys=["o3"], fn=lambda: np.add(x, y, out=H.o3), twin=lambda c: np.add(x, y)),
    "I.concatenate(out=o4)": lambda H, x, y, t: dict(keys=["o4"], fn=lambda: np.concatenate([x, y], out=H.o4), twin=lambda c: np.concatenate([x, y])),
    "I.concatenate(dim,out=o4)": lambda H, x, y, t: dict(keys=["o4"], fn=lambda: np.concatenate([x, H.c], out=H.o4), twin=lambda c: np.concatenate([x, H.c])),
    "I.setitem": lambda H, x, y, t: dict(keys=[t], fn=lambda: operator.setitem(x, 0, y[0]), twin=lambda c: y[0].in_units(c.units),
                                        expect=_setitem_expect(x, None)),
    "I.setitem(dim)": lambda H, x, y, t: dict(keys=[t], fn=lambda: operator.setitem(x, 0, H.c[0]), twin=lambda c: H.c[0].in_units(c.units),
                                             expect=_setitem_expect(x, None)),
    "I.sort": lambda H, x, y, t: dict(keys=[t], fn=lambda: x.sort(), twin=lambda c: np.sort(c)),
}
HMIX_INPLACE_REFUSED = ("I.convert(dim)", "I.convert(unknown)", "I.convert_to_base(unknown)", "I.iadd(dim)", "I.isub(ro)",
                        "I.add(dim,out=o)", "I.add(out=o3)", "I.concatenate(dim,out=o4)", "I.setitem(dim)")


class _HmixState:
    def __init__(self, E, seq, unitset):
        self.E, self.units, self.cur = E, HMIX_UNITS[unitset], {}
        uA, uB, uC = self.units
        E.need(uB)
        letters = "".join(l for (l, _, _) in seq)
        for t in ("q", "p"):
            E.view(t, uA, (2,))
            self.cur[t] = uA
        self.c = E.view("c", uC, (2,))
        needed = set(re.findall(r"out=(o\d?)\)", letters)) | ({"w"} if "(ro)" in letters else set())
        for name in ("o", "o3", "o4", "w"):
            if name in needed:
                v = E.view(name, uA, {"o": (2,), "o3": (3,), "o4": (4,), "w": (2,)}[name])
                if name == "w":
                    v.flags.writeable = False
                setattr(self, name, v)
                self.cur[name] = uA


def _hmix_step(H, k, letter, t):
    E = H.E
    x, y = E.tracked[t], E.tracked["p" if t == "q" else "q"]
    pre = f"step {k} {letter}@{t}: "
    if letter in HMIX_COPY:
        r = E.copying(HMIX_COPY[letter](H, x, y, t), tag=pre + "copying")
        _track_result(E, k, r)
        refused = letter in HMIX_COPY_REFUSED
    else:
        d = HMIX_INPLACE[letter](H, x, y, t)
        r, _ = E.inplace(d["keys"], d["fn"], d["twin"], expect=d.get("expect"), pre=pre, twin_after=True,
                         slack=H.slack if letter.startswith("I.setitem") else 0)
        if r[0] == "ok" and d.get("newcur"):
            H.cur[d["keys"][0]] = d["newcur"]
        if letter.startswith("I.setitem"):
            _unwrap_buffer(x)
        refused = letter in HMIX_INPLACE_REFUSED
    if refused:
        E.ctx.require(pre + "catalogue sanity: this call form is listed as refused and must raise", r[0] == "raise")
    return r


def hist_mix_case(seq, unitset):
    """seq: [(letter, target name 'q'|'p', None)]"""
    def h(ctx):
        E = Env(ctx)
        E.observe_values = False
        H = _HmixState(E, seq, unitset)
        H.slack = 0
        if unitset == "affine":
            # a value assigned into an array in a unit that agrees with the array's to 1e-9 is stored unconverted (see setitem_case)
            (sa, oa), (sb, ob) = E.rows["xta"], E.rows["xtb"]
            H.slack = (abs(oa) + abs(ob * sb / sa) + abs(ob) + abs(oa * sa / sb)) * 1e-6
        for k, (letter, t, _) in enumerate(seq, 1):
            _hmix_step(H, k, letter, t)
    return Case(_cid("hist-mix", unitset, _hist_id(seq)), h)


# ---- (C) read-only targets: one more kind of invalid input for in-place calls (NumPy refuses to write). Single calls.
READONLY = {
    "convert_to_units": ("xa", lambda w, b: w.convert_to_units("xb"), lambda w, b: w.in_units("xb")),
    "convert_to_units(affine)": ("xta", lambda w, b: w.convert_to_units("xtb"), lambda w, b: w.in_units("xtb")),
    "convert_to_units(table)": ("m", lambda w, b: w.convert_to_units("cm"), lambda w, b: w.in_units("cm")),
    "convert_to_units(identity)": ("xa", lambda w, b: w.convert_to_units("xa"), lambda w, b: w.in_units("xa")),
    "convert_to_base(cgs)": ("xa", lambda w, b: w.convert_to_base("cgs"), lambda w, b: w.in_base("cgs")),
    "convert_to_mks": ("cm", lambda w, b: w.convert_to_mks(), lambda w, b: w.in_mks()),
    "convert_to_equivalent": ("K", lambda w, b: w.convert_to_equivalent("keV", "thermal"), lambda w, b: w.to_equivalent("keV", "thermal")),
    "convert_to_equivalent(same dims)": ("K", lambda w, b: w.convert_to_equivalent("mK", "thermal"), lambda w, b: w.to_equivalent("mK", "thermal")),
    "convert_to_units(equivalence=)": ("K", lambda w, b: w.convert_to_units("J", equivalence="thermal"), lambda w, b: w.to("J", equivalence="thermal")),
    "iadd": ("xa", lambda w, b: operator.iadd(w, b), lambda w, b: w + b),
    "imul": ("xa", lambda w, b: operator.imul(w, 2.0), lambda w, b: w * 2.0),
    "imul(unit)": ("xa", lambda w, b: operator.imul(w, b), lambda w, b: w * b),
    "np.add(out=w)": ("xa", lambda w, b: np.add(b, b, out=w), lambda w, b: np.add(b, b)),
    "np.multiply(out=w)": ("xa", lambda w, b: np.multiply(b, b, out=w), lambda w, b: np.multiply(b, b)),
    "np.sqrt(out=w)": ("xa", lambda w, b: np.sqrt(b, out=w), lambda w, b: np.sqrt(b)),
    "setitem": ("xa", lambda w, b: operator.setitem(w, 0, b[0]), None),
    "fill": ("xa", lambda w, b: w.fill(b[0]), None),
    "sort": ("xa", lambda w, b: w.sort(), None),
    "np.copyto": ("xa", lambda w, b: np.copyto(w, b), None),
    "np.concatenate(out=w)": ("xa", lambda w, b: np.concatenate([b[:1], b[:1]], out=w), lambda w, b: np.concatenate([b[:1], b[:1]])),
    "np.clip(out=w)": ("xa", lambda w, b: np.clip(b, b[0], b[1], out=w), lambda w, b: np.clip(b, b[0], b[1])),
    "np.put": ("xa", lambda w, b: np.put(w, [0], b[1]), None),
}


def readonly_case(name):
    unit, f, tw = READONLY[name]
    # 'rescale': the calls that end in convert_to_units' rescaling of the array's own buffer
    route = ("rescale" if name.startswith(("convert_to_units(", "convert_to_base", "convert_to_mks", "convert_to_equivalent(same")) or name == "convert_to_units"
             else "equivalence" if name.startswith("convert_to_") else "other")
    if name == "convert_to_units(equivalence=)":
        route = "equivalence"

    def h(ctx):
        E = Env(ctx)
        E.observe_values = False
        w = E.view("w", unit, (2,), pos=True)
        w.flags.writeable = False
        b = E.view("b", "xb" if unit == "xa" else unit, (2,), pos=True)
        E.need("xb")
        E.need("xtb")
        r, _ = E.inplace("w", lambda: f(w, b), (lambda c: tw(c, b)) if tw else (lambda c: None), pre="", twin_after=True)
        ctx.require("a read-only target is refused", r[0] == "raise")
    return Case(_cid("readonly", route, name, unit, "read-only target"), h)


def _history_cases(tier):
    quick = tier == "quick"
    out = []
    # ---------------- (A) equivalences
    C_OK = ["C.ok:te", "C.ok:to", "C.ok:iu", "C.ok:tv"]
    first = ["I.tgt:ce", "I.tgt:cu", "I.kw:ce", "I.kw:cu", "I.unit:ce", "I.name:cu", "I.src:ce", "I.ro:ce", "I.ro:cu", "I.int:ce",
             "I.ok:ce", "I.ok:cu", "I.same:ce", "C.tgt:te", "C.kw:to", "C.unit:iu", "C.name:tv", "C.src:te", "C.ok:te", "C.same:to"]
    second = C_OK + ["C.same:te", "I.ok:ce", "I.ok:cu", "I.same:cu", "C.tgt:te", "I.tgt:ce"]
    n = 0
    for l1 in first:
        for l2 in second:
            for tp in (("q", "p"), ("q", "q")):
                n += 1
                # quick: the other-array pattern for every pair, the same-array pattern for every second pair
                if quick and tp == ("q", "q") and n % 4:
                    continue
                out.append(hist_equiv_case([(l1, tp[0], "thermal"), (l2, tp[1], "thermal")]))
    # every other equivalence: refused / returned in-place call, then a copying and an in-place call
    for cfg in HEQ:
        if cfg == "thermal":
            continue
        f1 = ["I.tgt:ce", "I.kw:cu", "I.ok:ce"] if quick else ["I.tgt:ce", "I.tgt:cu", "I.kw:ce", "I.kw:cu", "I.ro:ce", "I.ok:ce", "I.ok:cu", "C.tgt:te", "C.ok:te"]
        f2 = ["C.ok:te", "I.ok:cu"] if quick else C_OK + ["I.ok:ce", "I.ok:cu", "C.same:te"]
        for l1 in f1:
            for l2 in f2:
                for tp in ((("q", "p"),) if quick else (("q", "p"), ("q", "q"))):
                    out.append(hist_equiv_case([(l1, tp[0], cfg), (l2, tp[1], cfg)]))
    # two equivalences that share a dimension: the first call under one, the second under the other
    for c1, c2, t2 in [("thermal", "sound_speed", "q"), ("sound_speed", "thermal", "q"), ("thermal", "effective_temperature", "q"),
                       ("thermal", "sound_speed_E", "p"), ("mass_energy", "thermal", "p"), ("schwarzschild", "compton", "p"),
                       ("compton", "schwarzschild", "p"), ("spectral", "thermal", "p"), ("spectral", "spectral_freq", "p")]:
        for l1 in ["I.tgt:ce", "I.kw:cu", "I.ok:ce"]:
            for l2 in (["C.ok:te", "I.ok:cu"] if quick else C_OK + ["I.ok:ce", "I.ok:cu"]):
                out.append(hist_equiv_case([(l1, "q", c1), (l2, t2, c2)]))
    # three steps: every word over {refused in-place, returned in-place, refused copying, returned copying}
    R = ["I.tgt:ce", "I.ok:cu", "C.tgt:te", "C.ok:to"]
    for cfg in (["thermal"] if quick else ["thermal", "sound_speed", "spectral"]):
        for a in R:
            for b in R:
                for c in R:
                    for tp in ((("q", "p", "q"),) if quick else (("q", "p", "q"), ("q", "q", "p"))):
                        out.append(hist_equiv_case([(a, tp[0], cfg), (b, tp[1], cfg), (c, tp[2], cfg)]))
    if not quick:
        for l1 in ["I.tgt:ce", "I.kw:cu", "I.ok:ce"]:
            for l2 in C_OK + ["I.ok:ce"]:
                out.append(hist_equiv_case([(l1, "q", "thermal"), (l2, "q", "thermal")], shape=()))
    # ---------------- (B) the plain catalogue
    allI, allC = list(HMIX_INPLACE), list(HMIX_COPY)
    if quick:
        obs_c = ["C.in_units", "C.to_value", "C.in_cgs", "C.add", "C.np.add", "C.concatenate", "C.copy", "C.unit_mul"]
        obs_i = ["I.convert", "I.iadd", "I.add(out=o)"]
        pairs = [(a, b) for a in allI for b in obs_c + obs_i]
        pairs += [(a, b) for a in HMIX_COPY_REFUSED for b in ["C.in_units", "C.add", "I.convert", "I.iadd", "I.add(out=o)"]]
        pairs += [(a, b) for a in ["C.in_units", "C.in_cgs", "C.add", "C.concatenate", "C.unit_mul"] for b in ["I.convert", "I.iadd", "I.setitem", "C.to"]]
    else:
        pairs = [(a, b) for a in allI + allC for b in allI + allC]
    for n, (a, b) in enumerate(pairs):
        for tp in ((("q", "q"), ("q", "p"))[n % 2:n % 2 + 1] if quick else (("q", "q"), ("q", "p"))):
            out.append(hist_mix_case([(a, tp[0], None), (b, tp[1], None)], "plain"))
    aff1 = ["I.convert", "I.convert(dim)", "I.convert(unknown)", "I.iadd(dim)", "I.setitem(dim)", "I.setitem", "I.add(dim,out=o)", "C.in_units(dim)", "C.in_units"]
    aff2 = ["C.in_units", "C.to_value", "C.copy", "I.convert", "I.setitem"]
    for n, a in enumerate(aff1):
        for b in aff2:
            for tp in ((("q", "p"),) if quick else (("q", "q"), ("q", "p"))):
                out.append(hist_mix_case([(a, tp[0], None), (b, tp[1], None)], "affine"))
    words = [["I.convert(dim)", "I.convert", "C.in_units(dim)", "C.in_units"], ["I.iadd(dim)", "I.iadd", "C.sub(dim)", "C.add"]]
    if not quick:
        words += [["I.add(dim,out=o)", "I.add(out=o)", "C.np.add(dim)", "C.np.add"], ["I.setitem(dim)", "I.setitem", "C.concatenate(dim)", "C.concatenate"]]
    for wi, R in enumerate(words):
        for a in R:
            for b in R:
                for c in R:
                    if quick and wi == 1 and not a.startswith("I."):
                        continue  # quick: the operator words that start with an in-place call
                    out.append(hist_mix_case([(a, "q", None), (b, "p", None), (c, "q", None)], "plain"))
    # ---------------- (C) read-only targets
    for name in READONLY:
        out.append(readonly_case(name))
    return out


# =========================================================================================== cases

def coverage_extra(results, tier):
    fam, raised = {}, 0
    for r in results:
        f = r["id"].split("/")[1]
        d = fam.setdefault(f, dict(cases=0, paths=0, obligations=0))
        d["cases"] += 1
        d["paths"] += r["paths"]
        d["obligations"] += r["stats"]["obligations"]
    return {"families": fam,
            "frame_rule": "a copying call: every tracked object (operands, their parents, unit objects, registry rows) equals its snapshot; "
                          "an in-place call that raised: the same, target included; an in-place call that returned: target ~ copying twin "
                          "(1e-6 band), unit fields of the twin, parent elements outside the target and every other object equal their snapshot; "
                          "history cases: the same rule per step with a snapshot taken right before that step, no reset between steps"}


def cases(tier, mods):
    check_names(mods, NAMES)
    out = []
    quick = tier == "quick"
    shapes = [(2,)] if quick else [(2,), ()]
    # the memory-layout axis: windows that are not C-contiguous. quick: a rotating choice per call site, thorough: all of them
    lay_all = {1: [((2,), l) for l in LAY1], 2: [((2, 2), l) for l in LAY2]}
    rot = [0]

    def lays(n_quick, dims=(1, 2), n_thorough=None):
        allv = [x for d in dims for x in lay_all[d]]
        n = n_quick if quick else (len(allv) if n_thorough is None else n_thorough)
        rot[0] += 1
        return [allv[(rot[0] + i) % len(allv)] for i in range(min(n, len(allv)))]
    # ---- conversions
    for tag, src, dst, fault in CONV_PAIRS:
        for entry in ["to", "in_units", "to_value", "to(Unit)", "convert_to_units"]:
            for sh in shapes:
                out.append(conv_case(entry, tag, src, dst, fault, sh))
            for sh, lay in (lays(2) if entry == "convert_to_units" else lays(1 if entry in ("to", "to_value") else 0, n_thorough=2)):
                out.append(conv_case(entry, tag, src, dst, fault, sh, lay))
        for k, entry in enumerate(CONV_SPELLINGS + [e for e in CONV_INPLACE if e != "convert_to_units"]):
            if quick and tag in ("prefixed", "compound", "em", "dimT", "junk"):
                continue
            out.append(conv_case(entry, tag, src, dst, fault, (2,)))
            if not quick:
                out.append(conv_case(entry, tag, src, dst, fault, ()))
                for sh, lay in lays(1):
                    out.append(conv_case(entry, tag, src, dst, fault, sh, lay))
    for tag, src, fault in BASE_SRC:
        for entry in list(BASE_COPY) + list(BASE_INPLACE):
            for sh in shapes:
                out.append(base_case(entry, tag, src, fault, sh))
            for sh, lay in (lays(1) if entry in BASE_INPLACE else lays(1 if entry in ("in_base(mks)", "in_cgs") else 0, n_thorough=2)):
                out.append(base_case(entry, tag, src, fault, sh, lay))
    for (tag, src, dst, eq, kw, fault, dom) in EQUIV:
        for entry in ["to_equivalent", "to(equivalence=)", "convert_to_equivalent", "convert_to_units(equivalence=)"]:
            for sh in shapes:
                out.append(equiv_case(entry, tag, src, dst, eq, kw, fault, dom, sh))
            for sh, lay in (lays(1) if entry.startswith("convert_") else lays(1 if entry == "to_equivalent" and fault is None else 0, n_thorough=2)):
                out.append(equiv_case(entry, tag, src, dst, eq, kw, fault, dom, sh, lay))
    # ---- operators
    for tag, sa, sb, fault, ops in OPVARS:
        for op in ops:
            for sh in shapes:
                out.append(op_case(op, tag, sa, sb, fault, sh))
            smooth = op in ("add", "sub", "mul", "truediv")  # comparisons / floor / mod fork per element: one-dimensional windows only
            for sh, lay in lays(1, dims=(1, 2) if smooth else (1,), n_thorough=2):
                out.append(op_case(op, tag, sa, sb, fault, sh, lay))
            aug = "i" + op
            if aug in AUGOPS and not sa.startswith(("num", "bare", "q:")):
                for sh in shapes:
                    out.append(op_case(aug, tag, sa, sb, fault, sh))
                for sh, lay in lays(1, dims=(1, 2) if smooth else (1,)):
                    out.append(op_case(aug, tag, sa, sb, fault, sh, lay))
                # the statement form  parent[window] op= b  (only where the result keeps the unit of the array: a window cannot
                # carry another unit than its parent, `x[1:3] *= y_metres` is refused by __setitem__ after the product was formed)
                if aug in ("iadd", "isub", "imod") or sb == "num":
                    for sh, lay in [((2,), "c")] + ([] if quick else [((2,), "strided")] + ([((2, 2), "colstrided")] if smooth else [])):
                        out.append(op_case(aug, tag, sa, sb, fault, sh, lay, stmt=True))
    for op in ["add", "sub", "mul", "truediv", "eq", "iadd", "isub", "imul", "itruediv"]:
        out.append(op_case(op, "same_object", "xa", "xa", None, (2,)))
        out.append(op_case(op, "same_object", "xta", "xta", "offset temperature", (2,)))
    for tag, sa, sb, fault in POWVARS:
        for form in ["pow", "np.power", "ipow", "np.power(out=a)", "np.power(out=o)", "np.power(out=view of a)"]:
            out.append(pow_case(form, tag, sa, sb, fault, (2,)))
            if form != "pow":
                for sh, lay in lays(1, dims=(1,)):
                    out.append(pow_case(form, tag, sa, sb, fault, sh, lay))
    for op in UNOPS:
        for src in ["xa", "xta"]:
            for sh in shapes:
                out.append(unop_case(op, src, sh))
    # ---- ufuncs
    for n_uf, (name, arity, nout, ua, ub, kw, fault) in enumerate(UFUNCS):
        for of in OUT_FORMS:
            if of == "alias1" and (arity == 1 or ub in ("num",)):
                continue
            if of == "alias0" and ua in ("num",):
                continue
            if quick and fault is None and of in ("bareout", "wrongshape", "wrongshape_otherdim") and name not in ("add", "sqrt", "multiply"):
                continue
            if quick and fault is not None and of in ("bareout", "otherunit", "wrongshape", "wrongshape_otherunit", "wrongshape_otherdim") and name not in ("add@dim", "multiply@offset"):
                continue
            out.append(ufunc_case(name, arity, nout, ua, ub, kw, fault, of, (2,)))
        # out= a second view object over an input's memory / not C-contiguous / with where=; operands that are not C-contiguous
        second = [f for f, (posn, how) in ALIAS_FORMS.items() if posn < arity and (ua, ub)[posn] != "num"]
        extra = second + ["strided", "reversed", "fresh+where", "alias0+where", "view0+where", "strided+where", "otherunit+where"]
        # (no partially overlapping out= together with where=: NumPy itself then writes a temporary back over the whole window,
        # np.equal(x[1:3], y, out=x[2:4], where=[True, False]) changes x[3] on bare ndarrays)
        if quick:
            rots = [f for f in second if f[:-1] in ("subview", "flip", "shift", "relabel")]
            keep = {"view0", "view1", "strided", "view0+where"} | {rots[(n_uf + k) % len(rots)] for k in (0, 1)}
            keep |= {"fresh+where"} if fault is None else set()
            extra = [f for f in extra if f in keep]
        for of in extra:
            if ua == "num" and of.split("+")[0] in ("alias0",):
                continue
            out.append(ufunc_case(name, arity, nout, ua, ub, kw, fault, of, (2,)))
        for lay, forms in (("strided", ["none", "fresh", "alias0", "view0"]), ("rev", ["none", "alias0", "shift0"])):
            for of in (forms[n_uf % len(forms):][:1] if quick else forms):
                if ua == "num" and of != "none" and of != "fresh":
                    continue
                out.append(ufunc_case(name, arity, nout, ua, ub, kw, fault, of, (2,), layout=lay))
        if not quick and arity == 2:
            out.append(ufunc_case(name, arity, nout, ua, ub, kw, fault, "none", ()))
            out.append(ufunc_case(name, arity, nout, ua, ub, kw, fault, "fresh", ()))
    for (tag, f, tw, unit, kw) in METHODS:
        for of in ["none", "fresh", "otherunit", "wrongshape", "wrongshape_otherunit", "wrongshape_otherdim", "bareout"]:
            out.append(method_case(tag, f, tw, unit, kw, of))
        for of in (["transposed", "colstrided", "view0", "flip0", "shift0", "relabel0"] if "accumulate" in tag else ["strided", "reversed"]):
            out.append(method_case(tag, f, tw, unit, kw, of))
        for sh, lay in lays(1, dims=(2,)):
            out.append(method_case(tag, f, tw, unit, kw, "fresh", lay))
    # ---- reductions
    for (tag, f, has_out) in REDUCTIONS:
        for unit in ["xa", "xta"]:
            forms = ["none"] + (["fresh", "otherunit", "wrongshape", "wrongshape_otherunit", "wrongshape_otherdim", "bareout"] if has_out else [])
            if quick and unit == "xta":
                forms = forms[:2] + [x for x in forms if x == "wrongshape_otherunit"]
            for of in forms:
                out.append(reduction_case(tag, f, unit, of))
            # out= not C-contiguous / a second view on memory of the input; the input itself not C-contiguous
            if has_out:
                more = ["transposed", "colstrided", "view0", "flip0", "shift0", "relabel0"] if "cum" in tag else ["strided", "reversed", "row0"]
                if quick and unit == "xta":
                    more = more[:1]
                for of in more:
                    out.append(reduction_case(tag, f, unit, of))
            for sh, lay in lays(1, dims=(2,)):
                out.append(reduction_case(tag, f, unit, "fresh" if has_out and not (quick and unit == "xta") else "none", lay))
    # ---- array functions
    for (tag, f, ua, ub, sh, fault) in FUNCS:
        out.append(func_case(tag, f, ua, ub, sh, fault))
        for _, lay in lays(1, dims=(len(sh),)):
            out.append(func_case(tag, f, ua, ub, sh, fault, lay))
    for n_f, (tag, f, tw, ua, ub, sh, osh, fault) in enumerate(FUNCS_OUT):
        for of in ["fresh", "otherunit", "wrongshape", "wrongshape_otherunit", "wrongshape_otherdim", "bareout", "alias0"]:
            out.append(func_out_case(tag, f, tw, ua, ub, sh, osh, fault, of))
        # out= not C-contiguous (every one of the layouts, in both tiers), out= a second view on memory of an input, and
        # operands that are not C-contiguous
        for of in (["strided", "reversed"] if len(osh) == 1 else ["transposed", "colstrided", "strided", "reversed"]):
            out.append(func_out_case(tag, f, tw, ua, ub, sh, osh, fault, of))
        if osh == sh:
            second = ["view0", "subview0", "flip0", "shift0", "relabel0"] + (["view1", "shift1", "relabel1"] if ub else [])
            for of in ([second[0], second[1 + n_f % (len(second) - 1)]] if quick else second):
                out.append(func_out_case(tag, f, tw, ua, ub, sh, osh, fault, of))
        for _, lay in lays(1, dims=(len(sh),)):
            out.append(func_out_case(tag, f, tw, ua, ub, sh, osh, fault, "fresh", lay))
        for dt in (["int32"] if quick else ["int32", "int64", "int8", "uint16"]):
            out.append(func_out_typed_case(tag, f, tw, ua, ub, sh, osh, fault, dt, False))
            out.append(func_out_typed_case(tag, f, tw, ua, ub, sh, osh, fault, dt, True))
    for (tag, f, tw, oracle, ua, ub, sh, fault) in FUNCS_INPLACE:
        out.append(func_inplace_case(tag, f, tw, oracle, ua, ub, sh, fault))
        for _, lay in lays(2, dims=(len(sh),)):
            out.append(func_inplace_case(tag, f, tw, oracle, ua, ub, sh, fault, lay))
    # ---- item assignment
    for (tag, ua, vspec, fault) in SETVALS:
        for iname in INDEXES:
            if quick and iname in ("neg", "ellipsis") and fault is None:
                continue
            out.append(setitem_case(tag, ua, vspec, fault, iname))
            for _, lay in lays(1, dims=(1,)):
                out.append(setitem_case(tag, ua, vspec, fault, iname, lay))
    for vname in TYPED_SETVALS:
        for iname in ["int", "slice", "mask"]:
            out.append(typed_setitem_case(vname, iname))
    # ---- sequences of quantities stored by one call: unit pattern x container x index kind; every fault at EVERY position
    seq_idx, seq_cont, k = list(SEQ_INDEXES), list(SEQ_CONTAINERS), 0
    for uname in SEQ_UNITS:
        for cont in seq_cont:
            for iname in seq_idx:
                k += 1
                if quick and k % 5 not in (0, 2):
                    continue
                out.append(setitem_seq_case("setitem", uname, None, 0, iname, cont))
    for uname in ("same", "scaled"):
        out.append(setitem_seq_case("setitem", uname, None, 0, "all", "list", rows=True))
        out.append(setitem_seq_case("setitem", uname, None, 0, "ellipsis", "tuple", "colstrided", rows=True))
    for fault in SEQ_FAULTS:
        for pos in range(3):
            for iname in seq_idx:
                if pos >= SEQ_INDEXES[iname][1]:
                    continue
                for cont in seq_cont:
                    k += 1
                    if quick and k % 6 not in (0, 3):
                        continue
                    uname = ("same", "lead", "table", "scaled")[k % 4]
                    out.append(setitem_seq_case("setitem", uname, fault, pos, iname, cont))
            for _, lay in lays(1, dims=(1,)):
                k += 1
                out.append(setitem_seq_case("setitem", ("lead", "same", "table")[k % 3], fault, pos, seq_idx[k % 4], seq_cont[k % 2], lay))
        for pos in range(2):
            if quick and fault not in ("dimension mismatch", "bare number"):
                continue
            out.append(setitem_seq_case("setitem", ("same", "lead")[pos], fault, pos, "all", "list", rows=True))
    for cname in SEQ_CALLS:
        if cname == "setitem":
            continue
        for uname in ("same", "lead"):
            out.append(setitem_seq_case(cname, uname, None, 0, "all", "list"))
        for fault in (["dimension mismatch"] if quick else list(SEQ_FAULTS)):
            for pos in range(3):
                out.append(setitem_seq_case(cname, ("same", "lead", "table")[pos], fault, pos, "all", seq_cont[pos % 2]))
    # ---- Unit arithmetic
    for opname in list(UNIT_OPS) + list(UNIT_INPLACE):
        for (tag, su, sv) in UNIT_PAIRS:
            if quick and tag in ("em", "prefixed") and opname not in ("mul", "div", "get_base_equivalent(cgs)", "simplify", "copy"):
                continue
            out.append(unit_case(opname, tag, su, sv))
    # ---- copies
    for k, cname in enumerate(COPIES):
        if cname != "q.to_equivalent(same dims)":
            out.append(copy_case(cname, ["imul", "setall", "out", "fill", "iadd"][k % 5], "m", [(2,), (2, 2)][k % 2], ["c", "T"][k % 2], dtype="float64"))
        for ename in EDITS:
            if quick and ename in ("iadd", "fill", "convert_base") and cname not in ("q.copy()", "copy.deepcopy"):
                continue
            out.append(copy_case(cname, ename, "xa", (2,)))
        out.append(copy_case(cname, "convert", "xta", (2,)))
        for sh, lay in lays(1, n_thorough=3):
            out.append(copy_case(cname, "imul", "xa", sh, lay))
        if not quick:
            out.append(copy_case(cname, "imul", "xa", ()))
    # the argument-spelling axis of the copy routes x source layout, each followed by an in-place edit of the returned object
    unitless_edits, unit_edits = ["imul", "setitem", "out", "fill", "setall", "iadd"], ["imul", "convert", "out", "setitem", "convert_base", "iadd", "fill", "setall"]
    for k, cname in enumerate(COPY_FORMS):
        eds = unitless_edits if cname.startswith(_UNITLESS_COPY) else unit_edits
        srcs = [((2,), "c"), ((2, 2), "T"), ((2, 2), "c")] + ([] if quick else [((2,), "strided"), ((2, 2), "colstrided"), ((), "c"), ((2,), "rev")])
        if quick:
            srcs = [srcs[0], srcs[1 + k % 2]]
        for j, (sh, lay) in enumerate(srcs):
            ename = eds[(k + j) % len(eds)]
            if sh == () and ename in ("setitem", "setall"):
                ename = "imul"
            if len(sh) == 2 and ename == "setitem":
                ename = "setall"   # c[0] of a 2-d copy is a row
            out.append(copy_case(cname, ename, COPY_SRC.get(cname, "xa"), sh, lay))
        # the same route on a real float buffer (float-only branches of the copy routes)
        for j, dt in enumerate(["float64"] if quick else ["float64", "float32"]):
            sh, lay = [((2,), "c"), ((2, 2), "T"), ((2,), "strided")][(k + j) % 3]
            ename = unitless_edits[(k + j) % 5]
            out.append(copy_case(cname, "setall" if ename == "setitem" and len(sh) == 2 else ename, COPY_SRC.get(cname, "m"), sh, lay, dtype=dt))
        if (not quick or k % 4 == 0) and cname not in COPY_SRC:
            out.append(copy_case(cname, "imul" if cname.startswith(_UNITLESS_COPY) else "convert", "xta", (2,)))
    # ---- integer buffers (concrete typed data; symbolic unit scales wherever the call fails before arithmetic)
    for dt in (["int8", "int32", "uint16"] if quick else ["int8", "uint8", "int16", "int32", "int64", "uint16"]):
        one_byte = dt in ("int8", "uint8")
        # convert_to_units on 1-byte integers is refused (d21496e: and leaves the unit alone); wider integers are retyped in place
        out.append(int_convert_case(dt, "xa" if one_byte else "m", "xb" if one_byte else "cm", "convert_to_units"))
        out.append(int_convert_case(dt, "xa", "xnope", "convert_to_units(unknown)"))
        out.append(int_convert_case(dt, "xa", "xs", "convert_to_units(dim)"))
        out.append(int_convert_case(dt, "xa" if one_byte else "m", "-", "convert_to_base"))
        if dt not in ("int16", "uint16"):  # a float16 buffer cannot hold k_B: precision, C17
            out.append(int_convert_case(dt, "K", "keV", "convert_to_equivalent"))
        out.append(int_out_case(dt, "add", "xa", "xs", "xa", "dimension mismatch"))
        out.append(int_out_case(dt, "add", "m", "cm", "m", None))
        out.append(int_out_case(dt, "subtract", "m", "cm", "s", None))
        out.append(int_out_case(dt, "multiply", "xta", "xd", "xa", "offset temperature"))
        out.append(int_out_case(dt, "power", "xa", "xs", "xa", "non-dimensionless exponent"))
        out.append(int_aug_case(dt, "iadd", "m", "cm", None, False))
        out.append(int_aug_case(dt, "iadd", "xa", "xs", "dimension mismatch", True))
        out.append(int_aug_case(dt, "isub", "xa", "xs", "dimension mismatch", False))
        out.append(int_aug_case(dt, "imul", "m", "num", None, False))
        out.append(int_aug_case(dt, "imul", "degC", "num", "offset temperature", False))
        out.append(int_copying_case(dt, "in_units(table)", lambda q: q.in_units("cm"), "m"))
        out.append(int_copying_case(dt, "in_units(dim)", lambda q: q.in_units("xs"), "xa"))
        out.append(int_copying_case(dt, "to_equivalent", lambda q: q.to_equivalent("keV", "thermal"), "K"))
        out.append(int_copying_case(dt, "add", lambda q: q + q, "xa"))
        out.append(int_copying_case(dt, "copy", lambda q: q.copy(), "xa"))
        # integer buffers that are not C-contiguous
        for lay in (["strided"] if quick else LAY1):
            if quick and dt != "int32":
                continue
            out.append(int_convert_case(dt, "xa" if one_byte else "m", "xb" if one_byte else "cm", "convert_to_units", lay))
            out.append(int_convert_case(dt, "xa", "xs", "convert_to_units(dim)", lay))
            out.append(int_convert_case(dt, "xa" if one_byte else "m", "-", "convert_to_base", lay))
            out.append(int_out_case(dt, "add", "xa", "xs", "xa", "dimension mismatch", lay))
            out.append(int_out_case(dt, "add", "m", "cm", "m", None, lay))
            out.append(int_aug_case(dt, "iadd", "m", "cm", None, False, lay))
            out.append(int_aug_case(dt, "iadd", "xa", "xs", "dimension mismatch", True, lay))
    for unit in ["xa", "xta", "xd"]:
        for pw in [2, 0.5, -1, 1, 3, 0]:
            for form in ["pow", "ipow", "np.power(out=o)"]:
                out.append(float_pow_case(form, unit, pw))
    # ---- ufuncs NumPy has no object loop for (multi-output modf/divmod, copysign, isfinite): concrete doubles, symbolic unit scales
    for (name, arity, nout, ua, ub, fault) in FLOAT_UFUNCS:
        for of in ["none", "fresh", "otherunit", "bareout", "wrongshape", "wrongshape_otherunit", "alias0", "view0", "flip0", "shift0", "relabel0", "strided", "reversed"]:
            if quick and (name == "frexp@dim" or (name == "frexp" and of not in ("none", "fresh")) or of in ("otherunit", "flip0", "relabel0", "reversed")):
                continue
            out.append(float_ufunc_case(name, arity, nout, ua, ub, fault, of))
    # ---- bare ndarray operands next to quantities in scaled pure-number units (inputs, both positions, windows, real buffers)
    out += _barescale_cases(quick)
    # ---- histories of two and three calls in one path; read-only targets
    out += _history_cases(tier)
    ids = set()
    uniq = []
    for c in out:
        if c.id not in ids:
            ids.add(c.id)
            # exploration budget per case: the largest cases (2x2 windows, 512 paths) take ~15 s on a free core; on a machine shared
            # with other checks the default 120 s was hit. A truncated exploration is reported as inconclusive, never as a pass.
            c.budget_s = max(c.budget_s, 600.0)
            uniq.append(c)
    return uniq
