"""C04 - arithmetic results do not depend on the units the operands are written in.

One inductive step per operation: operands x@u0, y@u1 of ARBITRARY positive scales (custom registry rows whose scale is a
z3 real) go through the real operator / ufunc / in-place / out= code of unyt; the obligation is
    si(result) == op_R(x*s0, y*s1)      dims(result) == op_D(d0, d1)      units(result) == u0 for + and -
and 'the result unit agrees with its registry' (the invariant that makes the step inductive).
"""
import itertools
import math
import operator
from fractions import Fraction

import numpy as np

from .common import as_ufunc_global
from .common import (EXPONENTS, PREFIX, And, Case, Iff, Not, Or, band, call, check_names, close, dims_catalogue, elements,
                     exact_eq, ite, payload, vabs)
from symx.core import SymReal

LEVEL = "other"
MANIFEST = dict(
    category="other",
    text=("Bounded symbolic execution of the real arithmetic code (symx), one inductive step per operation: for every enumerated "
          "operation x call form x pair of operand unit shapes, z3 proves for ALL real operand values and ALL positive unit scales "
          "that the SI magnitude of the result is the mathematical operation applied to the operands' SI magnitudes, that its "
          "dimension is the one of dimensional analysis, that sums/differences carry the left operand's unit, and that the result "
          "unit agrees with its registry (so programs of any depth are covered by induction on the expression DAG; depth-2 programs "
          "are run as a sanity check). Bounded: operation list, unit shapes, payload extents <= 2; unit pairs that cancel PAIRWISE use "
          "table units (concrete scales, symbolic values); partly cancelling quotients/products (pairwise coefficient x a left-over "
          "group of derived and base units that is a pure number only as a whole) carry the group with symbolic scales; trigonometric "
          "functions also of angle units WITH AN OFFSET (symbolic scale of either sign and symbolic offset, lat, lon) over call forms x "
          "operand histories; every reduction form over operand rank 1-2 x axis argument (omitted, 0, 1, -1, None, tuples, keepdims, "
          "where=); concrete exponent arrays; the exponent of a power given as a quantity in a scaled dimensionless unit; arctan2 and copysign; "
          "one ufunc of every unit rule and every branch of the operand-rescale code over SHAPE PAIR (which operand is the smaller / the "
          "broadcast one, ranks 0-2, extent-1 axes) x OPERAND KIND (quantity, 0-d array, python list of quantities, strided view); "
          "rounding is outside."),
    design="DESIGN.md section 4 C04",
    technique="symbolic execution of the real Python code over z3 real terms; SMT (QF_NRA / mixed Int-Real with ToInt) obligations per path; counterexample replay")
EXPLANATION = (
    "The real unyt_array.__array_ufunc__ (unary, binary, reduce, accumulate, outer, out=), the cached unit rules (_multiply_units, "
    "_divide_units, _preserve_units, _difference_units, _power_unit, _sqrt_unit, _cbrt_unit, _square_unit, _reciprocal_unit, "
    "_apply_power_mapping), Unit.__mul__/__truediv__/__pow__/__eq__/simplify/_cancel_mul/as_coeff_unit, __pow__, __pos__, dot, the "
    "np.dot/np.clip handlers and the ndarray operator / augmented-assignment dunders are executed on quantities whose values and "
    "unit scales are z3 reals. Per path z3 decides pc & not(P) where P is: si(result) = op(si(x), si(y)) with op written "
    "independently in the harness (+ - * /, max/min, abs, neg, rational powers and roots via witness variables, hypot, "
    "floor/mod via ToInt, comparisons as booleans with near-ties inside unyt's 1e-9 same-unit band excused, sin/cos/tan as "
    "uninterpreted functions of the radian magnitude), dims(result) = dimensional analysis, units(result) = left operand's for "
    "+/-, and Unit(str(result.units), registry) has the same scale (well-formedness invariant => induction over programs). "
    "Unit expressions of * and / are taken through all three outcomes of Unit.simplify: nothing cancels, every same-dimension pair "
    "cancels into the numeric coefficient that is multiplied in at the end of __array_ufunc__, and PARTIAL cancellation - a pairwise "
    "coefficient (g against kg) next to a left-over group that is dimensionless only as a whole (xv*xs/xa with xv a velocity atom, "
    "xf*xs**2/(xm*xa), mJ/(cm*N)), whose scale the clean-up block after the ufunc call folds into the data; the group's scale is a "
    "z3 term (no two of its factors cancel, so nothing symbolic is written into a sympy expression), so both bookkeeping steps are "
    "decided together for all scales. "
    "Trigonometric functions are uninterpreted for the solver, so 'the value is the function of the radian magnitude' is decided on the "
    "ARGUMENT the real code hands to sin/cos/tan: it must lie within the 1e-6 band of scale*(x - offset), the oracle's radian reading "
    "of the operand - for angle units with an offset (user-defined: scale of either sign and offset are z3 reals; lat and lon from "
    "their definition) as for offset-free ones, for an operand created in the unit, created with a Unit object, re-expressed into "
    "it with .to / convert_to_units from another angle unit, taken as an element or a view of an array, copied, and inside depth-2 "
    "programs (c*sin(q)+d, sin(q+b) ...). Reductions: ufunc.reduce/.accumulate/.reduceat of + - * / max min hypot and sum, prod, "
    "cumsum, cumprod, max, min (methods and np.*) run on operands of rank 1 and 2 (extents 2 and 3) with every legal axis argument; the "
    "oracle is NumPy's own reduction of the bare SI magnitudes and, for the dimension, the number of elements each output combines. "
    "arctan2 is uninterpreted for the solver and invariant under a common positive factor only: the obligation is that the argument pair "
    "the real code applies it to is a positive multiple of the pair of SI magnitudes (t0*Y = t1*X with matching signs). copysign (no "
    "object-dtype loop in NumPy) runs through a stand-in ufunc like divmod. Which operand the rescale code converts is a free choice of "
    "the implementation that must not show: one ufunc of every unit rule (add, subtract, maximum, hypot, remainder, floor_divide, less, "
    "equal, arctan2, copysign, multiply, divide) is walked over pairs of operand shapes in which the left, the right or both operands are "
    "broadcast (() (1,) (2,) (2,1) (1,2) (2,2)) and over what object carries the operand (unyt_quantity, 0-d unyt_array, a python list of "
    "quantities read by _coerce_iterable_units, a strided view of a longer buffer), values and unit scales symbolic as everywhere. The "
    "exponent of a power is an operand too: a pure number written as 200 percent or 0.002 km/m must act as the exponent 2 (or be refused)."
)
BOUNDS = {
    "quick": "ops {+ - * / (operator, ufunc, in-place, out=), true_divide, maximum/minimum/fmax/fmin, hypot, remainder/mod/fmod/floor_divide/"
             "divmod (scalar payload), 6 comparisons, negative/absolute/fabs/positive/conjugate, sqrt/cbrt/square/reciprocal, power with "
             "the 13 rational exponents of E, add/multiply reduce/accumulate/outer and sum/prod/cumsum (methods and np.*), dot/matmul/"
             "inner/vdot up to 2x2 @ 2, sin/cos/tan of angle units (offset-free: symbolic, prefixed, radian/degree/arcmin, compound; WITH AN "
             "OFFSET: atom xgo with symbolic nonzero scale and symbolic offset, lat, lon) x call forms {ufunc, out=ndarray, out=quantity} x "
             "operand history {created from a string / with a Unit object, .to() from a symbolic offset-free angle / from degree, "
             "convert_to_units in place, element of an array, view of an array, copy} x shapes (), (2,), (2,2) [quick: all forms for the "
             "plain history, one function per history and unit], 5 depth-2 programs around them (c*sin(q)+d, c*tan(q), sin(q+b), cos(q-b), "
             "sin(q)*cos(q)); REDUCTION FORMS x RANK x AXIS: {add, multiply, divide, maximum}.{reduce, accumulate, reduceat} and sum/prod/"
             "np.prod/cumsum/np.cumprod/max on shapes (2,) [(3,) for reduceat, indices [0,1]] and (2,3) with axis omitted / 0 / 1 / -1 / "
             "None / (0,) / (0,1) / (1,) where NumPy accepts the call, keepdims, a where= mask [T,F,T]; power with a concrete exponent "
             "ARRAY [2,2] / [2,3] on a base {kxa, km/m} of rank 0 and 1; np.clip, 10 depth-2 programs; arctan2 {ufunc, out=} over 11 same-dimension unit pairs "
             "(symbolic, prefixed, compound, table, partly cancelling, bare), same object, two registries, registry.modify; copysign {ufunc, out=} "
             "over 5 pairs of equal and different dimensions; SHAPE PAIR x OPERAND KIND: {add, subtract, maximum, hypot, less, equal, arctan2, "
             "copysign, multiply, divide} x shape pairs {(2,)~(), ()~(2,), (2,)~(2,), (1,)~(2,), (2,)~(1,), (2,)~(2,2), (2,1)~(1,2), ()~(2,2)} + "
             "kinds {0-d array left/right/both, list of quantities left/right against array and scalar, strided view left/right against array "
             "and scalar} (21 combinations; floor_divide on those with <= 2 result elements, remainder on those with 1), unit pair {xa~xb "
             "symbolic, km~m} and call form rotating over the combinations [thorough: every pair x form, + minimum, fmod, >=, !=]; power with "
             "the exponent a QUANTITY (2, 1/2 written in dimensionless / percent / km/m; quantity and 0-d array; base rank 0 and 1)}; operand unit shapes {atomic, k/m-"
             "prefixed, ua*ub, ua/ub, ua**2 with symbolic scales; table pairs that cancel in products: km~m, m~cm, hr~min, km/hr~m/s, "
             "km/m, cm**2~1/m ... with concrete scales and symbolic values; PARTLY CANCELLING pairs (atoms of derived dimension xv "
             "velocity, xf force, xj energy with symbolic scales, and table units N, dyn, J, mJ, erg, W, Pa, mile, mph): 16 quotient pairs "
             "with symbolic group scale {group only: xv~xa/xs, xf~xm*xa/xs**2, xj~xf*xa; coefficient x group: xv*g~kg*xa/xs, "
             "xv*g**2~kg**2*xa/xs, xj/hr~xf*xa/min; coefficient inside one operand: xv*g/kg~xa/xs; group x residual dimension: "
             "xv*g*xi~kg*xa/xs; the group as one operand: xv*xs/xa~xp, xm~xv*xs/xa; both operand orders} + 9 table quotients "
             "(mJ/cm**2~N/m, g*W*hr~kg*J, J/cm~N, N~kg*m/s**2, erg/cm**3~Pa ...) in all four call forms of divide, true_divide, "
             "divide.outer, shapes ()/(2,) with broadcasting for four of them; 11 product pairs of reciprocal dimensions (xv~xs/xa, "
             "xv*g~xs/kg/xa, mJ/cm**2~m/N ...) in all forms of multiply, multiply.outer, dot/matmul; the same pairs as same-dimension "
             "operands of + - max hypot < ==, the mod family and divmod; 3 depth-2 programs over them; bare numbers; SAME SPELLING WITH DIFFERENT SCALE: the same "
             "unit names in two registries with independent symbolic scales, and one registry before/after the real registry.modify, "
             "for the additive family, comparisons, max/min, hypot, mod family in all four call forms}; payload shapes (), (2,), (2,2) with "
             "broadcasting; dimension families length, mass, time, current, angle, scaled-dimensionless, offset-free temperature; a "
             "selection of op x form x unit-pair x shape combinations",
    "thorough": "same ops; every op x every form x every listed unit pair (9 same-spelling shapes incl. prefixed/compound/angle/temperature) x payload shapes (), (2,)~(), ()~(2,), (2,)~(2,) and selected "
                "(2,2); +, -, sqrt swept over every dimension found in the registry at run time and *, / over every ordered pair of them "
                "(except pairs whose product/quotient is dimensionless: cancellation with symbolic scales); every partly cancelling "
                "pair x every form of divide/true_divide/multiply x shapes (), (2,)~(), ()~(2,), (2,)~(2,), selected (2,2), .outer of all of "
                "them; additive/comparison/mod families and divmod over the 7 derived~base spellings; trigonometry: every function x form x history x "
                "{xgo, lat, lon} x shapes (), (2,) plus (2,2), and the offset-free units through every history; reduction forms: all ten "
                "ufuncs {add subtract maximum minimum fmax fmin hypot multiply divide true_divide} x three methods x both ranks x every "
                "legal axis argument on kxa (reduceat of the others than add/multiply: axis omitted/0/1), add/multiply/divide reduce and "
                "accumulate of rank 2 also on km/m and xa/xs, twelve function forms; exponent arrays [2,2] [3,3] [1/2,1/2] [-1,-1] [2,3] [2] on "
                "{kxa, km/m, xp, xa/xs}; arctan2/copysign over every listed pair; shape pair x operand kind: sixteen ufuncs x 21 combinations x "
                "three unit pairs (xa~xb, km~m, xa/xs~xb/xt) x every call form; quantity exponents {2, 1/2, -1} x {dimensionless, percent, km/m, cm/m} x {kxa, km/m, xa/xs}",
}
OUTSIDE = ("IEEE rounding/overflow/nan (A1); integer and complex payloads (C17); ARITHMETIC on units with an offset (a point plus a point, "
           "the negative or a multiple of a point, the order of two points: C08 decides the point/difference semantics for temperature; "
           "only the trigonometric functions of offset angles, and a point shifted by an offset-free angle inside two programs, are "
           "claimed here); SI-prefixed and compound units built on an offset unit (klat, lat*km/m: what the prefix or the product means "
           "is C03's/C05's question - unyt drops the offset there); where= masks other than on reduce of add/multiply of rank <= 2; "
           "max/min over all six elements only for the atomic unit (orderings); floor_divide/remainder reductions; remainder/mod/fmod with a "
           "broadcast array operand of more than one element (mixed Int/Real obligations of two floors do not finish reliably; their operands "
           "go through the additive family's rescale code, which is walked over every shape pair and kind); lists of quantities in DIFFERENT units (C16); "
           "heaviside, nextafter, ldexp, logical_and/or/xor (not arithmetic / not scale-covariant by definition); exp/log/hyperbolic/non-angle "
           "trig, logaddexp, rounding family, frexp/modf/spacing, floor-division of different dimensions (as the property says); "
           "cancellation of same-dimension unit factors with SYMBOLIC scales (sympy cannot hold a z3 term: those pairs use table units, "
           "a partly cancelling pair has its COEFFICIENT pair from the table and on a dimension that no symbolic atom of the pair has - "
           "the left-over group is symbolic, the pairwise coefficient is one of 1e-3, 1e-6, 1/60, 100 ...; "
           "and floor_divide/divmod of two differently spelled symbolic-scale units assume the scales more than 1e-3 apart; the registry.modify variant uses atomic units only: stale prefixed/compound strings after modify are C12's); power with "
           "SYMBOLIC exponents or quantity-typed exponent ARRAYS of more than one element (concrete exponent arrays of extent <= 2 and scalar quantity exponents with a concrete number in a table unit are walked); roots of negative values; matmul beyond 2x2; (2,2)@(2,2) with inexact table coefficients; the "
           "ndarray.clip method, multiply/divide.accumulate, cumprod and add/subtract/maximum/minimum/hypot.reduceat (all raise for every "
           "input on this tree; np.clip with mixed units raises - a refusal is not a wrong number). A bare number is read as a dimensionless quantity: `1 + x%` coming back as 'dimensionless' "
           "is not counted against the left-most-unit clause. Registry identity of result units (C13).")
ASSUMPTIONS = [
    "C04: np.divmod has no object-dtype loop; in symbolic mode the ufunc object handed to the real unyt_array.__array_ufunc__ is a "
    "stand-in equal and hash-equal to np.divmod whose call applies SymReal.__divmod__ element-wise (plain replays use np.divmod / divmod())",
    "C04: np.copysign has no object-dtype loop either; the same kind of stand-in (equal and hash-equal to np.copysign, applies |x| with the "
    "sign of y element-wise) is handed to the real __array_ufunc__ in symbolic mode; plain replays use np.copysign",
    "C04: arctan2 is an uninterpreted function; 'the result is the angle of the point of SI magnitudes' is stated on the argument pair of the "
    "application the real code makes (a positive multiple of (X, Y) within 1e-6), plain replays compare the values",
    "C04: obligations over floors are first tried on a sound over-approximation (each ToReal(ToInt(a)) replaced by a fresh real k with "
    "k <= a < k+1; the axioms are a conservative extension of the path condition); a counter-model is always one of the exact obligation",
    "C04: discontinuous operations are judged by their characterisation with an admissible band of 1e-8 relative around ties "
    "(quotient within the band of an integer may be floored either way; comparisons of SI magnitudes closer than 1e-8 relative may go either way)",
    "C04: sin/cos/tan are uninterpreted functions (A6); 'the result is the function of the radian magnitude up to rounding' is stated on the "
    "argument term the real code applies the function to (within 1e-6 relative to the addends scale*x and scale*offset of the oracle's "
    "radian magnitude), not on the function values; plain replays compare the values (1e-6 relative + 1e-9)",
]

# ------------------------------------------------------------------------------------------------ units of the harness

# harness atoms: name -> attribute of unyt.dimensions (all rows are prefixable; scales are symbols <name>_s > 0)
ATOMS = {"xa": "length", "xb": "length", "xc": "length", "xs": "time", "xt": "time", "xm": "mass", "xn": "mass",
         "xi": "current_mks", "xg": "angle", "xh": "angle", "xp": "dimensionless", "xq": "dimensionless",
         "xtk": "temperature", "xtl": "temperature", "xd": None, "xe": None,
         # atoms of DERIVED dimensions: a quotient like xv/(xa/xs) has no pair of factors that cancels, the group xv*xs/xa is
         # dimensionless only as a whole (and its scale is a z3 term, because no factor is written into the sympy expression)
         "xv": "velocity", "xf": "force", "xj": "energy"}
NAMES = list(ATOMS)

# independent table of the concrete units used where unit factors cancel (exact definitions)
TABLE = {"m": (1.0, "length"), "cm": (0.01, "length"), "km": (1000.0, "length"), "mm": (0.001, "length"),
         "s": (1.0, "time"), "min": (60.0, "time"), "hr": (3600.0, "time"), "ms": (0.001, "time"),
         "kg": (1.0, "mass"), "g": (0.001, "mass"),
         # named derived units (SI definitions; mile = 1609.344 m exactly): spelled next to base units they give unit expressions
         # that cancel only PARTLY (N against kg*m/s**2: nothing cancels pairwise, the group is a pure number only as a whole)
         "N": (1.0, "force"), "dyn": (1e-5, "force"), "J": (1.0, "energy"), "mJ": (1e-3, "energy"), "erg": (1e-7, "energy"),
         "W": (1.0, "power"), "Pa": (1.0, "pressure"), "mile": (1609.344, "length"), "mph": (1609.344 / 3600.0, "velocity"),
         "radian": (1.0, "angle"), "degree": (math.pi / 180.0, "angle"), "arcmin": (math.pi / 10800.0, "angle"),
         "dimensionless": (1.0, "dimensionless"), "percent": (0.01, "dimensionless")}


def F(a, b=1):
    return Fraction(a, b)


class Spec:
    """a unit as a product of atom**exponent; atoms are harness symbols (symbolic scale), prefixed harness symbols or
    table units. The oracle scale/dimension is computed here, independently of unyt."""
    bare = False

    def __init__(self, *factors, text=None):
        self.factors = [(a, Fraction(e)) for a, e in factors]
        self.text = text or self.render()

    def render(self):
        num, den = [], []
        for a, e in self.factors:
            if e == 1:
                num.append(a)
            elif e == -1:
                den.append(a)
            elif e.denominator == 1:
                num.append(f"{a}**{e.numerator}" if e > 0 else f"{a}**({e.numerator})")
            else:
                num.append(f"{a}**({e.numerator}/{e.denominator})")
        s = "*".join(num) if num else "1"
        for d in den:
            s += "/" + d
        return s

    def atoms(self):
        return [a for a, _ in self.factors]

    def build(self, ctx, reg, dims_override=None, sfx=""):
        """register the harness atoms in reg; -> (unit string, oracle scale, oracle dims). sfx: suffix of the scale SYMBOLS
        (the same unit name in a second registry / after registry.modify gets its own scale symbol)"""
        D = ctx.mods["unyt"].dimensions
        scale, dims = 1.0, D.dimensionless
        for a, e in self.factors:
            s, d = atom_scale(ctx, reg, a, dims_override, sfx)
            scale = scale * ppow(s, e)
            dims = dims * d ** _sym_exp(e)
        return self.text, scale, dims

    def symbolic(self):
        return any(a not in TABLE for a in self.atoms())

    def quantity(self, ctx, reg, name, shape, **kw):
        """-> (operand object, payload symbols, scale, dims)"""
        u, s, d = self.build(ctx, reg, kw.pop("dims_override", None), kw.pop("sfx", ""))
        v = ctx.reals(name, shape, **kw)
        if self.bare:
            return v, v, s, d
        return ctx.quantity(v, u, reg), v, s, d


class _Bare(Spec):
    bare = True

    def __init__(self):
        super().__init__(text="bare")


BARE = _Bare()


def U_(text):
    """'xa*xs', 'xa/xs', 'xa**2', 'km/hr', 'xm*km/m' -> Spec (a tiny reader of the harness' own notation)"""
    fs, parts = [], []
    # split on single '*' and '/', keep '**'
    i, cur, op = 0, "", "*"
    while i < len(text):
        if text[i:i + 2] == "**":
            cur += "**"
            i += 2
            continue
        if text[i] in "*/":
            parts.append((op, cur))
            op, cur = text[i], ""
        else:
            cur += text[i]
        i += 1
    parts.append((op, cur))
    for op, p in parts:
        if p == "1":
            continue
        if "**" in p:
            a, e = p.split("**")
            e = Fraction(e.strip("()"))
        else:
            a, e = p, Fraction(1)
        fs.append((a, e if op == "*" else -e))
    return Spec(*fs, text=text)


def _sym_exp(e):
    import sympy
    return sympy.Rational(e.numerator, e.denominator)


def atom_scale(ctx, reg, a, dims_override=None, sfx=""):
    D = ctx.mods["unyt"].dimensions
    if a in TABLE:
        return TABLE[a][0], getattr(D, TABLE[a][1])
    pre = ""
    base = a
    if a not in ATOMS:
        for p in ("k", "m", "M", "c", "u"):
            if a.startswith(p) and a[len(p):] in ATOMS:
                pre, base = p, a[len(p):]
                break
        else:
            raise KeyError(a)
    if dims_override and base in dims_override:
        d = dims_override[base]
    else:
        d = getattr(D, ATOMS[base])
    s = ctx.real(base + sfx + "_s", pos=True)
    if base not in reg.lut:
        ctx.add_row(reg, base, d, s, 0.0, prefixable=True)
    return (s * PREFIX[pre] if pre else s), d


# ------------------------------------------------------------------------------------------------ polymorphic mathematics (the oracle)

def is_sym(v):
    return isinstance(v, SymReal)


def ppow(v, e):
    e = Fraction(e)
    if e == 1:
        return v
    if is_sym(v):
        return v ** e
    if e.denominator == 1:
        return float(v) ** int(e)
    if e == Fraction(1, 3):
        return math.cbrt(v)
    return float(v) ** float(e)


def pmax(a, b):
    return ite(a >= b, a, b)


def pmin(a, b):
    return ite(a <= b, a, b)


def pfloor(v):
    return v.floor() if is_sym(v) else float(math.floor(v))


def ptrunc(v):
    return v.trunc() if is_sym(v) else float(math.trunc(v))


def phypot(a, b):
    return ppow(a * a + b * b, F(1, 2))


def ptrig(name, v):
    return getattr(v, name)() if is_sym(v) else getattr(math, name)(v)


def trig_ok(fn, g, S, terms=()):
    """g: what the library returned for fn of an angle whose radian magnitude is S (oracle), terms: the addends the library may have
    formed S from (x*s, o*s ...). sin/cos/tan are uninterpreted for the solver, so 'g is fn of the radian magnitude up to rounding'
    is stated on the ARGUMENT: g must be the application of fn to a term within the 1e-6 band of S (a float product like
    scale*offset is rounded once by the library and not at all by the oracle: two different rationals, on which an uninterpreted
    function may take any two values). Plain runs compare the values."""
    if is_sym(g) and is_sym(S):
        import z3
        w = ptrig(fn, S)
        t = g.t
        if z3.is_app(t) and t.num_args() == 1 and t.decl().eq(w.t.decl()):
            return close(SymReal(t.arg(0)), S, extra=band(*terms) if terms else 0)
        return close(g, w, extra=1e-9)
    return close(g, ptrig(fn, S), extra=1e-9)


def trig_rewrite(got, expected):
    """the same for a result that CONTAINS applications of trigonometric functions (c*sin(q)+d): expected = {fn: (S, terms)}.
    -> (every application of fn inside got has its argument within the band of S, got with each of them replaced by the oracle's
    application fn(S)); the arithmetic around the applications is then compared as usual. Plain runs: (True, got)."""
    if not is_sym(got):
        return True, got
    import z3
    decls = {fn: ptrig(fn, S) for fn, (S, _) in expected.items() if is_sym(S)}
    conds, subs, seen = [], [], set()

    def walk(t):
        if t.get_id() in seen or not z3.is_app(t):
            return
        seen.add(t.get_id())
        for fn, w in decls.items():
            if t.num_args() == 1 and t.decl().eq(w.t.decl()):
                S, terms = expected[fn]
                conds.append(close(SymReal(t.arg(0)), S, extra=band(*terms) if terms else 0))
                subs.append((t, w.t))
        for c in t.children():
            walk(c)
    walk(got.t)
    new = z3.substitute(got.t, *subs) if subs else got.t
    return And(*conds) if conds else True, SymReal(new)


def atan2_ok(g, X, Y):
    """g: what the library returned for arctan2 of operands whose SI magnitudes are X (first) and Y (second). arctan2 is uninterpreted
    for the solver and invariant under a common POSITIVE factor of its arguments only, so the obligation is stated on the argument
    pair (t0, t1) the real code applies it to: it must be a positive multiple of (X, Y) up to rounding - t0*Y = t1*X, t0 has the sign
    of X, t1 the sign of Y, neither vanishes unless its magnitude does. Plain runs compare the values."""
    if is_sym(g) and (is_sym(X) or is_sym(Y)):
        import z3
        from symx.core import lift
        w = (X if is_sym(X) else SymReal(lift(X))).arctan2(Y)
        t = z3.simplify(g.t)              # the result unit's scale 1 was multiplied in: f(a, b)*1 -> f(a, b)
        if z3.is_app(t) and t.num_args() == 2 and t.decl().eq(w.t.decl()):
            t0, t1 = SymReal(t.arg(0)), SymReal(t.arg(1))
            return And(close(t0 * Y, t1 * X, extra=0), t0 * X >= 0, t1 * Y >= 0,
                       Or(exact_eq(X, 0.0), Not(exact_eq(t0, 0.0))), Or(exact_eq(Y, 0.0), Not(exact_eq(t1, 0.0))))
        return close(g, w, extra=1e-9)
    return close(g, math.atan2(X, Y), extra=1e-9)


def bval(b):
    """a comparison result element -> python bool / SymBool"""
    if isinstance(b, (bool, np.bool_)):
        return bool(b)
    return b


# discontinuous operations (floor_divide, remainder/mod, fmod, divmod). The oracle is the CHARACTERISATION of the operation,
# with the rounding band the property grants (a quotient within EPS of an integer may be floored either way: IEEE rounding of the
# unit scales, and unyt's deliberate 'same unit up to 1e-9' shortcut):
#   q = floor(X/Y)   <=>  q integer            and  X/Y - 1 <  q  <= X/Y
#   G = X mod Y      <=>  (X-G)/Y integer      and  0 <= G/Y < 1          (fmod: G has the sign of X, |G| < |Y|)
# 'integer' is stated as 'equal to one of the integers the computation itself obtained by flooring' (the ToReal(ToInt(.))
# sub-terms of the result), so the obligation needs no second floor of a different non-linear term, which z3 cannot relate.
EPS = Fraction(1, 10**8)


def int_terms(vals):
    """the integer-valued sub-terms ToReal(ToInt(.)) of symbolic values"""
    import z3
    acc = {}

    def walk(t):
        if z3.is_app(t):
            if t.decl().kind() == z3.Z3_OP_TO_REAL and z3.is_app(t.arg(0)) and t.arg(0).decl().kind() == z3.Z3_OP_TO_INT:
                acc[t.get_id()] = t
            for c in t.children():
                walk(c)
    for v in vals:
        if is_sym(v):
            walk(v.t)
    return [SymReal(t) for t in acc.values()]


def near_integer(n, sources, tol, strong):
    """strong: n is (within tol) one of the integers the computation obtained by flooring - provable after floor abstraction;
    not strong: n is within tol of the nearest integer (what the plain replay evaluates; implied by the strong form)"""
    if is_sym(n):
        if strong:
            ks = int_terms(list(sources) + [n])
            cands = [vabs(n - k) <= tol for k in ks] + [vabs(n + k) <= tol for k in ks]
            return Or(*cands) if cands else False
        return vabs(n - (n + 0.5).floor()) <= tol
    return abs(n - round(n)) <= tol


def floor_ok(g, X, Y, sources, strong=False):
    r = X / Y
    tol = (vabs(r) + 1) * float(EPS)
    return And(near_integer(g, sources, tol, strong), g >= r - 1 - tol, g <= r + tol)


def mod_ok(G, X, Y, sources, trunc=False, strong=False):
    r = X / Y
    tol = (vabs(r) + 1) * float(EPS)
    e = float(EPS)
    a = near_integer((X - G) / Y, sources, tol, strong)
    if trunc:
        return And(a, Or(G * X >= 0, vabs(G) <= vabs(Y) * e), vabs(G) <= vabs(Y) * (1 + e))
    return And(a, G / Y >= -e, G / Y <= 1 + e)


def require_floor(ctx, label, condf, **info):
    """require() for an obligation over floors; condf(strong) builds it (see near_integer). z3 decides mixed Int/Real non-linear
    queries unreliably, so the proof is first tried on a sound over-approximation of the strong form: every ToReal(ToInt(a)) is
    replaced by a fresh REAL k with the axioms k <= a < k+1 (integrality dropped) - pure QF_NRA. If that is unsat, the abstracted
    obligation (plus the axioms, a conservative extension of the path condition: such a k exists for every value of the other
    symbols) is handed to the engine, whose own verdict is the deciding step. Otherwise the exact obligation is handed over, so
    that any model is a model of the real semantics and replays on plain unyt."""
    from symx.core import SymBool
    exact = condf(False)
    if not (ctx.symbolic and not ctx.pinned and isinstance(exact, SymBool)):
        return ctx.require(label, exact, **info)
    import z3
    cond = condf(True)
    acc = {}

    def walk(t):
        if z3.is_app(t):
            if t.decl().kind() == z3.Z3_OP_TO_REAL and z3.is_app(t.arg(0)) and t.arg(0).decl().kind() == z3.Z3_OP_TO_INT:
                acc[t.get_id()] = t
            for c in t.children():
                walk(c)
    if isinstance(cond, SymBool):
        walk(cond.t)
    if not acc:
        return ctx.require(label, exact, **info)
    items = sorted(acc.values(), key=lambda t: len(t.sexpr()))        # inner floors first
    n0 = ctx.notes.get("floor_consts", 0)
    ctx.notes["floor_consts"] = n0 + len(items)
    subs, axioms = [], []
    for i, t in enumerate(items):
        k = z3.Real(f"floor!{n0 + i}")
        arg = t.arg(0).arg(0)
        for a, kk in reversed(subs):
            arg = z3.substitute(arg, (a, kk))
        axioms += [k <= arg, arg < k + 1]
        subs.append((t, k))
    absf = cond.t
    for a, kk in reversed(subs):
        absf = z3.substitute(absf, (a, kk))
    s = z3.Solver()
    s.set("timeout", 5000)
    s.add(*ctx.ex.pc, *axioms, z3.Not(absf))
    r = s.check()
    if r == z3.unsat:
        for ax in axioms:
            ctx.assume(SymBool(ax))
        return ctx.require(label, SymBool(absf), **info)
    # not proved: look for a point where the EXACT obligation fails (z3 finds models of nested floors unreliably, so candidate
    # points are taken from models of the abstraction and checked by ground evaluation). The obligation handed over is then the
    # exact one restricted to that point - a consequence of the exact obligation, so its violation is a violation.
    syms = [sym.t for _, (sym, _) in ctx.symbols.items()]
    s.set("timeout", 2000)
    for attempt in range(12):
        if r != z3.sat:
            break
        m = s.model()
        vals = [(t, m.eval(t, model_completion=True)) for t in syms]
        if all(z3.is_rational_value(v) for _, v in vals):
            ground = z3.simplify(z3.substitute(exact.t, *vals))
            pcg = [z3.simplify(z3.substitute(c, *vals)) for c in ctx.ex.pc]
            if z3.is_false(ground) and not any(z3.is_false(c) for c in pcg):
                at_point = z3.And(*[t == v for t, v in vals])
                return ctx.require(label, SymBool(z3.Or(exact.t, z3.Not(at_point))), **info)
        s.add(z3.Or(*[z3.Or(t >= v + z3.RealVal("1/3"), t <= v - z3.RealVal("1/3")) for t, v in vals
                      if z3.is_rational_value(v) and not str(t).endswith("_s")]))
        r = s.check()
    return ctx.require(label, exact, **info)


# ------------------------------------------------------------------------------------------------ result inspection

def si_of(r):
    """SI magnitudes of a result (quantity -> value*scale, bare -> value) as a flat list"""
    if hasattr(r, "units") and hasattr(r, "d"):
        s = r.units.base_value
        return [v * s for v in elements(r.d)]
    return elements(r)


def dims_of(ctx, r):
    if hasattr(r, "units"):
        return r.units.dimensions
    return ctx.mods["unyt"].dimensions.dimensionless


def same_dims(d0, d1):
    return bool(d0 == d1) or bool(d0 / d1 == 1)


def wellformed(ctx, r, reg):
    """the invariant of the induction: the unit of a result means what its registry says its expression means
    (no forgotten coefficient, offset 0): re-reading str(units) in the registry gives the same scale and dimension"""
    if not hasattr(r, "units"):
        return True
    u = r.units
    Unit = ctx.mods["unyt"].Unit
    v = Unit(str(u), registry=reg)
    return And(close(v.base_value, u.base_value), same_dims(v.dimensions, u.dimensions), exact_eq(u.base_offset, 0.0))


def unit_same(u, v):
    return And(str(u) == str(v), same_dims(u.dimensions, v.dimensions), exact_eq(u.base_value, v.base_value))


def shape_tag(sh):
    return "x".join(map(str, sh)) or "0"


def bcast(xs, sh_from, sh_to):
    """flat list of the elements of an array of shape sh_from broadcast to sh_to"""
    a = np.empty(sh_from, dtype=object)
    if sh_from == ():
        a[()] = xs[0]
    else:
        a.ravel()[:] = xs
    return list(np.broadcast_to(a, sh_to).ravel())


def out_quantity(ctx, reg, shape):
    """a fresh quantity to be used as out=: unit xc (a length with its own symbolic scale), zeros"""
    u, _, _ = U_("xc").build(ctx, reg)
    return ctx.quantity(ctx.const_array(np.zeros(shape)), u, reg)


def si_array(v, s):
    """bare array of SI magnitudes of payload v (object array in symbolic mode, float array otherwise)"""
    return v * s


# ------------------------------------------------------------------------------------------------ binary operations

class Bin:
    def __init__(self, name, family, R, op=None, iop=None, ufunc=None, unit_left=False, D=None, discontinuous=False,
                 ynonzero=False, bare_result=False, si_check=None):
        self.name, self.family, self.R, self.op, self.iop = name, family, R, op, iop
        self.si_check = si_check
        self.standin = None            # symbolic-mode stand-in for a ufunc without an object-dtype loop (see _ObjBinary)
        self.ufunc = ufunc or name
        self.unit_left, self.D, self.discontinuous, self.ynonzero, self.bare_result = unit_left, D, discontinuous, ynonzero, bare_result

    def forms(self):
        return [f for f in FORMS if (f != "op" or self.op) and (f != "iop" or self.iop)]


def _d_left(d0, d1):
    return d0


def _d_mul(d0, d1):
    return d0 * d1


def _d_div(d0, d1):
    return d0 / d1


def _d_none(d0, d1):
    return d0 / d0


BIN = {b.name: b for b in [
    Bin("add", "add", lambda a, b: a + b, operator.add, operator.iadd, unit_left=True, D=_d_left),
    Bin("subtract", "add", lambda a, b: a - b, operator.sub, operator.isub, unit_left=True, D=_d_left),
    Bin("maximum", "add", pmax, D=_d_left, unit_left=True),
    Bin("minimum", "add", pmin, D=_d_left, unit_left=True),
    Bin("fmax", "add", pmax, D=_d_left, unit_left=True),
    Bin("fmin", "add", pmin, D=_d_left, unit_left=True),
    # hypot by its characterisation g >= 0, g**2 == X**2 + Y**2 (one root witness less for z3 than comparing two roots)
    Bin("hypot", "add", phypot, D=_d_left, unit_left=True,
        si_check=lambda g, X, Y: And(g >= 0, close(g * g, X * X + Y * Y, tol=Fraction(2, 10**6)))),
    Bin("multiply", "mul", lambda a, b: a * b, operator.mul, operator.imul, D=_d_mul),
    Bin("divide", "mul", lambda a, b: a / b, operator.truediv, operator.itruediv, D=_d_div, ynonzero=True),
    Bin("true_divide", "mul", lambda a, b: a / b, D=_d_div, ynonzero=True),
    Bin("remainder", "mod", pfloor, operator.mod, operator.imod, D=_d_left, unit_left=True, discontinuous=True, ynonzero=True),
    Bin("mod", "mod", pfloor, D=_d_left, unit_left=True, discontinuous=True, ynonzero=True),
    Bin("fmod", "mod", ptrunc, D=_d_left, unit_left=True, discontinuous=True, ynonzero=True),
    Bin("floor_divide", "floordiv", pfloor, operator.floordiv, operator.ifloordiv, D=_d_none, discontinuous=True, ynonzero=True),
    Bin("less", "cmp", lambda a, b: a < b, operator.lt, bare_result=True),
    Bin("less_equal", "cmp", lambda a, b: a <= b, operator.le, bare_result=True),
    Bin("greater", "cmp", lambda a, b: a > b, operator.gt, bare_result=True),
    Bin("greater_equal", "cmp", lambda a, b: a >= b, operator.ge, bare_result=True),
    Bin("equal", "cmp", lambda a, b: exact_eq(a, b), operator.eq, bare_result=True),
    Bin("not_equal", "cmp", lambda a, b: Not(exact_eq(a, b)), operator.ne, bare_result=True),
    # arctan2(y, x) of two commensurable quantities: the angle of the point (X, Y) of SI magnitudes, a pure number; the second operand
    # goes through the same rescale block as the additive family (_arctan2_unit)
    Bin("arctan2", "atan2", None, D=_d_none),
    # copysign(x, y): |x| with the sign of y, in the unit of x; y may have any dimension (positive scales keep its sign)
    Bin("copysign", "copysign", lambda a, b: ite(b >= 0, vabs(a), -vabs(a)), D=_d_left, unit_left=True),
]}

FORMS = ["op", "ufunc", "iop", "out"]


class _ObjBinary:
    """np.copysign has no object-dtype loop, so NumPy refuses a symbolic payload before unyt's code is reached. As for divmod (see
    _ObjDivmod) the ufunc object handed to the real unyt_array.__array_ufunc__ in symbolic mode is a stand-in equal and hash-equal to
    the real ufunc whose call applies the SymReal method element-wise; unyt's own code runs unchanged, plain runs use the real ufunc."""

    def __init__(self, real, fn):
        self.real = real
        self.py = np.frompyfunc(fn, 2, 1)

    def __eq__(self, o):
        return o is self.real or o is self

    def __hash__(self):
        return hash(self.real)

    def __getattr__(self, k):
        return getattr(self.real, k)

    def __call__(self, a, b, out=None, **kw):
        v = self.py(a, b)
        if out is not None:
            out[...] = v
            return out
        return v


def _copysign(a, b):
    if is_sym(a):
        return a.copysign(b)
    if is_sym(b):
        return ite(b >= 0, abs(a), -abs(a))
    return math.copysign(a, b)


BIN["copysign"].standin = _ObjBinary(np.copysign, _copysign)


def assume_distinct(ctx, spec0, spec1, s0, s1):
    """differently spelled units of (nearly) equal symbolic scale make xa//xb cancel xa/xb inside a sympy expression, which cannot
    hold a z3 term (engine limit): their scales are assumed clearly different. Equal scales are covered by the same-unit cases."""
    ctx.assume(Or(s0 > s1 * 1.001, s1 > s0 * 1.001))


def apply_binary(ctx, b, form, A, Bq, reg, out_unit, rshape):
    """-> (result, out_object_or_None)"""
    uf = getattr(np, b.ufunc)
    if b.standin is not None and ctx.symbolic:
        first = A if hasattr(A, "__array_ufunc__") and hasattr(A, "units") else Bq
        o = out_quantity(ctx, reg, rshape) if form == "out" else None
        with as_ufunc_global(ctx.mods, b.standin):
            r = first.__array_ufunc__(b.standin, "__call__", A, Bq, **({} if o is None else dict(out=(o,))))
        return r, o
    if form == "op":
        return b.op(A, Bq), None
    if form == "ufunc":
        return uf(A, Bq), None
    if form == "iop":
        c = A.copy()
        c = b.iop(c, Bq)
        return c, None
    if form == "out":
        if b.bare_result:
            o = np.zeros(rshape, dtype=bool)
        else:
            o = out_quantity(ctx, reg, rshape)
        r = uf(A, Bq, out=o)
        return r, o
    raise KeyError(form)


# OPERAND KIND (what object carries the operand; the unit, the numbers and the shape stay what they are):
#   ""       unyt_quantity for shape (), unyt_array otherwise          arr0d   a 0-d unyt_array (shape () but not a quantity)
#   qlist    a python list of the unyt_quantity elements of a 1-d operand (unyt's _coerce_iterable_units reads it)
#   view     the operand is a strided view [::2] of a buffer twice as long (other numbers in between)
KINDS = ["", "arr0d", "qlist", "view"]


def as_kind(ctx, Q, kind, name):
    if not kind:
        return Q
    ua = ctx.mods["unyt"].unyt_array
    if kind == "arr0d":
        assert np.shape(Q) == ()
        return ua(np.asarray(Q.d).reshape(()).copy() if ctx.symbolic else np.array(float(Q.d)), Q.units)
    if kind == "qlist":
        assert len(np.shape(Q)) == 1
        return [Q[i] for i in range(len(Q))]
    if kind == "view":
        assert len(np.shape(Q)) == 1
        n = len(Q)
        big = ctx.reals(name + "pad", (2 * n,))
        big = big.copy()
        big[::2] = Q.d
        return ua(big, Q.units)[::2]
    raise KeyError(kind)


def make_binary_case(opname, form, spec0, spec1, sh0=(), sh1=(), tag="", dims_override=None, same_object=False, variant=None,
                     kinds=("", "")):
    """variant: None - both operands in one registry; 'tworeg' - the second operand lives in a SECOND registry in which the
    same unit names carry their own (symbolic) scales; 'modify' - one registry, the second operand is created after the real
    registry.modify(atom, new_scale) of every harness atom of its unit. In both variants units of the SAME SPELLING differ in
    scale, so 'same unit' must be decided by value, never by name/expression."""
    b = BIN[opname]

    def h(ctx):
        reg = ctx.registry([])
        A, x, s0, d0 = spec0.quantity(ctx, reg, "x", sh0, dims_override=dims_override)
        if variant == "tworeg":
            reg2 = ctx.registry([])
            Bq, y, s1, d1 = spec1.quantity(ctx, reg2, "y", sh1, nonzero=b.ynonzero, dims_override=dims_override, sfx="2")
        elif variant == "modify":
            for a in spec1.atoms():
                reg.modify(a, ctx.real(a + "2_s", pos=True))
            Bq, y, s1, d1 = spec1.quantity(ctx, reg, "y", sh1, nonzero=b.ynonzero, dims_override=dims_override, sfx="2")
        else:
            Bq, y, s1, d1 = spec1.quantity(ctx, reg, "y", sh1, nonzero=b.ynonzero, dims_override=dims_override)
        if same_object:
            Bq.units = A.units
        if b.family == "floordiv" and is_sym(s0) and is_sym(s1) and not same_object and spec0.text != spec1.text:
            # units whose scales differ by less than 1e-9 are 'equal' for unyt; xa//xb then cancels xa/xb with symbolic scales
            # inside a sympy expression, which cannot hold a z3 term (engine limit): scales exactly equal or clearly different
            # (compound units: clearly different only - equal products of different factors cancel factor by factor)
            assume_distinct(ctx, spec0, spec1, s0, s1)
        ua_before = getattr(A, "units", None)
        rshape = np.broadcast_shapes(sh0, sh1)
        xs = bcast(elements(x), sh0, rshape)
        ys = bcast(elements(y), sh1, rshape)
        out_unit = None
        A0, B0 = A, Bq
        A, Bq = as_kind(ctx, A, kinds[0], "x"), as_kind(ctx, Bq, kinds[1], "y")
        if hasattr(A, "units"):
            ua_before = A.units
        r, o = apply_binary(ctx, b, form, A, Bq, reg, out_unit, rshape)
        if kinds[0] == "qlist":
            A = A0
        if kinds[1] == "qlist":
            Bq = B0
        # after registry.modify the registry no longer describes units created before it (C12's subject): no re-reading there
        check_binary_result(ctx, b, r, xs, ys, s0, s1, d0, d1, None if variant == "modify" else reg, A_units=ua_before)
        if o is not None:
            ctx.require("out= holds the result", And(*[exact_eq(p, q) if not b.bare_result else bool(p) == bool(q)
                                                        for p, q in zip(payload(o), payload(r))]))
            if hasattr(r, "units"):
                ctx.require("out= unit", unit_same(o.units, r.units))
        if form != "iop":
            ctx.require("operands untouched", And(*[exact_eq(p, q) for p, q in zip(payload(A), elements(x))],
                                                  *[exact_eq(p, q) for p, q in zip(payload(Bq), elements(y))],
                                                  getattr(A, "units", None) is ua_before))
        ctx.observe("result", payload(r) if not b.bare_result else [bool(v) for v in elements(r)])

    k0, k1 = (":" + kinds[0] if kinds[0] else ""), (":" + kinds[1] if kinds[1] else "")
    cid = f"C04/{opname}/{form}/{spec0.text}~{spec1.text}/{shape_tag(sh0)}{k0}~{shape_tag(sh1)}{k1}{tag}"
    return Case(cid, h, bounds="symbolic: values, scales", budget_s=600, max_paths=4000,
                weight=(8 if b.discontinuous else 1) * (1 + len(sh0) + len(sh1)))


def check_binary_result(ctx, b, r, xs, ys, s0, s1, d0, d1, reg, A_units=None, label=""):
    X = [xv * s0 for xv in xs]
    Y = [yv * s1 for yv in ys]
    if b.family == "cmp":
        got = [bval(v) for v in elements(r)]
        exp = [b.R(p, q) for p, q in zip(X, Y)]
        ctx.require(label + "comparison on SI magnitudes", And(len(got) == len(exp), *[
            Or(Iff(g, e), close(p, q, tol=EPS)) for g, e, p, q in zip(got, exp, X, Y)]))
        ctx.require(label + "comparison result is bare", not hasattr(r, "units"))
        return
    got = si_of(r)
    if b.family == "atan2":
        ctx.require(label + "si", And(len(got) == len(X), *[atan2_ok(g, p, q) for g, p, q in zip(got, X, Y)]))
        ctx.require(label + "result is a pure number", (not hasattr(r, "units")) or And(r.units.is_dimensionless, exact_eq(r.units.base_value, 1.0)))
        return
    if b.family == "floordiv":
        require_floor(ctx, label + "si", lambda st: And(len(got) == len(X), *[floor_ok(g, p, q, got, st) for g, p, q in zip(got, X, Y)]))
    elif b.family == "mod":
        require_floor(ctx, label + "si", lambda st: And(len(got) == len(X), *[mod_ok(g, p, q, got, b.R is ptrunc, st) for g, p, q in zip(got, X, Y)]))
    elif b.si_check is not None:
        ctx.require(label + "si", And(len(got) == len(X), *[b.si_check(g, p, q) for g, p, q in zip(got, X, Y)]))
    else:
        ctx.require(label + "si", And(len(got) == len(X), *[close(g, b.R(p, q), extra=band(p, q)) for g, p, q in zip(got, X, Y)]))
    ctx.require(label + "dims", same_dims(dims_of(ctx, r), b.D(d0, d1)))
    if b.unit_left and A_units is not None:
        ctx.require(label + "unit is the left operand's", hasattr(r, "units") and unit_same(r.units, A_units))
    if reg is not None:
        ctx.require(label + "result unit agrees with its registry", wellformed(ctx, r, reg))


# ------------------------------------------------------------------------------------------------ divmod

class _ObjDivmod:
    """np.divmod has no object-dtype loop, so NumPy refuses a symbolic payload before unyt's code is reached. In symbolic
    mode the ufunc object handed to the real unyt_array.__array_ufunc__ is this stand-in: equal and hash-equal to np.divmod
    (so `ufunc in multiple_output_operators`, `_ufunc_registry[ufunc]`, `ufunc in (modf, divmod_)` answer as for the real
    one); its call applies SymReal.__divmod__ element-wise. unyt's own code runs unchanged; plain runs use the real np.divmod."""
    real = np.divmod

    def __init__(self):
        self.py = np.frompyfunc(lambda a, b: divmod(a, b), 2, 2)

    def __eq__(self, o):
        return o is self.real or o is self

    def __hash__(self):
        return hash(self.real)

    def __getattr__(self, k):
        return getattr(self.real, k)

    def __call__(self, a, b, out=None, **kw):
        q, r = self.py(a, b)
        if out is not None and any(o is not None for o in out):
            res = []
            for o, v in zip(out, (q, r)):
                if o is not None:
                    o[...] = v
                    res.append(o)
                else:
                    res.append(v)
            return tuple(res)
        return q, r


_OBJ_DIVMOD = _ObjDivmod()


def do_divmod(ctx, A, Bq, out=None):
    if not ctx.symbolic:
        if out is None:
            return np.divmod(A, Bq)
        return np.divmod(A, Bq, out=out)
    kw = {} if out is None else dict(out=out)
    with as_ufunc_global(ctx.mods, _OBJ_DIVMOD):
        return A.__array_ufunc__(_OBJ_DIVMOD, "__call__", A, Bq, **kw)


def make_divmod_case(form, spec0, spec1, tag="", same_object=False):
    def h(ctx):
        reg = ctx.registry([])
        A, x, s0, d0 = spec0.quantity(ctx, reg, "x", ())
        Bq, y, s1, d1 = spec1.quantity(ctx, reg, "y", (), nonzero=True)
        if same_object:
            Bq.units = A.units
        X, Y = elements(x)[0] * s0, elements(y)[0] * s1
        if is_sym(s0) and is_sym(s1) and not same_object and spec0.text != spec1.text:
            assume_distinct(ctx, spec0, spec1, s0, s1)      # for the `//` of the differential obligation (see make_binary_case)
        o = None
        if form == "op":
            q, rem = divmod(A, Bq) if not ctx.symbolic else do_divmod(ctx, A, Bq)
        elif form == "ufunc":
            q, rem = do_divmod(ctx, A, Bq)
        else:
            o = (out_quantity(ctx, reg, ()), out_quantity(ctx, reg, ()))
            q, rem = do_divmod(ctx, A, Bq, out=o)
        D = ctx.mods["unyt"].dimensions
        src = si_of(q) + si_of(rem)
        require_floor(ctx, "divmod quotient si", lambda st: floor_ok(si_of(q)[0], X, Y, src, st))
        ctx.require("divmod quotient dims", same_dims(dims_of(ctx, q), D.dimensionless))
        require_floor(ctx, "divmod remainder si", lambda st: mod_ok(si_of(rem)[0], X, Y, src, False, st))
        ctx.require("divmod remainder dims", same_dims(dims_of(ctx, rem), d0))
        ctx.require("divmod remainder unit is the left operand's", hasattr(rem, "units") and unit_same(rem.units, A.units))
        fd, md = si_of(A // Bq)[0], si_of(A % Bq)[0]
        require_floor(ctx, "divmod agrees with // and %", lambda st: And(close(si_of(q)[0], fd, extra=1e-9), close(si_of(rem)[0], md, extra=band(X, Y))))
        ctx.observe("divmod", payload(q) + payload(rem))
    return Case(f"C04/divmod/{form}/{spec0.text}~{spec1.text}/0~0{tag}", h, budget_s=600, weight=10)


# ------------------------------------------------------------------------------------------------ unary operations and powers

class Un:
    def __init__(self, name, R, e, op=None, dom=None):
        self.name, self.R, self.e, self.op, self.dom = name, R, Fraction(e), op, dom


UN = {u.name: u for u in [
    Un("negative", lambda v: -v, 1, operator.neg),
    Un("absolute", vabs, 1, abs),
    Un("fabs", vabs, 1),
    Un("positive", lambda v: v, 1, operator.pos),
    Un("conjugate", lambda v: v, 1),
    Un("sqrt", lambda v: ppow(v, F(1, 2)), F(1, 2), dom="pos"),
    Un("cbrt", lambda v: ppow(v, F(1, 3)), F(1, 3), dom="pos"),
    Un("square", lambda v: v * v, 2),
    Un("reciprocal", lambda v: 1.0 / v, -1, dom="nonzero"),
]}


def _dom_kw(dom):
    return {"pos": dict(pos=True), "nonzero": dict(nonzero=True), None: {}}[dom]


def check_unary_result(ctx, r, xs, s0, d0, R, e, reg, unit_keep=None, label=""):
    got = si_of(r)
    exp = [R(xv * s0) for xv in xs]
    ctx.require(label + "si", And(len(got) == len(exp), *[close(g, w) for g, w in zip(got, exp)]))
    ctx.require(label + "dims", same_dims(dims_of(ctx, r), d0 ** _sym_exp(Fraction(e))))
    if unit_keep is not None:
        ctx.require(label + "unit is the operand's", hasattr(r, "units") and unit_same(r.units, unit_keep))
    ctx.require(label + "result unit agrees with its registry", wellformed(ctx, r, reg))


def make_unary_case(opname, form, spec, sh=(), tag="", dims_override=None):
    u = UN[opname]

    def h(ctx):
        reg = ctx.registry([])
        A, x, s0, d0 = spec.quantity(ctx, reg, "x", sh, dims_override=dims_override, **_dom_kw(u.dom))
        ua = A.units
        uf = getattr(np, opname)
        o = None
        if form == "op":
            r = u.op(A)
        elif form == "ufunc":
            r = uf(A)
        else:
            o = out_quantity(ctx, reg, sh)
            r = uf(A, out=o)
        check_unary_result(ctx, r, elements(x), s0, d0, u.R, u.e, reg, unit_keep=ua if u.e == 1 else None)
        if o is not None:
            ctx.require("out= holds the result", And(*[exact_eq(p, q) for p, q in zip(payload(o), payload(r))]))
            ctx.require("out= unit", unit_same(o.units, r.units))
        ctx.require("operand untouched", And(*[exact_eq(p, q) for p, q in zip(payload(A), elements(x))], A.units is ua))
        ctx.observe("result", payload(r))
    return Case(f"C04/{opname}/{form}/{spec.text}/{shape_tag(sh)}{tag}", h, budget_s=600)


def make_power_case(e, form, spec, sh=(), tag=""):
    e = Fraction(e)
    pyexp = int(e) if e.denominator == 1 else float(e)

    def h(ctx):
        reg = ctx.registry([])
        kw = {}
        if e.denominator != 1:
            kw = dict(pos=True)
        elif e < 0:
            kw = dict(nonzero=True)
        A, x, s0, d0 = spec.quantity(ctx, reg, "x", sh, **kw)
        ua = A.units
        o = None
        if form == "op":
            r = A ** pyexp
        elif form == "opfloat":
            r = A ** float(e)
        elif form == "ufunc":
            r = np.power(A, pyexp)
        elif form == "iop":
            r = A.copy()
            r **= pyexp
        else:
            o = out_quantity(ctx, reg, sh)
            r = np.power(A, pyexp, out=o)
        check_unary_result(ctx, r, elements(x), s0, d0, (lambda v: ppow(v, e)) if e != 0 else (lambda v: 1.0), e, reg)
        if o is not None:
            ctx.require("out= holds the result", And(*[exact_eq(p, q) for p, q in zip(payload(o), payload(r))]))
            ctx.require("out= unit", unit_same(o.units, r.units))
        ctx.require("operand untouched", And(*[exact_eq(p, q) for p, q in zip(payload(A), elements(x))], A.units is ua))
        ctx.observe("result", payload(r))
    et = f"{e.numerator}" if e.denominator == 1 else f"{e.numerator}_{e.denominator}"
    return Case(f"C04/power/{form}/{spec.text}^{et}/{shape_tag(sh)}{tag}", h, budget_s=600, weight=3)


def make_power_qexp_case(e, eunit, form, spec, sh=(), ekind="", tag=""):
    """the EXPONENT is itself a quantity: the pure number e written in a dimensionless unit (dimensionless, percent, km/m, cm/m - table
    units, the exponent ends up inside a sympy unit expression and must be a number). The exponent is an operand like any other:
    writing it as 200 percent or 0.002 km/m instead of 2 must not change the result. A refusal (UnitOperationError) of an exponent
    that is not written as a plain number is acceptable, a result for another exponent is not. ekind: "" quantity, arr0d 0-d array."""
    e = Fraction(e)
    escale = Fraction(TABLE[eunit.split("/")[0]][0]).limit_denominator(10**6) / (Fraction(TABLE[eunit.split("/")[1]][0]).limit_denominator(10**6) if "/" in eunit else 1)
    raw = float(e / escale)

    def h(ctx):
        reg = ctx.registry([])
        kw = dict(pos=True)
        A, x, s0, d0 = spec.quantity(ctx, reg, "x", sh, **kw)
        ua = A.units
        M = ctx.mods["unyt"]
        E = M.unyt_quantity(raw, eunit, registry=reg) if not ekind else M.unyt_array(np.array(raw), eunit, registry=reg)
        res = call(operator.pow, A, E) if form == "op" else call(np.power, A, E)
        if res[0] == "raise":
            ctx.require("refuses only an exponent that is not written as a plain number, with UnitOperationError",
                        escale != 1 and isinstance(res[1], M.exceptions.UnitOperationError))
            ctx.observe("raised", type(res[1]).__name__)
            return
        r = res[1]
        dims_ok = same_dims(dims_of(ctx, r), d0 ** _sym_exp(e))
        ctx.require("dims", dims_ok)
        if dims_ok:          # (a result of another dimension took another exponent: reported once, by the obligation above)
            got = si_of(r)
            ctx.require("si", And(len(got) == len(elements(x)), *[close(g, ppow(xv * s0, e)) for g, xv in zip(got, elements(x))]))
            ctx.require("result unit agrees with its registry", wellformed(ctx, r, reg))
        ctx.require("operand untouched", And(*[exact_eq(p, q) for p, q in zip(payload(A), elements(x))], A.units is ua))
        ctx.observe("result", payload(r))
    et = f"{e.numerator}" if e.denominator == 1 else f"{e.numerator}_{e.denominator}"
    ek = ":" + ekind if ekind else ""
    return Case(f"C04/power/{form}/{spec.text}^({et} as {eunit.replace('/', ' per ')}{ek})/{shape_tag(sh)}{tag}", h, budget_s=600, weight=2)


def make_power_array_case(exps, form, spec, sh, tag=""):
    """an ARRAY of exponents (concrete numbers; the base value and scale are symbolic). A uniform array [e, e] has the answer of the
    scalar exponent e element by element; a non-uniform one on a base with a dimension has no single unit and must be refused. A
    refusal (UnitOperationError) is acceptable in both, a unit that is not units**e is not."""
    exps = [Fraction(e) for e in exps]
    earr = np.array([float(e) for e in exps])
    uniform = len(set(exps)) == 1

    def h(ctx):
        reg = ctx.registry([])
        kw = dict(pos=True) if any(e.denominator != 1 for e in exps) else (dict(nonzero=True) if any(e < 0 for e in exps) else {})
        A, x, s0, d0 = spec.quantity(ctx, reg, "x", sh, **kw)
        ua = A.units
        res = call(operator.pow, A, earr) if form == "op" else call(np.power, A, earr)
        if res[0] == "raise":
            ctx.require("refuses with UnitOperationError", isinstance(res[1], ctx.mods["unyt"].exceptions.UnitOperationError))
            ctx.observe("raised", type(res[1]).__name__)
            return
        r = res[1]
        xs = bcast(elements(x), sh, np.broadcast_shapes(sh, earr.shape))
        es = bcast(exps, earr.shape, np.broadcast_shapes(sh, earr.shape))
        ctx.require("one unit can label the result (else the call must be refused)", uniform or same_dims(d0, d0 / d0))
        got = si_of(r)
        ctx.require("si", And(len(got) == len(xs), *[close(g, ppow(xv * s0, e)) for g, xv, e in zip(got, xs, es)]))
        if uniform:
            ctx.require("dims", same_dims(dims_of(ctx, r), d0 ** _sym_exp(exps[0])))
        ctx.require("result unit agrees with its registry", wellformed(ctx, r, reg))
        ctx.require("operand untouched", And(*[exact_eq(p, q) for p, q in zip(payload(A), elements(x))], A.units is ua))
        ctx.observe("result", payload(r))
    et = ",".join(f"{e.numerator}" if e.denominator == 1 else f"{e.numerator}_{e.denominator}" for e in exps)
    return Case(f"C04/power/{form}/{spec.text}^[{et}]/{shape_tag(sh)}{tag}", h, budget_s=600, weight=2)


# ------------------------------------------------------------------------------------------------ reductions, outer, dot

def make_reduce_case(kind, spec, sh, axis=None, tag=""):
    """kind: add.reduce add.accumulate multiply.reduce multiply.accumulate sum prod cumsum np.sum np.prod np.cumsum"""
    def h(ctx):
        reg = ctx.registry([])
        A, x, s0, d0 = spec.quantity(ctx, reg, "x", sh)
        ua = A.units
        X = si_array(x, s0)
        n = x.size if axis is None else sh[axis]
        kw = {} if (axis is None and kind.endswith(("sum", "prod", "cumsum"))) else dict(axis=axis)
        if kind in ("add.reduce", "multiply.reduce", "add.accumulate", "multiply.accumulate"):
            ufn, meth = kind.split(".")
            if axis is None and meth == "accumulate":
                kw = dict(axis=0)
            res = call(getattr(getattr(np, ufn), meth), A, **kw)
            want = getattr(getattr(np, ufn), meth)(X, **kw)
        elif kind in ("sum", "prod", "cumsum"):
            res = call(getattr(A, kind), **kw)
            want = getattr(X, kind)(**kw)
        else:
            fn = getattr(np, kind[3:])
            res = call(fn, A, **kw)
            want = fn(X, **kw)
        if res[0] == "raise":
            # an exception is not a silently wrong number; only allowed where the library documents it
            ctx.require("raises only for a cumulative product", "multiply.accumulate" in kind and isinstance(res[1], (TypeError, ctx.mods["unyt"].exceptions.UnytError)))
            ctx.observe("raised", type(res[1]).__name__)
            return
        r = res[1]
        mult = kind.startswith(("multiply", "prod", "np.prod"))
        got = si_of(r)
        exp = elements(want)
        ctx.require("si", And(len(got) == len(exp), *[close(g, w, extra=0 if mult else band(*elements(X))) for g, w in zip(got, exp)]))
        ctx.require("dims", same_dims(dims_of(ctx, r), d0 ** n if mult else d0))
        if not mult:
            ctx.require("unit is the operand's", hasattr(r, "units") and unit_same(r.units, ua))
        ctx.require("result unit agrees with its registry", wellformed(ctx, r, reg))
        ctx.require("operand untouched", And(*[exact_eq(p, q) for p, q in zip(payload(A), elements(x))], A.units is ua))
        ctx.observe("result", payload(r))
    ax = "" if axis is None else f"/axis{axis}"
    return Case(f"C04/{kind}/{spec.text}/{shape_tag(sh)}{ax}{tag}", h, budget_s=600)


# ---- operand rank x axis argument of every reduction form -------------------------------------------------------------------
# ufunc.reduce / .accumulate / .reduceat and the ndarray / np.* reduction functions, operand of rank 1 and 2 (extents 2 and 3, so
# that 'along axis 0', 'along axis 1' and 'over all elements' combine 2, 3 and 6 elements: three different unit exponents for a
# product), axis argument omitted / 0 / 1 / -1 / None / tuple, keepdims, a where= mask. The oracle is NumPy's own reduction of the
# bare SI magnitudes (the same call on x*s without any unit) for the values and, for the dimension, the NUMBER OF ELEMENTS combined
# into each output element (the same call on an array of ones): d**n for a product, d**(2-n) for a repeated quotient, d otherwise.
# A refusal is acceptable where one unit cannot label the outputs (cumulative products, reduceat); a wrong unit never is.
OMIT = "omitted"
RED_UFUNCS = {"add": "keep", "subtract": "keep", "maximum": "keep", "minimum": "keep", "fmax": "keep", "fmin": "keep", "hypot": "keep",
              "multiply": "mul", "divide": "div", "true_divide": "div"}
# function forms: name -> (the equivalent ufunc form that counts the combined elements, unit rule, called as method?)
RED_FUNCS = {"sum": ("sum", "keep"), "prod": ("sum", "mul"), "cumsum": ("cumsum", "keep"), "cumprod": ("cumsum", "mul"),
             "max": ("sum", "keep"), "min": ("sum", "keep")}
REDUCEAT_IDX = [0, 1]


def axis_tag(ax):
    return "axis:" + (ax if isinstance(ax, str) else str(ax).replace(" ", ""))


def _red_call(kind, arr, ax, keepdims=False, where=None, bare=False):
    """the reduction `kind` applied to arr (quantity, bare SI array or array of ones) with the given axis argument"""
    kw = {} if ax == OMIT else dict(axis=ax)
    if keepdims:
        kw["keepdims"] = True
    if where is not None:
        # object-dtype payloads have no identity element of their own: the neutral element is passed explicitly in every mode
        kw["where"] = np.array(where)
        kw["initial"] = 1.0 if kind.startswith(("multiply", "prod", "np.prod")) else 0.0
    if "." in kind and not kind.startswith("np."):
        ufn, meth = kind.split(".")
        f = getattr(getattr(np, ufn), meth)
        return f(arr, REDUCEAT_IDX, **kw) if meth == "reduceat" else f(arr, **kw)
    if kind.startswith("np."):
        return getattr(np, kind[3:])(arr, **kw)
    return getattr(arr, kind)(**kw)


def red_counts(kind, sh, ax, keepdims=False, where=None):
    """how many input elements each output element combines (flat list), or None if NumPy itself refuses the call"""
    ones = np.ones(sh)
    if "." in kind and not kind.startswith("np."):
        ckind = "add." + kind.split(".")[1]
    else:
        ckind = RED_FUNCS[kind[3:] if kind.startswith("np.") else kind][0]
    try:
        _red_call(kind, np.arange(1.0, 1.0 + ones.size).reshape(sh), ax, keepdims, where)        # is the call legal at all?
        c = _red_call(ckind, ones, ax, keepdims, where)
    except Exception:  # noqa: BLE001 - NumPy's refusal of the bare call: not a case
        return None
    return [int(round(v)) for v in np.asarray(c).ravel()]


def red_rule(kind):
    if "." in kind and not kind.startswith("np."):
        return RED_UFUNCS[kind.split(".")[0]]
    return RED_FUNCS[kind[3:] if kind.startswith("np.") else kind][1]


def make_reduce_axis_case(kind, spec, sh, ax, keepdims=False, where=None, tag=""):
    rule = red_rule(kind)
    counts = red_counts(kind, sh, ax, keepdims, where)
    assert counts is not None, (kind, sh, ax)
    segmented = kind.endswith((".accumulate", ".reduceat", "cumsum", "cumprod"))

    def h(ctx):
        reg = ctx.registry([])
        A, x, s0, d0 = spec.quantity(ctx, reg, "x", sh, **(dict(nonzero=True) if rule == "div" else {}))
        ua = A.units
        X = si_array(x, s0)
        res = call(_red_call, kind, A, ax, keepdims, where)
        if res[0] == "raise":
            # an exception is not a silently wrong number; allowed where one unit cannot label the outputs (they combine different
            # numbers of elements: cumulative products/quotients, reduceat) and for reduceat altogether (refused on this tree: the
            # index list is read as a second operand); every other form has an answer and must give it
            UE = ctx.mods["unyt"].exceptions
            ok = (segmented and rule != "keep") or kind.endswith(".reduceat")
            ctx.require("raises only where no single unit can label the result", ok and isinstance(res[1], (TypeError, UE.UnytError, UE.UnitOperationError)))
            ctx.observe("raised", type(res[1]).__name__)
            return
        r = res[1]
        want = _red_call(kind, X, ax, keepdims, where)
        got, exp = si_of(r), elements(want)
        ctx.require("shape", tuple(np.shape(r)) == tuple(np.shape(want)))
        ctx.require("si", And(len(got) == len(exp), *[close(g, w, extra=0 if rule != "keep" else band(*elements(X))) for g, w in zip(got, exp)]))
        E = {"keep": lambda n: 1, "mul": lambda n: n, "div": lambda n: 2 - n}[rule]
        exps = sorted({E(n) for n in counts})
        ctx.require("one unit can label the result (else the call must be refused)", len(exps) == 1)
        if len(exps) == 1:
            ctx.require("dims", same_dims(dims_of(ctx, r), d0 ** exps[0]))
        if rule == "keep":
            ctx.require("unit is the operand's", hasattr(r, "units") and unit_same(r.units, ua))
        ctx.require("result unit agrees with its registry", wellformed(ctx, r, reg))
        ctx.require("operand untouched", And(*[exact_eq(p, q) for p, q in zip(payload(A), elements(x))], A.units is ua))
        ctx.observe("result", payload(r))
    extra = ("/keepdims" if keepdims else "") + ("/where" if where is not None else "")
    return Case(f"C04/{kind}/{spec.text}/{shape_tag(sh)}/{axis_tag(ax)}{extra}{tag}", h, budget_s=600,
                weight=2 if kind.split(".")[0] in ("maximum", "minimum", "fmax", "fmin", "max", "min", "np") else 1)


def reduce_axis_cases(tier):
    quick = tier == "quick"
    out = []
    AX1 = [OMIT, 0, -1, None, (0,)]
    AX2 = [OMIT, 0, 1, -1, None, (0, 1), (1,)]
    ufs = ["add", "multiply", "divide", "maximum"] if quick else list(RED_UFUNCS)
    specs = ["kxa"] if quick else ["kxa", "km/m", "xa/xs"]
    for ufn in ufs:
        for meth in ("reduce", "accumulate", "reduceat"):
            kind = f"{ufn}.{meth}"
            for sp in specs:
                if sp != "kxa" and (meth == "reduceat" or ufn not in ("add", "multiply", "divide")):
                    continue                           # the other unit shapes: on one ufunc of each unit rule, reduce and accumulate
                for sh, axes in (((3,) if meth == "reduceat" else (2,), AX1), ((2, 3), AX2)):
                    if sp != "kxa" and len(sh) == 1:
                        continue                       # rank 1 of the other unit shapes: make_reduce_case
                    if meth == "reduceat" and ufn not in ("add", "multiply", "divide") and len(sh) == 1:
                        continue
                    if quick and ufn == "maximum" and (meth == "reduceat" or len(sh) == 1):
                        continue
                    for ax in axes:
                        if quick and meth != "reduce" and ax in ((0,), (1,), -1) and ufn != "multiply":
                            continue
                        if quick and meth == "reduceat" and (sh, ax) not in (((3,), OMIT), ((2, 3), 1), ((2, 3), OMIT)):
                            continue                   # reduceat hits a known finding: few cases (every counterexample is replayed)
                        if meth == "reduceat" and ufn not in ("add", "multiply") and ax in ((0,), (1,), -1, None):
                            continue
                        if red_counts(kind, sh, ax) is None:
                            continue
                        if RED_UFUNCS[ufn] == "keep" and ufn not in ("add", "subtract") and len(sh) == 2 and ax in (None, (0, 1)) and meth == "reduce":
                            if quick or sp != "kxa":
                                continue               # max of 6 symbolic elements: 6!-ish orderings
                        out.append(make_reduce_axis_case(kind, U_(sp), sh, ax))
        for sp in specs[:1]:
            for ax in ((1,) if quick else (OMIT, 1, None)):
                if red_counts(f"{ufn}.reduce", (2, 3), ax, keepdims=True) is not None and not (RED_UFUNCS[ufn] == "keep" and ufn not in ("add", "subtract") and ax is None):
                    out.append(make_reduce_axis_case(f"{ufn}.reduce", U_(sp), (2, 3), ax, keepdims=True))
    # a where= mask changes how many elements are combined
    for ufn in ("add", "multiply"):              # divide has no identity: NumPy refuses a mask without initial=
        out.append(make_reduce_axis_case(f"{ufn}.reduce", U_("kxa"), (3,), OMIT, where=[True, False, True]))
        if not quick:
            out.append(make_reduce_axis_case(f"{ufn}.reduce", U_("kxa"), (2, 3), 1, where=[True, False, True]))
    # function forms
    fkinds = ["sum", "prod", "np.prod", "cumsum", "np.cumprod", "max"] if quick else \
        ["sum", "prod", "cumsum", "cumprod", "max", "min", "np.sum", "np.prod", "np.cumsum", "np.cumprod", "np.max", "np.min"]
    for k in fkinds:
        base = k[3:] if k.startswith("np.") else k
        for sp in specs[:1] if quick else specs[:2]:
            for ax in AX2:
                if quick and ax in ((1,), -1):
                    continue
                if red_counts(k, (2, 3), ax) is None:
                    continue
                if base in ("max", "min") and ax in (OMIT, None, (0, 1)) and (quick or sp != "kxa"):
                    continue
                out.append(make_reduce_axis_case(k, U_(sp), (2, 3), ax))
            if base in ("sum", "prod") and not quick:
                out.append(make_reduce_axis_case(k, U_(sp), (2, 3), 1, keepdims=True))
    return out


def make_outer_case(ufn, spec0, spec1, sh0, sh1, tag=""):
    b = BIN[ufn]

    def h(ctx):
        reg = ctx.registry([])
        A, x, s0, d0 = spec0.quantity(ctx, reg, "x", sh0)
        Bq, y, s1, d1 = spec1.quantity(ctx, reg, "y", sh1, nonzero=b.ynonzero)
        ua = getattr(A, "units", None)
        r = getattr(np, ufn).outer(A, Bq)
        xs = [xv for xv in elements(x) for _ in elements(y)]
        ys = [yv for _ in elements(x) for yv in elements(y)]
        check_binary_result(ctx, b, r, xs, ys, s0, s1, d0, d1, reg, A_units=ua)
        ctx.require("shape", tuple(np.shape(r)) == tuple(sh0) + tuple(sh1))
        ctx.observe("result", payload(r))
    return Case(f"C04/{ufn}.outer/{spec0.text}~{spec1.text}/{shape_tag(sh0)}~{shape_tag(sh1)}{tag}", h, budget_s=600)


DOT_FORMS = ["method", "np.dot", "matmul", "np.matmul", "matmul.out", "np.inner", "np.vdot"] + (["np.vecdot"] if hasattr(np, "vecdot") else [])


def make_dot_case(form, spec0, spec1, sh0, sh1, tag=""):
    def h(ctx):
        reg = ctx.registry([])
        A, x, s0, d0 = spec0.quantity(ctx, reg, "x", sh0)
        Bq, y, s1, d1 = spec1.quantity(ctx, reg, "y", sh1)
        X, Y = si_array(x, s0), si_array(y, s1)
        want = np.dot(X, Y) if form not in ("np.inner", "np.vecdot") else (np.inner(X, Y) if form == "np.inner" else np.vecdot(X, Y))
        o = None
        if form == "method":
            r = A.dot(Bq)
        elif form == "np.dot":
            r = np.dot(A, Bq)
        elif form == "matmul":
            r = A @ Bq
        elif form == "np.matmul":
            r = np.matmul(A, Bq)
        elif form == "np.inner":
            r = np.inner(A, Bq)
        elif form == "np.vdot":
            r = np.vdot(A, Bq)
        elif form == "np.vecdot":
            r = np.vecdot(A, Bq)
        else:
            o = out_quantity(ctx, reg, np.shape(want))
            r = np.matmul(A, Bq, out=o)
        got, exp = si_of(r), elements(want)
        terms = [p * q for p in elements(X) for q in elements(Y)]
        ctx.require("si", And(len(got) == len(exp), *[close(g, w, extra=band(*terms)) for g, w in zip(got, exp)]))
        ctx.require("dims", same_dims(dims_of(ctx, r), d0 * d1))
        ctx.require("result unit agrees with its registry", wellformed(ctx, r, reg))
        if o is not None:
            ctx.require("out= holds the result", And(*[exact_eq(p, q) for p, q in zip(payload(o), payload(r))]))
            ctx.require("out= unit", unit_same(o.units, r.units))
        ctx.observe("result", payload(r))
    return Case(f"C04/dot/{form}/{spec0.text}~{spec1.text}/{shape_tag(sh0)}~{shape_tag(sh1)}{tag}", h, budget_s=600, weight=2)


# ------------------------------------------------------------------------------------------------ trigonometry of angles, clip

# angle units WITH AN OFFSET (coordinates): the number x written in such a unit is the angle scale*(x - offset) radian. The harness
# atoms carry a symbolic scale of EITHER sign and a symbolic offset of either sign; the two such units of the default table are
# written down here from their definition, independently of unyt's table: a latitude of x is the polar angle (90 - x) degree, a
# longitude of x is the angle (x + 180) degree.
OFFSET_TABLE = {"lat": (-math.pi / 180.0, 90.0), "lon": (math.pi / 180.0, -180.0)}
OFFSET_ATOMS = ("xgo", "xho")
NAMES += list(OFFSET_ATOMS)


class OffSpec:
    """an angle unit with an offset: harness atom (symbolic nonzero scale, symbolic offset) or lat / lon"""
    bare = False

    def __init__(self, name):
        self.name = self.text = name

    def unit(self, ctx, reg):
        """registers the atom; -> (scale, offset) of the oracle: SI reading of the number x is scale*(x - offset)"""
        if self.name in OFFSET_TABLE:
            return OFFSET_TABLE[self.name]
        s = ctx.real(self.name + "_s", nonzero=True)
        o = ctx.real(self.name + "_o")
        if self.name not in reg.lut:
            ctx.add_row(reg, self.name, ctx.mods["unyt"].dimensions.angle, s, o)
        return s, o


# how the operand of the trigonometric function came to be written in its unit (the value axis stays symbolic in every one):
#   new      created in the unit from a unit string          unitobj  created with a Unit object
#   to       written in the offset-free angle atom xh (symbolic scale) and re-expressed with .to(unit): the property's
#            're-expressing an operand changes the result only by re-expression' in its literal form
#   todeg    the same from the table unit degree             convert  re-expressed in place with convert_to_units
#   item     element [1] of a 2-array in the unit            slice    the view [1:] of a 2-array        copy   .copy() of it
TRIG_HOWS = ["new", "unitobj", "to", "todeg", "convert", "item", "slice", "copy"]
TRIG_FORMS = ["ufunc", "out", "outq"]


def trig_operand(ctx, reg, spec, sh, how):
    """-> (operand, its payload symbols as a flat list, SI magnitudes (radian) of its elements as a flat list, per element the
    addends such a magnitude is formed from: the rounding band is relative to them)"""
    if isinstance(spec, OffSpec):
        s0, o0 = spec.unit(ctx, reg)
        uname = spec.name
    else:
        uname, s0, _ = spec.build(ctx, reg)
        o0 = 0.0
    if how in ("to", "todeg", "convert"):
        src = U_("xh") if how != "todeg" else U_("degree")
        B, y, sb, _ = src.quantity(ctx, reg, "x", sh)
        ys = list(elements(y))                  # before the conversion: convert_to_units rewrites the buffer in place
        if how == "convert":
            B.convert_to_units(uname)
            A = B
        else:
            A = B.to(uname)
        return A, ys, [yv * sb for yv in ys], [(yv * sb, s0 * o0) for yv in ys]
    if how in ("item", "slice"):
        big = ctx.reals("x", (2,) + tuple(sh))
        W = ctx.quantity(big, uname, reg)
        A = W[1] if how == "item" else W[1:]
        xs = elements(big[1]) if how == "item" else elements(big[1:])
        return A, xs, [s0 * (xv - o0) for xv in xs], [(s0 * xv, s0 * o0) for xv in xs]
    x = ctx.reals("x", sh)
    if how == "unitobj":
        A = ctx.quantity(x, ctx.mods["unyt"].Unit(uname, registry=reg), reg)
    else:
        A = ctx.quantity(x, uname, reg)
    if how == "copy":
        A = A.copy()
    return A, elements(x), [s0 * (xv - o0) for xv in elements(x)], [(s0 * xv, s0 * o0) for xv in elements(x)]


def make_trig_case(fn, form, spec, sh=(), tag="", how="new"):
    def h(ctx):
        reg = ctx.registry([])
        A, xs, S, T = trig_operand(ctx, reg, spec, sh, how)
        ua = A.units
        before = payload(A)
        rsh = np.shape(A)
        o = None
        if form == "ufunc":
            r = getattr(np, fn)(A)
        elif form == "out":
            o = ctx.const_array(np.zeros(rsh))
            r = getattr(np, fn)(A, out=o)
        else:
            o = ctx.quantity(ctx.const_array(np.zeros(rsh)), "dimensionless", reg)
            r = getattr(np, fn)(A, out=o)
        got = elements(r)
        ctx.require("value is the function of the radian magnitude", And(len(got) == len(S), *[trig_ok(fn, g, v, t) for g, v, t in zip(got, S, T)]))
        ctx.require("result is dimensionless", (not hasattr(r, "units")) or r.units.is_dimensionless)
        if hasattr(r, "units"):
            ctx.require("result unit scale is 1", exact_eq(r.units.base_value, 1.0))
        if o is not None:
            ctx.require("out= holds the result", And(len(payload(o)) == len(got), *[exact_eq(p, q) for p, q in zip(payload(o), got)]))
            if hasattr(o, "units"):
                ctx.require("out= unit is a pure number", And(o.units.is_dimensionless, exact_eq(o.units.base_value, 1.0)))
        ctx.require("operand untouched", And(*[exact_eq(p, q) for p, q in zip(payload(A), before)], A.units is ua))
        if how in ("new", "unitobj", "copy", "item", "slice"):
            ctx.require("operand holds the numbers it was given", And(*[exact_eq(p, q) for p, q in zip(before, xs)]))
        ctx.observe("result", payload(r))
    hw = "" if how == "new" else f"/{how}"
    return Case(f"C04/{fn}/{form}/{spec.text}/{shape_tag(sh)}{hw}{tag}", h, budget_s=600)


# depth-2 programs around a trigonometric function of an angle unit with an offset: q is the angle (OffSpec), b an offset-free
# angle in another unit (a rotation applied to the coordinate: point + difference), c and d lengths
TRIG_PROGRAMS = {
    "c*sin(q)+d": lambda np_, q, b, c, d: c * np_.sin(q) + d,
    "c*tan(q)": lambda np_, q, b, c, d: c * np_.tan(q),
    "sin(q+b)": lambda np_, q, b, c, d: np_.sin(q + b),
    "cos(q-b)": lambda np_, q, b, c, d: np_.cos(q - b),
    "sin(q)*cos(q)": lambda np_, q, b, c, d: np_.sin(q) * np_.cos(q),
}


def make_trig_program_case(name, spec, bspec="xh", tag=""):
    prog = TRIG_PROGRAMS[name]

    def h(ctx):
        reg = ctx.registry([])
        D = ctx.mods["unyt"].dimensions
        q, xs, S, T = trig_operand(ctx, reg, spec, (), "new")
        Bq, y, sb, _ = U_(bspec).quantity(ctx, reg, "y", ())
        C, cv, sc, _ = U_("xa").quantity(ctx, reg, "c", ())
        Dq, dv, sd, _ = U_("kxb").quantity(ctx, reg, "d", ())
        Q, Bs, Cs, Ds = S[0], elements(y)[0] * sb, elements(cv)[0] * sc, elements(dv)[0] * sd
        r = prog(np, q, Bq, C, Dq)
        got = si_of(r)[0]
        T0 = T[0]
        if name == "c*sin(q)+d":
            want, dims, bnd, args = Cs * ptrig("sin", Q) + Ds, D.length, band(Cs * ptrig("sin", Q), Ds), {"sin": (Q, T0)}
        elif name == "c*tan(q)":
            want, dims, bnd, args = Cs * ptrig("tan", Q), D.length, 0, {"tan": (Q, T0)}
        elif name == "sin(q+b)":
            want, dims, bnd, args = ptrig("sin", Q + Bs), D.dimensionless, 1e-9, {"sin": (Q + Bs, T0 + (Bs,))}
        elif name == "cos(q-b)":
            want, dims, bnd, args = ptrig("cos", Q - Bs), D.dimensionless, 1e-9, {"cos": (Q - Bs, T0 + (Bs,))}
        else:
            want, dims, bnd, args = ptrig("sin", Q) * ptrig("cos", Q), D.dimensionless, 1e-9, {"sin": (Q, T0), "cos": (Q, T0)}
        ok, got = trig_rewrite(got, args)
        # one obligation: every trigonometric function is applied to the radian magnitude AND the arithmetic around it is right
        ctx.require("si", And(ok, close(got, want, extra=bnd)))
        ctx.require("dims", same_dims(dims_of(ctx, r), dims))
        if hasattr(r, "units"):
            ctx.require("result unit carries no offset", exact_eq(r.units.base_offset, 0.0))
        ctx.observe("result", payload(r))
    return Case(f"C04/program/{name}/{spec.text}~{bspec}{tag}", h, budget_s=600, weight=3)


def make_clip_case(form, spec0, spec1, spec2, sh=(2,), tag="", same_object=False):
    def h(ctx):
        reg = ctx.registry([])
        A, x, s0, d0 = spec0.quantity(ctx, reg, "x", sh)
        Lo, lo, s1, d1 = spec1.quantity(ctx, reg, "lo", ())
        Hi, hi, s2, d2 = spec2.quantity(ctx, reg, "hi", ())
        if same_object:
            Lo.units = A.units
            Hi.units = A.units
        ua = A.units
        ctx.assume(elements(lo)[0] * s1 <= elements(hi)[0] * s2)
        o = None
        if form == "np.clip":
            res = call(np.clip, A, Lo, Hi)
        else:
            o = out_quantity(ctx, reg, sh)
            res = call(np.clip, A, Lo, Hi, out=o)
        if res[0] == "raise":
            UE = ctx.mods["unyt"].exceptions
            ctx.require("raises only for mixed units", (not same_object) and isinstance(res[1], (UE.UnitInconsistencyError, UE.UnitOperationError)))
            ctx.observe("raised", type(res[1]).__name__)
            return
        r = res[1]
        L, H = elements(lo)[0] * s1, elements(hi)[0] * s2
        got = si_of(r)
        exp = [pmin(pmax(xv * s0, L), H) for xv in elements(x)]
        ctx.require("si", And(len(got) == len(exp), *[close(g, w, extra=band(xv * s0, L, H)) for g, w, xv in zip(got, exp, elements(x))]))
        ctx.require("dims", same_dims(dims_of(ctx, r), d0))
        ctx.require("unit is the first operand's", hasattr(r, "units") and unit_same(r.units, ua))
        ctx.require("result unit agrees with its registry", wellformed(ctx, r, reg))
        if o is not None:
            ctx.require("out= holds the result", And(*[exact_eq(p, q) for p, q in zip(payload(o), payload(r))]))
            ctx.require("out= unit", unit_same(o.units, r.units))
        ctx.observe("result", payload(r))
    return Case(f"C04/clip/{form}/{spec0.text}~{spec1.text}~{spec2.text}/{shape_tag(sh)}{tag}", h, budget_s=600)


# ------------------------------------------------------------------------------------------------ depth-2 programs (sanity of the invariant)

PROGRAMS = {
    # name: (operand specs, domains, program on quantities, same program on SI magnitudes, dims function)
    "(a+b)*c/d": ([U_("xa"), U_("kxb"), U_("xm"), U_("xs")], [None, None, None, "nonzero"],
                  lambda np_, a, b, c, d: (a + b) * c / d, lambda a, b, c, d: (a + b) * c / d,
                  lambda a, b, c, d: a * c / d, lambda A: band(A[0] * A[2] / A[3], A[1] * A[2] / A[3])),
    "(a-b)*c/d cancelling": ([U_("km"), U_("m"), U_("xm"), U_("cm")], [None, None, None, "nonzero"],
                             lambda np_, a, b, c, d: (a - b) * c / d, lambda a, b, c, d: (a - b) * c / d,
                             lambda a, b, c, d: a * c / d, lambda A: band(A[0] * A[2] / A[3], A[1] * A[2] / A[3])),
    "sqrt(a*b)": ([U_("xa"), U_("kxb")], ["pos", "pos"],
                  lambda np_, a, b: np_.sqrt(a * b), lambda a, b: ppow(a * b, F(1, 2)), lambda a, b: (a * b) ** _sym_exp(F(1, 2)), None),
    "sqrt(a*b) cancelling": ([U_("km"), U_("cm")], ["pos", "pos"],
                             lambda np_, a, b: np_.sqrt(a * b), lambda a, b: ppow(a * b, F(1, 2)), lambda a, b: (a * b) ** _sym_exp(F(1, 2)), None),
    "sqrt(a**2+b**2)": ([U_("xa"), U_("xb")], [None, None],
                        lambda np_, a, b: np_.sqrt(a ** 2 + b ** 2), lambda a, b: ppow(a * a + b * b, F(1, 2)), lambda a, b: a, None),
    "maximum(a,b)/c": ([U_("xa/xs"), U_("kxb/xt"), U_("xm")], [None, None, "nonzero"],
                       lambda np_, a, b, c: np_.maximum(a, b) / c, lambda a, b, c: pmax(a, b) / c, lambda a, b, c: a / c,
                       lambda A: band(A[0] / A[2], A[1] / A[2])),
    "a/b+c partly cancelling": ([U_("xv*g"), U_("kg*xa/xs"), U_("dimensionless")], [None, "nonzero", None],
                                lambda np_, a, b, c: a / b + c, lambda a, b, c: a / b + c, lambda a, b, c: a / a,
                                lambda A: band(A[0] / A[1], A[2])),
    "a/b*c partly cancelling": ([U_("mJ/cm**2"), U_("N/m"), U_("xm")], [None, "nonzero", None],
                                lambda np_, a, b, c: a / b * c, lambda a, b, c: a / b * c, lambda a, b, c: c, None),
    "sqrt(a/b) partly cancelling": ([U_("xv*g"), U_("kg*xa/xs")], ["pos", "pos"],
                                    lambda np_, a, b: np_.sqrt(a / b), lambda a, b: ppow(a / b, F(1, 2)), lambda a, b: a / a, None),
    "(a/b)**2+c": ([U_("km"), U_("m"), U_("dimensionless")], [None, "nonzero", None],
                   lambda np_, a, b, c: (a / b) ** 2 + c, lambda a, b, c: (a / b) * (a / b) + c, lambda a, b, c: a / a,
                   lambda A: band((A[0] / A[1]) * (A[0] / A[1]), A[2])),
}


def make_program_case(name, tag=""):
    specs, doms, prog, ref, dimf, bandf = PROGRAMS[name]

    def h(ctx):
        reg = ctx.registry([])
        qs, sis, ds = [], [], []
        for i, (sp, dom) in enumerate(zip(specs, doms)):
            Q, v, s, d = sp.quantity(ctx, reg, "abcd"[i], (), **_dom_kw(dom))
            qs.append(Q)
            sis.append(elements(v)[0] * s)
            ds.append(d)
        r = prog(np, *qs)
        got = si_of(r)[0]
        ctx.require("si", close(got, ref(*sis), extra=bandf(sis) if bandf else 0))
        ctx.require("dims", same_dims(dims_of(ctx, r), dimf(*ds)))
        ctx.require("result unit agrees with its registry", wellformed(ctx, r, reg))
        ctx.observe("result", payload(r))
    return Case(f"C04/program/{name}{tag}", h, budget_s=600, weight=5)


def make_reduce_product_case(spec0, spec1, tag=""):
    """np.add.reduce(a*b) on 2-vectors"""
    def h(ctx):
        reg = ctx.registry([])
        A, x, s0, d0 = spec0.quantity(ctx, reg, "x", (2,))
        Bq, y, s1, d1 = spec1.quantity(ctx, reg, "y", (2,))
        r = np.add.reduce(A * Bq)
        X, Y = elements(x * s0), elements(y * s1)
        ctx.require("si", close(si_of(r)[0], X[0] * Y[0] + X[1] * Y[1], extra=band(X[0] * Y[0], X[1] * Y[1])))
        ctx.require("dims", same_dims(dims_of(ctx, r), d0 * d1))
        ctx.require("result unit agrees with its registry", wellformed(ctx, r, reg))
        ctx.observe("result", payload(r))
    return Case(f"C04/program/add.reduce(a*b)/{spec0.text}~{spec1.text}{tag}", h, budget_s=600, weight=5)


# ------------------------------------------------------------------------------------------------ case list

# same-dimension operand pairs with symbolic scales (additive family, comparisons, mod family)
ADD_PAIRS = ["xa~xb", "kxa~xb", "xa~mxa", "xa*xs~xb*xt", "xa/xs~xb/xt", "xa**2~xb*xc", "xa**2~xb**2",
             "xm~xn", "xg~xh", "xp~xq", "xtk~xtl", "xp~bare", "bare~xp"]
# same-dimension pairs of table units (the pairs that cancel in products)
ADD_PAIRS_TABLE = ["m~cm", "km~m", "hr~min", "km/hr~m/s", "km/m~dimensionless", "cm**2~m**2"]
# products / quotients without cancelling factors: symbolic scales
MUL_PAIRS = ["xa~xm", "kxa~xm", "xa~kxm", "xa*xs~xm", "xa/xs~xm/xi", "xa**2~xm", "xa~xm**2", "xg~xa", "xp~xa", "xa~xp",
             "xtk~xa", "xa~bare", "bare~xa"]
MUL_ONLY_PAIRS = ["xa~xb", "xa~xb**2"]            # same dimension: cancel only under division
DIV_ONLY_PAIRS = ["xa*xs~xa", "xa**2~xa"]          # sympy cancels the shared symbol itself
# cancelling pairs: table units (concrete scales), values symbolic; xm is a symbolic-scale bystander
MUL_PAIRS_TABLE = ["km~1/m", "km/hr~min", "cm**2~1/m", "m~g/cm", "xm*km~1/m", "km/m~s", "hr/min~xa"]
DIV_PAIRS_TABLE = ["m~cm", "km~m", "hr~min", "km/hr~m/s", "m**2~cm", "xm*km~m", "xm~km/m", "km/m~cm/m"]
# PARTIAL cancellation: compound operands whose quotient (product) unit cancels only partly - factors that cancel pairwise into a
# numeric coefficient (g against kg: table units, concrete scales) next to a LEFT-OVER GROUP that is a pure number only as a whole
# (xv*xs/xa, xf*xs**2/(xm*xa), mJ/(cm*N) ...: no two factors of it cancel, so its scale may be a z3 term), with or without a
# residual dimension (xi). The coefficient pair must not share a dimension with a symbolic atom (that pair would cancel with a
# symbolic value). Quotients of equal dimensions, products of reciprocal dimensions, the coefficient inside one operand.
PARTIAL_DIV = ["xv~xa/xs", "xa/xs~xv", "xf~xm*xa/xs**2", "xj~xf*xa", "xa*xf~xj",        # group only (coefficient 1)
               "xv*g~kg*xa/xs", "kg*xa/xs~xv*g", "xv*g**2~kg**2*xa/xs", "xj/hr~xf*xa/min",   # coefficient x group
               "xv*g/kg~xa/xs", "xv~g*xa/xs/kg",                                                 # coefficient inside one operand
               "xv*g*xi~kg*xa/xs", "xv*g~kg*xi*xa/xs",                                        # group x residual dimension
               "xv*xs/xa~xp", "xp~xv*xs/xa", "xm~xv*xs/xa"]                                  # the group as one operand
PARTIAL_DIV_TABLE = ["mJ/cm**2~N/m", "N/m~mJ/cm**2", "g*W*hr~kg*J", "g*mile/hr~kg*mph", "J/cm~N", "N~kg*m/s**2", "dyn~g*cm/s**2",
                     "erg/cm**3~Pa", "mJ/cm**2~kg/s**2"]
PARTIAL_MUL = ["xv~xs/xa", "xs/xa~xv", "xf~xs**2/xm/xa", "xv*g~xs/kg/xa", "xs/kg/xa~xv*g", "xv*g*xi~xs/kg/xa", "xv*xs/xa~xm"]
PARTIAL_MUL_TABLE = ["mJ/cm**2~m/N", "m/N~mJ/cm**2", "g*W*hr~1/kg/J", "N~s**2/kg/m"]
# the same operand pairs (equal dimensions spelled with derived and with base units) for the additive / comparison / mod families
PARTIAL_ADD = ["xv~xa/xs", "xa/xs~xv", "xf~xm*xa/xs**2", "xv*g~kg*xa/xs"]
PARTIAL_ADD_TABLE = ["mJ/cm**2~N/m", "N~kg*m/s**2", "g*W*hr~kg*J"]
SAME_SPELLING = ["xa~xa", "kxa~kxa", "xa~kxa", "xa*xs~xa*xs", "xa/xs~xa/xs", "xa**2~xa**2", "xg~xg", "xp~xp", "xtk~xtk"]
UNARY_SPECS = ["xa", "kxa", "xa*xs", "xa/xs", "xa**2", "km/m", "cm/m", "hr/min", "xp", "xg"]
ANGLE_SPECS = ["xg", "kxg", "mxg", "radian", "degree", "arcmin", "degree*km/m", "xg*km/m"]


def pair(text):
    a, b = text.split("~")
    return (BARE if a == "bare" else U_(a)), (BARE if b == "bare" else U_(b))


def cases(tier, mods):
    check_names(mods, NAMES)
    quick = tier == "quick"
    out = []
    seen_ids = set()

    def add(c):
        if c.id not in seen_ids:              # a combination reached by two of the sweeps below is one case
            seen_ids.add(c.id)
            out.append(c)

    def binary(ops, pairs, shapes, forms=None, same=False, variant=None):
        for opn in ops:
            b = BIN[opn]
            for f in (forms or b.forms()):
                if f not in b.forms():
                    continue
                for p in pairs:
                    s0, s1 = pair(p)
                    for sh0, sh1 in shapes:
                        scalar = (sh0, sh1) == ((), ())
                        # pairs that hit a known finding are kept to a few cases (every counterexample is replayed serially)
                        if opn == "subtract" and "xtk" in p and ((quick and f in ("ufunc", "out")) or not scalar):
                            continue
                        if f == "iop" and p in ("km/m~s", "hr/min~xa", "km/m~cm/m") and not scalar:
                            continue
                        if f == "iop" and (np.broadcast_shapes(sh0, sh1) != sh0 or s0.bare):
                            continue
                        add(make_binary_case(opn, f, s0, s1, sh0, sh1, same_object=same, variant=variant,
                                             tag="/same" if same else ("/" + variant if variant else "")))

    SC = [((), ())]
    ARR = [((2,), ()), ((), (2,)), ((2,), (2,))]
    ARR2 = [((2, 2), (2,)), ((2, 2), (2, 2))]
    addops = ["add", "subtract", "maximum", "minimum", "fmax", "fmin", "hypot"]
    cmpops = ["less", "less_equal", "greater", "greater_equal", "equal", "not_equal"]
    modops = ["remainder", "mod", "fmod", "floor_divide"]
    mulops = ["multiply", "divide", "true_divide"]
    if quick:
        binary(["add", "subtract"], [p for p in ADD_PAIRS if p != "xp~bare"] + ADD_PAIRS_TABLE, SC)
        binary(["add"], ["xp~bare"], SC)
        binary(["subtract"], ["xp~bare"], SC, forms=["op"])
        binary(["add", "subtract"], ["xa~xb", "kxa~xb", "km~m"], ARR)
        binary(["add", "subtract"], ["xa~xa"], SC, same=True)
        binary(["maximum", "minimum", "fmax", "fmin", "hypot"], ["xa~xb", "kxa~xb", "xa/xs~xb/xt", "bare~xp", "m~cm", "km/hr~m/s"], SC)
        binary(["maximum"], ["xp~bare"], SC, forms=["ufunc"])
        binary(["maximum", "hypot"], ["xa~xb"], ARR[:1])
        binary(cmpops, ["xa~xb", "kxa~xb", "xa/xs~xb/xt", "xa**2~xb*xc", "xp~bare", "bare~xp", "m~cm", "km/hr~m/s"], SC, forms=["op", "ufunc"])
        binary(["less", "equal"], ["xa~xb", "km~m"], ARR[2:], forms=["op", "out"])
        binary(modops, ["xa~xb", "kxa~xb", "xa/xs~xb/xt", "m~cm", "km~m", "hr~min"], SC)
        binary(modops, ["xa~xa"], SC, forms=["op"], same=True)
        binary(["multiply", "divide"], MUL_PAIRS, SC)
        binary(["multiply"], MUL_ONLY_PAIRS + MUL_PAIRS_TABLE, SC)
        binary(["divide"], DIV_ONLY_PAIRS + DIV_PAIRS_TABLE, SC)
        binary(["true_divide"], ["xa~xm", "km~m"], SC)
        binary(["multiply", "divide"], ["xa~xm", "kxa~xm", "xa~bare", "bare~xa"], ARR)
        binary(["multiply"], ["km/hr~min"], ARR)
        binary(["divide"], ["km~m"], ARR)
        binary(["multiply", "divide"], ["xa~xa"], SC, same=True)
    else:
        binary(addops, [p for p in ADD_PAIRS if p != "xp~bare"] + ADD_PAIRS_TABLE, SC + ARR)
        binary(["add", "subtract", "maximum"], ["xp~bare"], SC)
        binary(["add", "subtract", "maximum"], ["xa~xb", "kxa~xb", "km~m"], ARR2)
        binary(addops, ["xa~xa", "xa*xs~xa*xs"], SC + ARR[2:], same=True)
        binary(cmpops, ADD_PAIRS + ADD_PAIRS_TABLE, SC + ARR[2:])
        binary(cmpops, ["xa~xa"], SC, same=True)
        binary(modops, [p for p in ADD_PAIRS if p not in ("xa**2~xb*xc", "xa**2~xb**2")] + ADD_PAIRS_TABLE, SC)
        binary(modops, ["xa~xa"], SC, same=True)
        binary(mulops, MUL_PAIRS, SC + ARR)
        binary(["multiply"], MUL_ONLY_PAIRS + MUL_PAIRS_TABLE, SC + ARR)
        binary(["divide", "true_divide"], DIV_ONLY_PAIRS + DIV_PAIRS_TABLE, SC + ARR)
        binary(["multiply", "divide"], ["xa~xm", "xa~kxm"], ARR2)
        binary(["multiply", "divide"], ["xa~xa", "xa/xs~xa/xs"], SC + ARR[2:], same=True)
    # partial cancellation: pairwise coefficient x left-over group that is dimensionless only as a whole (see PARTIAL_DIV)
    if quick:
        binary(["divide"], PARTIAL_DIV + PARTIAL_DIV_TABLE, SC)
        binary(["true_divide"], ["xv~xa/xs", "xv*g~kg*xa/xs", "mJ/cm**2~N/m"], SC)
        binary(["divide"], ["xv~xa/xs", "xv*g~kg*xa/xs", "xv*g*xi~kg*xa/xs", "mJ/cm**2~N/m"], ARR)
        binary(["multiply"], PARTIAL_MUL + PARTIAL_MUL_TABLE, SC)
        binary(["multiply"], ["xv*g~xs/kg/xa", "mJ/cm**2~m/N"], ARR)
        binary(["add", "subtract", "maximum", "hypot", "less", "equal"], PARTIAL_ADD + PARTIAL_ADD_TABLE, SC, forms=["op", "ufunc"])
        binary(modops, ["xv~xa/xs", "xv*g~kg*xa/xs", "mJ/cm**2~N/m"], SC, forms=["op", "ufunc"])
    else:
        binary(["divide", "true_divide"], PARTIAL_DIV + PARTIAL_DIV_TABLE, SC + ARR)
        binary(["divide"], ["xv*g~kg*xa/xs", "mJ/cm**2~N/m"], ARR2)
        binary(["multiply"], PARTIAL_MUL + PARTIAL_MUL_TABLE, SC + ARR)
        binary(addops + cmpops, PARTIAL_ADD + PARTIAL_ADD_TABLE, SC + ARR[2:])
        binary(modops, PARTIAL_ADD + PARTIAL_ADD_TABLE, SC)
    # arctan2 (second operand rescaled like a sum's, result a pure number) and copysign (sign of an operand of ANY dimension)
    atan_pairs = ["xa~xb", "kxa~xb", "xa/xs~xb/xt", "xa**2~xb*xc", "xg~xh", "xp~xq", "xp~bare", "bare~xp", "m~cm", "km~m", "km/hr~m/s",
                  "km/m~dimensionless", "xv~xa/xs", "mJ/cm**2~N/m"]
    csign_pairs = ["xa~xm", "kxa~xm", "xa~xb", "km~m", "km/m~s", "xa~bare", "xp~xa", "xa/xs~xb/xt"]
    binary(["arctan2"], atan_pairs if not quick else atan_pairs[:2] + atan_pairs[5:11] + atan_pairs[12:], SC)
    binary(["copysign"], csign_pairs if not quick else csign_pairs[:5], SC)
    binary(["arctan2", "copysign"], ["xa~xa"], SC, same=True)
    binary(["arctan2"], ["xa~xa"] if quick else SAME_SPELLING, SC, variant="tworeg")
    binary(["arctan2"], ["xa~xa"], SC, variant="modify")
    # SHAPE PAIR x OPERAND KIND of the two operands, for one ufunc of every unit rule and every branch of the rescale block: which operand
    # is the smaller one / is broadcast (left, right, both), ranks 0-2, extent-1 axes, a quantity against a 0-d array, a python list
    # of quantities, a strided view
    BC = [((1,), (2,)), ((2,), (1,)), ((2,), (2, 2)), ((2, 1), (1, 2)), ((), (2, 2))]
    KSH = [(("arr0d", ""), ((), (2,))), (("", "arr0d"), ((2,), ())), (("arr0d", ""), ((), ())), (("", "arr0d"), ((), ())),
           (("arr0d", "arr0d"), ((), ())),
           (("qlist", ""), ((2,), (2,))), (("", "qlist"), ((2,), (2,))), (("qlist", ""), ((2,), ())), (("", "qlist"), ((), (2,))),
           (("view", ""), ((2,), (2,))), (("", "view"), ((2,), (2,))), (("view", ""), ((2,), ())), (("", "view"), ((), (2,)))]
    combos = [(("", ""), shp) for shp in ARR + BC] + KSH
    same_dim = ["xa~xb", "km~m"] if quick else ["xa~xb", "km~m", "xa/xs~xb/xt"]
    rep_ops = [("add", same_dim), ("subtract", same_dim), ("maximum", same_dim), ("hypot", same_dim), ("remainder", same_dim),
               ("floor_divide", same_dim), ("less", same_dim), ("equal", same_dim), ("arctan2", same_dim),
               ("copysign", ["xa~xm", "km~m"]), ("multiply", ["xa~xm", "km~1/m"]), ("divide", ["xa~xm", "km~m"])]
    if not quick:
        rep_ops += [("minimum", same_dim[:2]), ("fmod", same_dim[:2]), ("greater_equal", same_dim[:2]), ("not_equal", same_dim[:2])]
    for i, (opn, prs) in enumerate(rep_ops):
        b = BIN[opn]
        for j, (kd, (sh0, sh1)) in enumerate(combos):
            rsh = np.broadcast_shapes(sh0, sh1)
            if b.discontinuous and int(np.prod(rsh)) > (2 if b.family == "floordiv" else 1):
                continue                               # floors: mixed Int/Real obligations - floor_divide (its own rescale block) on
                #                                        at most 2 elements, the remainders (the additive family's block) on 1
            fs = [f for f in b.forms() if not (f == "iop" and (rsh != sh0 or kd[0] == "qlist"))]
            if kd == ("", "") and (sh0, sh1) in ARR and opn in ("add", "subtract", "multiply", "divide") and quick:
                continue                               # walked above
            sel = [(prs[(i + j) % len(prs)], fs[(i + j) % len(fs)])] if quick else [(p, f) for p in prs for f in fs]
            for p, f in sel:
                add(make_binary_case(opn, f, *pair(p), sh0, sh1, kinds=kd))
    # the exponent of a power as a quantity written in a (scaled) dimensionless unit
    for eu in (("dimensionless", "percent", "km/m") if quick else ("dimensionless", "percent", "km/m", "cm/m")):
        for e in ((2, F(1, 2)) if quick else (2, F(1, 2), -1)):
            for f in ("op", "ufunc"):
                for sp in (["kxa"] if quick else ["kxa", "km/m", "xa/xs"]):
                    if sp == "km/m" and eu in ("percent", "cm/m") and abs(e) > 1:
                        continue                       # 1000**200 is not a float
                    add(make_power_qexp_case(e, eu, f, U_(sp)))
        add(make_power_qexp_case(2, eu, "ufunc", U_("kxa"), ekind="arr0d"))
        add(make_power_qexp_case(2, eu, "op", U_("kxa"), (2,)))
    for p in (["xv~xa/xs", "xv*g~kg*xa/xs", "mJ/cm**2~N/m"] if quick else PARTIAL_DIV + PARTIAL_DIV_TABLE):
        add(make_outer_case("divide", *pair(p), (2,), (2,)))
    for p in (["xv*g~xs/kg/xa", "mJ/cm**2~m/N"] if quick else PARTIAL_MUL + PARTIAL_MUL_TABLE):
        add(make_outer_case("multiply", *pair(p), (2,), (2,)))
    # same spelling, different scale: the same unit names in two registries / before and after registry.modify
    if quick:
        binary(addops + cmpops + modops, ["xa~xa"], SC, variant="tworeg")
        binary(addops + cmpops + modops, ["xa~xa"], SC, variant="modify")
        binary(["add", "subtract", "maximum", "less", "remainder"], ["kxa~kxa", "xa/xs~xa/xs", "xa~kxa"], SC, variant="tworeg")
        binary(["add", "subtract", "hypot", "greater_equal"], ["xa~xa"], ARR[2:], variant="tworeg")
        binary(["add", "minimum", "equal"], ["xa~xa"], ARR[:1], variant="modify")
    else:
        binary(addops + cmpops, SAME_SPELLING, SC + ARR, variant="tworeg")
        binary(modops, SAME_SPELLING, SC, variant="tworeg")
        # modify: atomic unit only - a prefixed/compound unit string looked up before the modify stays stale afterwards (C12's known defect)
        binary(addops + cmpops, ["xa~xa"], SC + ARR, variant="modify")
        binary(modops, ["xa~xa"], SC, variant="modify")
        binary(addops[:3], ["xa~xa"], ARR2, variant="tworeg")
    # divmod
    dm_pairs = (["xa~xb", "km~m", "xv*g~kg*xa/xs", "mJ/cm**2~N/m"] if quick else
                ["xa~xb", "xa/xs~xb/xt", "m~cm", "km~m", "xv~xa/xs", "xv*g~kg*xa/xs", "mJ/cm**2~N/m", "N~kg*m/s**2"])
    for f in (["op", "ufunc"] if quick else ["op", "ufunc", "out"]):
        for p in dm_pairs:
            add(make_divmod_case(f, *pair(p)))
        add(make_divmod_case(f, U_("xa"), U_("xa"), same_object=True, tag="/same"))
    # unary
    for opn, u in UN.items():
        forms = (["op"] if u.op else []) + ["ufunc", "out"]
        specs = UNARY_SPECS if not quick else (UNARY_SPECS if u.e != 1 else ["xa", "kxa", "xa/xs", "km/m"])
        for f in forms:
            for sp in specs:
                add(make_unary_case(opn, f, U_(sp)))
            add(make_unary_case(opn, f, U_("kxa"), (2,)))
            if not quick:
                add(make_unary_case(opn, f, U_("xa/xs"), (2, 2)))
    # power
    pspecs = ["xa", "kxa", "xa/xs", "km/m"] if quick else ["xa", "kxa", "xa*xs", "xa/xs", "xa**2", "km/m", "hr/min", "xp"]
    for e in EXPONENTS:
        for f in (["op", "ufunc"] if quick else ["op", "opfloat", "ufunc", "iop", "out"]):
            for sp in pspecs:
                add(make_power_case(e, f, U_(sp)))
        if quick:
            add(make_power_case(e, "iop", U_("xa")))
            add(make_power_case(e, "out", U_("kxa")))
        add(make_power_case(e, "op", U_("kxa"), (2,)))
    # array exponents (concrete), base of rank 0 and 1
    for exps in ([[2, 2], [2, 3]] if quick else [[2, 2], [3, 3], [F(1, 2), F(1, 2)], [-1, -1], [2, 3], [2]]):
        for f in ("op", "ufunc"):
            for sp in (["kxa", "km/m"] if quick else ["kxa", "km/m", "xp", "xa/xs"]):
                for sh in ((), (2,)):
                    add(make_power_array_case(exps, f, U_(sp), sh))
    # reductions
    rkinds = ["add.reduce", "add.accumulate", "multiply.reduce", "multiply.accumulate", "sum", "prod", "cumsum", "np.sum", "np.prod", "np.cumsum"]
    rspecs = ["xa", "kxa", "xa/xs", "km/m"] if quick else UNARY_SPECS
    for k in rkinds:
        for sp in rspecs:
            add(make_reduce_case(k, U_(sp), (2,)))
        for ax in ((0,) if quick else (None, 0, 1)):
            if ax is None and "accumulate" in k:
                continue
            add(make_reduce_case(k, U_("kxa"), (2, 2), ax))
    out.extend(reduce_axis_cases(tier))
    for p in (["xa~xb", "km~m", "bare~xp"] if quick else [q for q in ADD_PAIRS if q != "xp~bare"] + ADD_PAIRS_TABLE):
        add(make_outer_case("add", *pair(p), (2,), (2,)))
    for p in (["xa~xm", "km~1/m", "xa~bare"] if quick else MUL_PAIRS + MUL_ONLY_PAIRS + MUL_PAIRS_TABLE):
        add(make_outer_case("multiply", *pair(p), (2,), (2,)))
    # dot / matmul
    dshapes = [((2,), (2,)), ((2, 2), (2,)), ((2, 2), (2, 2))]
    dpairs = (["xa~xm", "kxa~xb", "km~1/m", "xv*g~xs/kg/xa"] if quick else
              ["xa~xm", "kxa~xb", "xa/xs~xm", "km~1/m", "km/hr~min", "xa~bare", "xa~xa", "xv*g~xs/kg/xa", "mJ/cm**2~m/N"])
    for f in DOT_FORMS:
        for p in dpairs:
            for sh0, sh1 in (dshapes[:2] if quick else dshapes):
                if f == "np.vdot" and (len(sh0) > 1 or len(sh1) > 1):
                    continue
                if f == "np.inner" and len(sh0) != len(sh1):
                    continue
                if f == "np.vecdot" and sh0 != sh1:
                    continue
                if quick and sh0 == (2, 2) and p != "xa~xm":
                    continue
                if sh1 == (2, 2) and p not in ("xa~xm", "kxa~xb", "km~1/m"):
                    continue  # 8 product terms with inexact table coefficients: z3 does not finish
                add(make_dot_case(f, *pair(p), sh0, sh1))
    if quick:
        add(make_dot_case("matmul", *pair("xa~xm"), (2, 2), (2, 2)))
    # trigonometry of angles
    for fn in ("sin", "cos", "tan"):
        for sp in ANGLE_SPECS:
            add(make_trig_case(fn, "ufunc", U_(sp)))
        add(make_trig_case(fn, "out", U_("xg"), (2,)))
        add(make_trig_case(fn, "ufunc", U_("degree"), (2,)))
    # ... of angle units WITH AN OFFSET (symbolic scale of either sign, symbolic offset; lat and lon of the default table), walked over
    # call form x how the operand came to be written in the unit x payload shape; the offset-free units go through the same
    # operand histories
    fns = ("sin", "cos", "tan")
    off = [OffSpec(n) for n in ("xgo", "lat", "lon")]
    if quick:
        for i, fn in enumerate(fns):
            for sp in off:
                for f in TRIG_FORMS:
                    add(make_trig_case(fn, f, sp))
            for j, how in enumerate(TRIG_HOWS[1:]):
                for k, sp in enumerate(off):
                    if (i + j + k) % 3 == 0:
                        add(make_trig_case(fn, "ufunc", sp, how=how))
                if (i + j) % 3 == 1:
                    add(make_trig_case(fn, TRIG_FORMS[1 + j % 2], U_("xg"), how=how))
            add(make_trig_case(fn, "ufunc", off[0], (2,)))
            add(make_trig_case(fn, "out", off[1 + i % 2], (2,)))
            add(make_trig_case(fn, "outq", off[0], (2, 2)))
    else:
        for fn in fns:
            for sp in off:
                for f in TRIG_FORMS:
                    for how in TRIG_HOWS:
                        for sh in ((), (2,)):
                            add(make_trig_case(fn, f, sp, sh, how=how))
                    add(make_trig_case(fn, f, sp, (2, 2)))
            for sp in (U_("xg"), U_("kxg"), U_("degree"), U_("xg*km/m")):
                for how in TRIG_HOWS[1:]:
                    if how == "todeg" and sp.text == "degree":
                        continue
                    for f in TRIG_FORMS:
                        add(make_trig_case(fn, f, sp, how=how))
    for n in TRIG_PROGRAMS:
        for sp in (off if not quick else off[:2]):
            add(make_trig_program_case(n, sp))
        if not quick:
            add(make_trig_program_case(n, off[0], "degree"))
    # clip
    for f in ("np.clip", "np.clip.out"):
        add(make_clip_case(f, U_("xa"), U_("xa"), U_("xa"), same_object=True, tag="/same"))
        add(make_clip_case(f, U_("xa"), U_("xb"), U_("xc")))
        add(make_clip_case(f, U_("m"), U_("cm"), U_("km")))
        add(make_clip_case(f, U_("km/hr"), U_("km/hr"), U_("km/hr"), same_object=True, tag="/same"))
        add(make_clip_case(f, U_("xa"), U_("xa"), U_("xa"), tag="/equal"))
    # depth-2 programs
    for n in PROGRAMS:
        add(make_program_case(n))
    for p in ("xa~xm", "kxa~xb", "km~1/m"):
        add(make_reduce_product_case(*pair(p)))
    # dimension sweep (thorough): the unit rules branch on `is temperature/angle/logarithmic/dimensionless` only
    if not quick:
        dims = [(n, d) for n, d in dims_catalogue(mods, tier) if n not in ("logarithmic",)]
        for n, d in dims:
            ov = {"xd": d, "xe": d}
            if n != "temperature":
                add(make_binary_case("add", "op", U_("xd"), U_("kxe"), dims_override=ov, tag=f"/dim:{n}"))
                add(make_binary_case("subtract", "ufunc", U_("kxd"), U_("xe"), dims_override=ov, tag=f"/dim:{n}"))
            add(make_unary_case("sqrt", "ufunc", U_("kxd"), dims_override=ov, tag=f"/dim:{n}"))
        for (n0, d0), (n1, d1) in itertools.product(dims, dims):
            ov = {"xd": d0, "xe": d1}
            if d0 * d1 != 1 and not (n0 == "dimensionless" or n1 == "dimensionless"):
                add(make_binary_case("multiply", "op", U_("xd"), U_("kxe"), dims_override=ov, tag=f"/dim:{n0}*{n1}"))
            if d0 / d1 != 1 and not (n0 == "dimensionless" or n1 == "dimensionless"):
                add(make_binary_case("divide", "op", U_("kxd"), U_("xe"), dims_override=ov, tag=f"/dim:{n0}:{n1}"))
    return out
