"""Shared machinery of the registry model checks C12 / C13.

The transition function is the REAL unyt code (UnitRegistry.add/modify/remove, define_unit, Unit.__new__ with its
per-registry string cache, _lookup_unit_symbol with its write-back, the lru-cached unit rules). What is written here is
the *specification*: a tiny reference model of a registry (symbol -> (scale term, dims, offset, prefixable)), an
evaluator for a fixed set of probe strings, and bookkeeping that describes the circumstances of an observation
(which edit came last, what had been requested before it) so that findings get stable, narrow fingerprints.
"""
import hashlib

import z3

from symx.core import SymBool

from .common import PREFIX, And, call, close

# harness symbols (A10: checked by common.check_names in cases())
FOO, BAR = "xfoo", "xbar"
NAMES = [FOO, BAR, "xnew", "xqq"]

# independent table of the few default symbols the harness uses (SI scale, dimension name)
TABLE = {"m": (1.0, "length"), "s": (1.0, "time"), "kg": (1.0, "mass"), "km": (1000.0, "length"), "g": (1.0e-3, "mass"),
         "K": (1.0, "temperature"), "cm": (1.0e-2, "length"), "hr": (3600.0, "time"), "J": (1.0, "energy"),
         "erg": (1.0e-7, "energy"), "W": (1.0, "power")}
BASE_OF_DIM = {"length": "m", "mass": "kg", "time": "s"}


# ------------------------------------------------------------------------------------ path selection

def sel(ctx, name, n):
    """a discrete choice in range(n) driven by a solver symbol: in symbolic mode each comparison forks, so the explorer
    walks all n alternatives (one path each); in replay/pinned mode the stored number selects the same alternative.
    Real-valued on purpose (interval decoding): no Int/ToInt terms enter the path condition."""
    o = ctx.real(name, lo=0, hi=n)
    for k in range(n - 1):
        if o < k + 1:
            return k
    return n - 1


# ------------------------------------------------------------------------------------ the reference model (the spec)

class Model:
    """what a registry contains, by the documented meaning of each operation"""

    def __init__(self, rows=None, tags=None):
        self.t = dict(rows or {})
        self.tags = dict(tags or {})  # provenance of each scale (for counting distinct states), not used by eval

    def add(self, sym, scale, dims, offset=0.0, prefixable=False, tag=""):
        self.t[sym] = (scale, dims, offset, prefixable)
        self.tags[sym] = tag

    def modify(self, sym, scale, dims=None, tag=""):
        old = self.t[sym]
        self.t[sym] = (scale, old[1] if dims is None else dims, old[2], old[3])
        self.tags[sym] = tag

    def remove(self, sym):
        del self.t[sym]
        self.tags.pop(sym, None)

    def atom(self, prefix, sym):
        row = self.t.get(sym)
        if row is None or (prefix and not row[3]):
            return None
        return (row[0] * PREFIX[prefix] if prefix else row[0]), row[1]

    def eval(self, factors):
        """factors: [(prefix, symbol, integer exponent)] with identical factors already cancelled -> (scale, dims) | None"""
        scale, dims = 1.0, 1
        for p, sym, e in factors:
            a = self.atom(p, sym)
            if a is None:
                return None
            scale = scale * a[0] ** e
            dims = dims * a[1] ** e
        return scale, dims

    def key(self):
        return ";".join(f"{k}={self.tags.get(k)},{v[1]},{v[3]}" for k, v in sorted(self.t.items()))

    def copy(self):
        return Model(self.t, self.tags)


class Probe:
    """a unit string with its meaning: `net` = factors after cancellation (what the model evaluates),
    `text` = factors as spelled (what the memo layers key on)"""

    def __init__(self, kind, string, net, text=None):
        self.kind, self.string, self.net = kind, string, net
        self.text = net if text is None else text

    def atoms(self):
        return {s for _, s, _ in self.text}


def probes(foo=FOO, bar=BAR):
    return [
        Probe("atom", foo, [("", foo, 1)]),
        Probe("prefixed_k", "k" + foo, [("k", foo, 1)]),
        Probe("prefixed_m", "m" + foo, [("m", foo, 1)]),
        Probe("atom2", bar, [("", bar, 1)]),
        Probe("compound", f"{foo}*{bar}", [("", foo, 1), ("", bar, 1)]),
        Probe("compound_prefixed", f"k{foo}**2/{bar}", [("k", foo, 2), ("", bar, -1)]),
        Probe("ratio", f"{foo}/{foo}", [], text=[("", foo, 1), ("", foo, -1)]),
    ]


def dims_equal(a, b):
    if a is b:
        return True
    try:
        return bool(a == b)
    except Exception:  # noqa: BLE001
        return False


def resolution_ok(res, exp, tol=None):
    """does the outcome `res` = call(construct) agree with the model's answer `exp` ((scale, dims) | None = unknown)?"""
    if exp is None:
        return res[0] == "raise" and type(res[1]).__name__ in ("UnitParseError", "SymbolNotFoundError")
    if res[0] != "ok":
        return False
    u = res[1]
    u = getattr(u, "units", u)
    return And(close(u.base_value, exp[0]), dims_equal(u.dimensions, exp[1]))


def describe(res):
    if res[0] == "raise":
        return type(res[1]).__name__
    u = getattr(res[1], "units", res[1])
    return f"{u.base_value!r} {u.dimensions}"


def obs_value(res):
    if res[0] == "raise":
        return "raise:" + type(res[1]).__name__
    u = getattr(res[1], "units", res[1])
    return u.base_value


# ------------------------------------------------------------------------------------ circumstances of an observation

class Log:
    """what was requested of / done to one registry, in order. Purely descriptive (it never predicts the implementation):
    used to label an observation with the last edit that touched the probe's symbols and with what had been requested
    before that edit ('S' the very string, 'P' a prefixed spelling occurring in it)."""

    def __init__(self, atoms):
        self.time = 0
        self.requests = []  # (time, string, text factors)
        self.edit_time = {a: 0 for a in atoms}
        self.edit_kind = {a: "init" for a in atoms}

    def tick(self):
        self.time += 1
        return self.time

    def request(self, string, text):
        self.requests.append((self.tick(), string, tuple(text)))

    def edit(self, atom, kind):
        self.edit_time[atom] = self.tick()
        self.edit_kind[atom] = kind

    def circumstances(self, probe):
        atoms = sorted(probe.atoms())
        last = max(atoms, key=lambda a: self.edit_time.get(a, 0))
        t_last = self.edit_time.get(last, 0)
        S = any(t < t_last and s == probe.string for t, s, _ in self.requests)
        P = False
        for p, a, _ in probe.text:
            if p:
                ta = self.edit_time.get(a, 0)
                P = P or any(t < ta and any(pp == p and aa == a for pp, aa, _ in txt) for t, _, txt in self.requests)
        warm = ("S" if S else "") + ("P" if P else "") or "fresh"
        return f"after-{self.edit_kind.get(last, 'init')}/{warm}"

    def label(self, probe):
        return f"{probe.kind.split('_')[0] if probe.kind.startswith('prefixed') else probe.kind}/{self.circumstances(probe)}"


# ------------------------------------------------------------------------------------ coverage bookkeeping

def mc_stats(ctx):
    st = getattr(ctx, "stats", None)
    if st is None or getattr(ctx, "pinned", False):
        return None
    return st.setdefault("mc", {"states": set(), "transitions": 0, "traces": 0, "impl_calls": 0})


def state_id(text):
    return hashlib.md5(text.encode()).hexdigest()[:12]


def merge_mc(results):
    states, transitions, traces, calls = set(), 0, 0, 0
    for r in results:
        mc = r["stats"].get("mc")
        if mc:
            states |= mc["states"]
            transitions += mc["transitions"]
            traces += mc["traces"]
            calls += mc["impl_calls"]
    d = dict(states=len(states), transitions=transitions, traces_validated_against_impl=traces)
    if calls:
        d["implementation_calls_observed"] = calls
    return d


def trivially_true(cond):
    return cond is True or (isinstance(cond, SymBool) and z3.is_true(z3.simplify(cond.t)))


def req(ctx, label, cond, info):
    """ctx.require with the (expensive to print) diagnostics built only when the obligation is not trivially true"""
    if trivially_true(cond):
        return ctx.require(label, True)
    return ctx.require(label, cond, **info())


def exc(res):
    return type(res[1]).__name__ if res[0] == "raise" else None


__all__ = ["FOO", "BAR", "NAMES", "TABLE", "BASE_OF_DIM", "sel", "Model", "Probe", "probes", "dims_equal", "resolution_ok",
           "describe", "obs_value", "Log", "req", "trivially_true", "mc_stats", "state_id", "merge_mc", "exc", "call"]
