"""Shared by C02, C14, C15: the independent reader of unit names (prefix splitter), the symbolic-scale registry, the
independent dimension algebra and the independent definition tables (exact legal/SI definitions, CODATA/IAU values).

What is read from unyt and what is written here
  read (pure data, the *subject* of the checks): default_unit_symbol_lut (symbol -> scale, dims, offset, prefixable),
        default_unit_name_alternatives (the documented alias list), physical_constants;
  written here (the oracle): SI prefix symbols/words and their values, the rules by which a spelling is read
        (symbol > listed alias > prefix+prefixable symbol/short alias > prefix word+alias > title-case variant),
        the dimension-vector algebra, the definition tables DEFS / CONST_DEFS.
None of unyt's name machinery (generate_name_alternatives, inv_name_alternatives, _split_prefix, _lookup_unit_symbol,
_auto_positive_symbol) is used to compute an expected value.
"""
import math
from fractions import Fraction

from .common import PREFIX, And, close, exact_eq

F = Fraction

# SI prefix words (written for this check). 'micro' denotes the same factor under all three symbol spellings.
PREFIX_WORD = {"yotta": "Y", "zetta": "Z", "exa": "E", "peta": "P", "tera": "T", "giga": "G", "mega": "M", "kilo": "k",
               "hecto": "h", "deca": "da", "deci": "d", "centi": "c", "milli": "m", "micro": "u", "nano": "n", "pico": "p",
               "femto": "f", "atto": "a", "zepto": "z", "yocto": "y"}
PREFIX_SYMS = list(PREFIX)          # 22 spellings incl. u / MICRO SIGN / GREEK MU and the two-letter 'da'
SHORT = 4                           # an alias shorter than this may take a prefix *symbol* (kamp, mohm, ml ...)


def F_(x):
    """exact rational of a float / decimal string / int"""
    if isinstance(x, str):
        return Fraction(x)
    return Fraction(x)


# --------------------------------------------------------------------------------------------- tables read from unyt

class Tables:
    """the documented data: symbols (with prefixable flag) and listed aliases"""

    def __init__(self):
        from unyt._unit_lookup_table import default_unit_name_alternatives, default_unit_symbol_lut
        self.rows = dict(default_unit_symbol_lut)                       # sym -> (scale, dims, offset, tex, prefixable)
        self.syms = list(default_unit_symbol_lut)
        self.prefixable = {s for s, r in default_unit_symbol_lut.items() if r[4]}
        self.alias = {}                                                 # alias -> sym (first listing wins)
        self.alias_dups = []
        for sym, alts in default_unit_name_alternatives.items():
            for a in alts:
                if a in self.alias and self.alias[a] != sym:
                    self.alias_dups.append((a, self.alias[a], sym))
                self.alias.setdefault(a, sym)
        # segment sets of the reading kinds
        self.pb = {s: s for s in self.prefixable}                       # base spellings a prefix SYMBOL may be put on
        for a, s in self.alias.items():
            if s in self.prefixable and len(a) < SHORT:
                self.pb.setdefault(a, s)
        self.wb = {a: s for a, s in self.alias.items() if s in self.prefixable}   # bases a prefix WORD may be put on
        # title-case variants: of lower-case alias words, of prefix-word forms and of long non-prefixable symbols
        self.ta = {}                                                    # Title(alias) -> (sym, alias)
        for a, s in self.alias.items():
            if a.islower() and len(a) >= SHORT and a.title() != a:
                self.ta.setdefault(a.title(), (s, a))
        self.tb = {}                                                    # what follows a Title(prefix word): -> (sym, alias)
        for a, s in self.wb.items():
            self.tb.setdefault(("x" + a).title()[1:], (s, a))
        self.ts = {}                                                    # Title(symbol) -> symbol
        for s in self.syms:
            if s not in self.prefixable and len(s) >= SHORT and s.title() != s and all(len(k) >= SHORT for k in s.split("_")):
                self.ts.setdefault(s.title(), s)

    def kinds(self):
        """reading kinds as (prefix spellings -> prefix symbol, base spellings -> canonical symbol), in order of authority"""
        return [
            ("symbol", {"": ""}, {s: s for s in self.syms}),
            ("alias", {"": ""}, dict(self.alias)),
            ("psym", {p: p for p in PREFIX_SYMS}, dict(self.pb)),
            ("pword", dict(PREFIX_WORD), dict(self.wb)),
            ("title-alias", {"": ""}, {t: v[0] for t, v in self.ta.items()}),
            ("title-pword", {w.title(): p for w, p in PREFIX_WORD.items()}, {t: v[0] for t, v in self.tb.items()}),
            ("title-symbol", {"": ""}, dict(self.ts)),
        ]


_T = {}


def tables():
    if "t" not in _T:
        _T["t"] = Tables()
    return _T["t"]


# --------------------------------------------------------------------------------------------- the independent reader

def readings(name, T=None, title=True):
    """all readings of a spelling as (kind, prefix_symbol, canonical_symbol, base_spelling), most authoritative first.
    kinds: symbol, alias, psym (prefix symbol ++ prefixable symbol or short alias), pword (prefix word ++ alias),
    title-alias / title-pword / title-symbol (title-case variants)"""
    T = T or tables()
    out = []
    for kind, P, B in T.kinds():
        if kind.startswith("title") and not title:
            continue
        for pw, p in P.items():
            if name.startswith(pw) and name[len(pw):] in B:
                out.append((kind, p, B[name[len(pw):]], name[len(pw):]))
    return out


def denotation(r):
    """(prefix factor, canonical symbol) of a reading"""
    return (PREFIX[r[1]] if r[1] else 1.0, r[2])


def expected(name, T=None):
    """the unit a spelling denotes by the documented precedence, or None if it has no reading"""
    rs = readings(name, T)
    if name in ("", "_"):
        return (1.0, "dimensionless")
    return denotation(rs[0]) if rs else None


def label_of(name, T=None):
    """stable obligation label component: reading kind + base spelling (all prefixes of one base share a label)"""
    rs = readings(name, T)
    if not rs:
        return "unread/" + name
    return f"{rs[0][0]}/{rs[0][3]}"


def distinct_denotations(name, T=None, title=False):
    return sorted({denotation(r) for r in readings(name, T, title=title)}, key=str)


# --------------------------------------------------------------------------------------------- dimension vectors

def dimvec(dims):
    """exponent vector of a sympy dimension expression over the base dimensions, by name (independent of the way
    Unit.__mul__/__pow__ carry `dimensions` along)"""
    import sympy
    if dims == 1:
        return {}
    out = {}
    for b, e in sympy.expand(dims).as_powers_dict().items():
        if b.is_Number:
            if b != 1:
                raise ValueError(f"numeric factor in a dimension: {dims}")
            continue
        e = Fraction(int(sympy.Rational(e).p), int(sympy.Rational(e).q))
        if e:
            out[str(b)] = out.get(str(b), 0) + e
    return {k: v for k, v in out.items() if v}


def vec_add(a, b, k=1):
    out = dict(a)
    for n, e in b.items():
        out[n] = out.get(n, 0) + e * k
    return {n: e for n, e in out.items() if e}


# --------------------------------------------------------------------------------------------- symbolic-scale registry

def scale_symbol(sym):
    return "s:" + sym


def sym_registry(ctx, unit_system=None):
    """A fresh real UnitRegistry whose rows are the real default table rows (dims, offset, tex, prefixable flag) with the
    scale of every base symbol replaced by a fresh positive symbol (`lat` keeps its concrete negative scale, and
    `dimensionless` stays 1: the empty unit string is the number one, not a table row).
    Symbolic mode: SymReal scales put directly into reg.lut. Concrete mode: floats (the model's values on replay,
    pinned values in the conformance run). Returns (reg, S) with S[sym] = the scale as this mode represents it."""
    T = tables()
    UR = ctx.mods["UR"]
    lut, S = {}, {}
    for sym, (val, dims, off, tex, pref) in T.rows.items():
        if val > 0 and sym != "dimensionless":
            s = ctx.real(scale_symbol(sym), pos=True)
            if not ctx.symbolic:
                s = float(s)
        else:
            s = val
        S[sym] = s
        lut[sym] = (s, dims, off, tex, pref)
    kw = {"unit_system": unit_system} if unit_system else {}
    reg = UR.UnitRegistry(add_default_symbols=False, lut=lut, **kw)
    return reg, S


def oracle_var(ctx, name, value):
    """the expected magnitude as a solver variable constrained by its definition (symbolic mode), so that the obligation is
    decided by the solver under the path condition rather than by term normalisation; the plain value otherwise"""
    if ctx.symbolic and not ctx.pinned:
        e = ctx.real(name)
        ctx.assume(exact_eq(e, value))
        return e
    return value


def unit_ok(ctx, u, E, T, exp, check_offset=True):
    pv, sym = exp
    row = T.rows[sym]
    ok = And(close(u.base_value, E), dimvec(u.dimensions) == dimvec(row[1]))
    if pv == 1.0 and check_offset:
        ok = And(ok, float(u.base_offset) == float(row[2]))
    return ok



# --------------------------------------------------------------------------------------------- definition tables
# Exact definitions are rationals (decimal strings are exact). PI is the double nearest to pi: the table is built from
# np.pi, and the tolerance class 'exact' (8 ulp) absorbs the representation error.
PI = Fraction(math.pi)
ULP = Fraction(1, 2**52)
TOL = {
    "weight": F("1e-4"),         # standard atomic weight (natural isotopic variation)
    "exact": 8 * ULP,            # exact legal / SI definition; a few roundings of float arithmetic in the table
    "rounded": F("1e-7"),        # a published exact value quoted to >= 8 significant digits
    "codata": F("1e-6"),         # measured constant: CODATA adjustments 1986..2018 agree to better than this
    "iau": F("1e-3"),            # astronomical nominal / measured values (IAU 2009/2015, Standish 1995)
    "cited": 8 * ULP,            # a literature value cited by name (solar metallicities): must be the cited number
}

g0 = F("9.80665")
lb = F("0.45359237")
inch = F("0.0254")
ft = 12 * inch
mile = 5280 * ft
c_ms = F(299792458)
day = F(86400)
yr = F("365.25") * day
au = F(149597870700)
pc = au * 648000 / PI
gal_us = 231 * inch**3
gal_uk = F("4.54609e-3")
btu = F("1055.05585262")
h_2010 = F("6.62606957e-34")
kb_2010 = F("1.3806488e-23")
G_2014 = F("6.67408e-11")
e_2014 = F("1.6021766208e-19")
me_2010 = F("9.10938291e-31")
mp_2018 = F("1.67262192369e-27")
amu_2010 = F("1.660538921e-27")
Msun = F("1.98841e30")           # IAU 2015 nominal GM_sun / CODATA G
mu0 = 4 * PI * F("1e-7")
eps0 = 1 / (mu0 * c_ms**2)
hbar = h_2010 / (2 * PI)
Rinf = F("10973731.568")
sigma_sb = 2 * PI**5 * kb_2010**4 / (15 * c_ms**2 * h_2010**3)

# sym -> (definition in SI coherent units, class, note). Rows whose definition is a relation to other quantities that is
# irrational (Planck units, CGS-EM half-integer powers) are given as (value**k, k) pairs in DEFS_POW.
DEFS = {
    "m": (F(1), "exact", "SI base"), "g": (F("1e-3"), "exact", "1e-3 kg"), "s": (F(1), "exact", "SI base"),
    "K": (F(1), "exact", "SI base"), "rad": (F(1), "exact", "SI"), "A": (F(1), "exact", "SI base"),
    "cd": (F(1), "exact", "SI base"), "mol": (F("6.02214076e23"), "codata", "Avogadro number (count)"),
    "dyn": (F("1e-5"), "exact", "g cm/s^2"), "erg": (F("1e-7"), "exact", "g cm^2/s^2"), "Ba": (F("0.1"), "exact", "dyn/cm^2"),
    "statohm": (F(100), "exact", "s/cm"),
    "J": (F(1), "exact", ""), "W": (F(1), "exact", ""), "Hz": (F(1), "exact", ""), "N": (F(1), "exact", ""),
    "C": (F(1), "exact", ""), "T": (F(1), "exact", ""), "Pa": (F(1), "exact", ""), "bar": (F(100000), "exact", "1e5 Pa"),
    "V": (F(1), "exact", ""), "F": (F(1), "exact", ""), "H": (F(1), "exact", ""), "Ω": (F(1), "exact", ""),
    "Wb": (F(1), "exact", ""), "lm": (F(1), "exact", ""), "lx": (F(1), "exact", ""),
    "degC": (F(1), "exact", "1 K steps"), "delta_degC": (F(1), "exact", ""), "L": (F("1e-3"), "exact", "dm^3"),
    "ha": (F(10000), "exact", "hm^2"), "t": (F(1000), "exact", "tonne"),
    "mil": (inch / 1000, "exact", "1/1000 in"), "inch": (inch, "exact", "0.0254 m (1959)"), "ft": (ft, "exact", "12 in"),
    "yd": (3 * ft, "exact", "3 ft"), "mile": (mile, "exact", "5280 ft"), "nmi": (F(1852), "exact", "1852 m (1929)"),
    "mph": (mile / 3600, "exact", "mile/h"), "kt": (F(1852) / 3600, "exact", "nmi/h"),
    "acre": (43560 * ft**2, "exact", "43560 ft^2"), "furlong": (660 * ft, "exact", "660 ft"),
    "degF": (F(5, 9), "exact", "5/9 K"), "delta_degF": (F(5, 9), "exact", ""), "R": (F(5, 9), "exact", ""),
    "lbf": (lb * g0, "exact", "lb*g0"), "kip": (1000 * lb * g0, "exact", "1000 lbf"), "lb": (lb, "exact", "0.45359237 kg (1959)"),
    "atm": (F(101325), "exact", "101325 Pa"), "hp": (550 * ft * lb * g0, "exact", "550 ft lbf/s"),
    "oz": (lb / 16, "exact", "lb/16"), "ton": (2000 * lb, "exact", "2000 lb"), "ton_UK": (2240 * lb, "exact", "2240 lb"),
    "slug": (lb * g0 / ft, "exact", "lbf s^2/ft"),
    "fl_oz_US": (gal_us / 128, "exact", "gal/128"), "fl_oz_UK": (gal_uk / 160, "exact", "gal/160"),
    "pt_US": (gal_us / 8, "exact", ""), "pt_UK": (gal_uk / 8, "exact", ""), "qt_US": (gal_us / 4, "exact", ""),
    "qt_UK": (gal_uk / 4, "exact", ""), "gal_US": (gal_us, "exact", "231 in^3"), "gal_UK": (gal_uk, "exact", "4.54609 L"),
    "cal": (F("4.184"), "exact", "thermochemical"), "BTU": (btu, "rounded", "IT BTU = 1055.05585262 J"),
    "MMBTU": (btu * 10**6, "rounded", ""), "therm": (btu * 10**5, "rounded", ""), "quad": (btu * 10**15, "rounded", ""),
    "Wh": (F(3600), "exact", ""),
    "pli": (lb * g0 / inch, "exact", "lbf/in"), "plf": (lb * g0 / ft, "exact", "lbf/ft"),
    "psi": (lb * g0 / inch**2, "exact", ""), "psf": (lb * g0 / ft**2, "exact", ""),
    "kli": (1000 * lb * g0 / inch, "exact", ""), "klf": (1000 * lb * g0 / ft, "exact", ""),
    "ksi": (1000 * lb * g0 / inch**2, "exact", ""), "ksf": (1000 * lb * g0 / ft**2, "exact", ""),
    "smoot": (67 * inch, "exact", "67 in"),
    "dimensionless": (F(1), "exact", ""), "%": (F("0.01"), "exact", ""),
    "min": (F(60), "exact", ""), "hr": (F(3600), "exact", ""), "day": (day, "exact", ""), "week": (7 * day, "exact", ""),
    "fortnight": (14 * day, "exact", ""), "yr": (yr, "exact", "Julian year"),
    "c": (c_ms, "exact", "SI"),
    "Msun": (Msun, "iau", ""), "Rsun": (F("6.957e8"), "iau", "IAU 2015 nominal"), "Lsun": (F("3.828e26"), "iau", "IAU 2015 nominal"),
    "Tsun": (F(5772), "iau", "IAU 2015 nominal effective temperature"),
    "Zsun": (F("0.01295"), "cited", "Cloudy 17.03"), "Zsun_angr": (F("0.01937"), "cited", "Anders & Grevesse 1989"),
    "Zsun_aspl": (F("0.01337"), "cited", "Asplund et al. 2009"), "Zsun_feld": (F("0.01909"), "cited", "Feldman 1992"),
    "Zsun_lodd": (F("0.01321"), "cited", "Lodders 2003"),
    "Mjup": (Msun / F("1047.3486"), "iau", "Standish 1995 ratio"), "Mearth": (Msun / F("328900.56"), "iau", "Earth+Moon"),
    "Rjup": (F("6.9911e7"), "iau", "volumetric mean"), "Rearth": (F("6.3710e6"), "iau", "volumetric mean"),
    "AU": (au, "rounded", "IAU 2012"), "ly": (c_ms * yr, "rounded", "c * Julian year"), "pc": (pc, "rounded", "648000/pi au"),
    "degree": (PI / 180, "exact", ""), "arcmin": (PI / 10800, "exact", ""), "arcsec": (PI / 648000, "exact", ""),
    "mas": (PI / 648000000, "exact", ""), "hourangle": (PI / 12, "exact", ""), "sr": (F(1), "exact", ""),
    "lat": (-PI / 180, "exact", ""), "lon": (PI / 180, "exact", ""), "rpm": (2 * PI / 60, "exact", ""), "rev": (2 * PI, "exact", ""),
    "spat": (4 * PI, "exact", ""), "gradian": (PI / 200, "exact", ""),
    "eV": (e_2014, "codata", ""), "foe": (F(10)**44, "exact", "1e51 erg"), "bethe": (F(10)**44, "exact", ""),
    "amu": (amu_2010, "codata", ""), "Å": (F("1e-10"), "exact", ""), "Jy": (F("1e-26"), "exact", ""),
    "counts": (F(1), "exact", ""), "photons": (F(1), "exact", ""), "me": (me_2010, "codata", ""),
    "mp": (mp_2018, "codata", "proton mass"), "Sv": (F(1), "exact", "J/kg"),
    "Ry": (h_2010 * c_ms * Rinf, "codata", "h c R_inf"),
    "rayleigh": (F(10)**10 / (4 * PI), "exact", "1e10/(4 pi) photons/(m^2 s sr)"), "lambert": (F(10)**4 / PI, "exact", "1e4/pi cd/m^2"),
    "nt": (F(1), "exact", "cd/m^2"),
    "m_geom": (Msun, "iau", ""), "l_geom": (G_2014 * Msun / c_ms**2, "iau", "G Msun/c^2"), "t_geom": (G_2014 * Msun / c_ms**3, "iau", ""),
    "Np": (F(1), "exact", ""),
}
# rows given through a power: row**k == value (class)
DEFS_POW = {
    "G": (2, F("0.1"), "exact", "g^1/2 cm^-1/2 s^-1 in kg,m,s"), "statC": (2, F("1e-9"), "exact", "g^1/2 cm^3/2 s^-1"),
    "statA": (2, F("1e-9"), "exact", "statC/s"), "statV": (2, F("1e-5"), "exact", "erg/statC"), "Mx": (2, F("1e-9"), "exact", "G cm^2"),
    "m_pl": (2, hbar * c_ms / G_2014, "codata", "hbar c/G"), "l_pl": (2, hbar * G_2014 / c_ms**3, "codata", "hbar G/c^3"),
    "t_pl": (2, hbar * G_2014 / c_ms**5, "codata", "hbar G/c^5"), "T_pl": (2, hbar * c_ms**5 / (G_2014 * kb_2010**2), "codata", ""),
    "q_pl": (2, 4 * PI * eps0 * hbar * c_ms, "codata", "4 pi eps0 hbar c"), "E_pl": (2, hbar * c_ms**5 / G_2014, "codata", ""),
}
# ln(10)/2 is irrational: bracket the double
DEFS_BRACKET = {"B": (F("1.15129254649702"), F("1.15129254649703"), "ln(10)/2 Np")}
OFFSETS = {"degC": F("-273.15"), "degF": F("-459.67"), "lat": F(90), "lon": F(-180)}

# physical constants: name -> (value in the SI-coherent unit of the table, class, note)
CONST_DEFS = {
    "me": (F("9.1093837015e-31"), "codata", "CODATA 2018"), "Na": (F("6.02214076e23"), "codata", "SI 2019"),
    "mp": (mp_2018, "codata", "CODATA 2018"), "mh": (F("1.00794") * F("1.66053906660e-27"), "weight", "standard atomic weight of H * u"),
    "c": (c_ms, "exact", ""), "σ_T": (F("6.6524587321e-29"), "codata", "CODATA 2018"),
    "qp": (F("1.602176634e-19"), "codata", "SI 2019"), "qe": (-F("1.602176634e-19"), "codata", ""),
    "kb": (F("1.380649e-23"), "codata", "SI 2019"), "G": (F("6.67430e-11"), "iau", "CODATA 2018 (rel. unc. 2e-5)"),
    "h": (F("6.62607015e-34"), "codata", "SI 2019"), "hbar": (F("6.62607015e-34") / (2 * PI), "codata", ""),
    "σ": (F("5.670374419e-8"), "codata", ""), "a": (F("7.565733e-16"), "codata", "4 sigma/c"),
    "Tcmb": (F("2.7255"), "iau", "Fixsen 2009"), "Msun": (Msun, "iau", ""), "Mjup": (F("1.89813e27"), "iau", "system mass"),
    "mercury_mass": (F("3.3011e23"), "iau", ""), "venus_mass": (F("4.8675e24"), "iau", ""), "Mearth": (F("6.0457e24"), "iau", "Earth+Moon"),
    "mars_mass": (F("6.4171e23"), "iau", ""), "saturn_mass": (F("5.6846e26"), "iau", "system mass"), "uranus_mass": (F("8.6819e25"), "iau", "system"),
    "neptune_mass": (F("1.02431e26"), "iau", "system"),
    "m_pl": (F("2.176434e-8"), "iau", "CODATA 2018"), "l_pl": (F("1.616255e-35"), "iau", ""), "t_pl": (F("5.391247e-44"), "iau", ""),
    "E_pl": (F("1.956082e9"), "iau", ""), "q_pl": (F("1.875545956e-18"), "iau", ""), "T_pl": (F("1.416784e32"), "iau", ""),
    "mu_0": (mu0, "codata", ""), "eps_0": (eps0, "codata", ""), "R_inf": (F("10973731.568160"), "codata", ""),
    "standard_gravity": (g0, "exact", ""),
}


def float_q(x):
    """the exact rational value of a table float"""
    return Fraction(float(x))


def within(ctx, row, ref, tol):
    """|row - ref| <= tol*|ref| over exact rationals: a ground z3 formula in symbolic mode, Fraction arithmetic on replay"""
    row, ref, tol = Fraction(row), Fraction(ref), Fraction(tol)
    if not ctx.symbolic:
        return abs(row - ref) <= tol * abs(ref)
    import z3
    from symx.core import SymBool, rv
    r, d, t = rv(row), rv(ref), rv(tol)
    return SymBool(z3.If(r - d >= 0, r - d, d - r) <= t * z3.If(d >= 0, d, -d))
