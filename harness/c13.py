"""C13 - registries are isolated from each other and the default registry is read-only (bounded model checking)."""
import copy
import itertools
import pickle
import types

import z3

from symx.core import SymReal
from symx.shims import clear_caches

from .common import PREFIX, And, Case, Not, band, call, check_names, close, exact_eq, payload
from .registry_common import BAR, FOO, NAMES, dims_equal, mc_stats, merge_mc, req, sel, state_id

LEVEL = "model_checking"
MANIFEST = dict(
    category="model_checking",
    text=("Bounded model checking of aliasing between registries with the real code as transition function: 2-3 registries created in "
          "every listed way (empty, with defaults, lut=, from_json, unpickled, deepcopy, Unit.copy() shallow/deep, copy.copy(), non-default unit "
          "system, a registry that redefines the prefixable stock symbol 'm'), pairs of registries BORN TOGETHER from one source (two arrays / "
          "a Unit and an array / nested containers in ONE pickle.dumps, the same bytes or the same JSON text restored twice, one deepcopy of a "
          "container, two copies) with the source kept under observation, plus the default registry and the unyt namespace; ALL "
          "interleavings of operations up to the bound are executed; after every step every registry is digested through four channels "
          "(Unit(s) answered from the registry's warm string cache, reg[s] / s in reg which bypass that cache, a spelling that is new in "
          "every observation round and therefore parsed and looked up afresh, and the raw table rows), the registry operated on FIRST and "
          "all others after it with no edit in between. z3 decides for all values of the symbolic scales and edit values (1) "
          "digest(before) == digest(after) for every registry not operated on and (2) every channel of every registry not edited in the "
          "step equals what that registry's OWN table says (expected answer read off the raw rows with the harness's prefix table), so a "
          "process-wide memo that hands one registry's derived row or Unit object to another is seen even if nothing changes afterwards; "
          "default_unit_registry.modify/remove must raise for every symbol and every symbolic value; mixed-registry operations must bind "
          "the result to the left operand's registry and change no digest. The SOURCE of every copy/restore route is also the library's "
          "DEFAULT registry (15 routes from default-bound quantities, arrays and units: deepcopy, Unit.copy(deep), pickle, JSON, copy.copy, lut=): "
          "the registry obtained must be an object of its own sharing no table with the default one, and the default table and the SET of "
          "names exported by the unyt namespace are compared from BEFORE the custom registries are created; every add_new step adds through "
          "reg.add AND through define_unit(..., registry=reg). Mixed-registry operations run over every ordered pair of registries of the "
          "world INCLUDING the default registry and the watched source, with the right operand written in a symbol the left registry knows "
          "and in one it LACKS (then: result bound to one of the two operands' registries, never to a look-alike third; physical value; "
          "conversion by string as that registry's own table says), for mul, div, add, sub and the temperature rule that returns the "
          "second operand's unit; products of foreign-symbol operations are KEPT and converted by string again after every later step "
          "that edits neither operand's registry. A table handed over BY REFERENCE (UnitRegistry(lut=donor.lut), both values of add_default_symbols) "
          "from 11 kinds of donor (fresh, cgs, only read, written, copy of the default registry, deepcopy of a registry / of default-bound data, "
          "Unit.copy(deep), unpickled, from JSON, lut=dict copy) is operated on next to an independent registry: donor and receiver share by the "
          "user's doing, nobody else may notice. Two further witnesses of the built-in table are compared row by row after EVERY step of EVERY "
          "history: a pristine registry created first and never written to or read, and a registry created NOW (what a new UnitRegistry() starts "
          "with). Every copying/restoring route (deepcopy, copy.copy, Unit.copy(deep), deepcopy of an array, JSON, pickle of a quantity / stock-unit "
          "array / Unit / tuple / quantity written in the registry's own symbols) is ALSO applied in the middle of a history (step derive) and at "
          "setup: the registry obtained must hold the rows of its source whatever the other registries - the default one included - hold at that "
          "moment, and is edited before the next route runs (a memoised restore is seen); configuration `collide` gives a custom registry and, "
          "through the default step, the default registry the SAME symbol with the SAME definition (equal rows in two registries). "
          "The violations this property is about are aliasing of dicts "
          "and memo keys that forget the registry, i.e. discrete facts: the interleavings are enumerated, the solver's share is that "
          "digests are compared as terms (a write or a memo hit that stores a different symbol is seen even where a test would store an equal number). "
          "SHARED UNIT OBJECTS (family C13/rebind): every call that takes data or a Unit bound to one registry together with registry=A or a Unit of A "
          "(unyt_array of a list / tuple / mixed-unit list of quantities with registry= by keyword and positionally, unyt_array(array, registry=A), "
          "unyt_array(array, unit, registry=A), unyt_quantity(q, registry=A), unyt_array/unyt_quantity(data, unit_object, registry=A), Unit(unit_object, registry=A), "
          "to / convert_to_units with a Unit of A, products with Units of A, ufuncs, +, +=, uconcatenate, uhstack, ucross(registry=A), slice assignment of a "
          "list of quantities, the bypass_validation forms) x the Unit object handed over (unyt.km, unyt.g, unyt.s, unyt.dimensionless, the .units of live "
          "arrays of the default registry and of another custom registry B in a stock symbol and in B's own symbol with a symbolic scale): z3 decides for all "
          "payloads and scales that after the call and again after A redefines base symbols with symbolic scales the shared Unit object is still bound to its "
          "registry with its definition, the live quantities still carry it and convert as before, all watched namespace units are bound to the default "
          "registry, namespace digest and the tables of default and B are unchanged, and the new object is bound to A."),
    design="DESIGN.md section 4 C13",
    technique="explicit-state bounded model checking over interleavings, symbolic (z3 real) scales, digest-invariance and own-table obligations; counterexample replay on plain unyt")
EXPLANATION = (
    "Transition function = the real UnitRegistry.__init__/add/modify/remove/__getitem__/__contains__/to_json/from_json/__copy__/__deepcopy__, "
    "Unit.__new__ (string cache)/copy/__mul__/__truediv__, _lookup_unit_symbol, _correct_old_unit_registry, unyt_array.__reduce__/__setstate__ "
    "(pickle, several objects per dump), default pickling of Unit objects, UnitSystem creation, define_unit, _NonModifiableUnitRegistry. "
    "Specification = (1) frame condition: an operation on registry X leaves digest(Y) unchanged for every other registry Y (the source "
    "registry of restored/copied siblings included), for the default registry and for the unyt namespace; (2) own-table condition: what a "
    "registry that was not edited in the step answers - through its warm Unit cache, through reg[s]/in, through a never-seen spelling - is "
    "what its own raw table says (prefix table of the harness x base row), and the Unit it returns is bound to it. digest = probe-string "
    "resolutions as terms in the four channels + raw table rows, new rows tolerated only if they are derived SI-prefixed rows of a "
    "prefixable symbol with scale prefix*base. Observation order inside a step: operated-on registry first, then the others. "
    "(3) setup frame: the default table and the namespace (24 names + the set of exported names) after all custom registries were created, "
    "copied, restored and furnished equal what they were before. (4) mixed operations: every ordered pair (left, right) over operated "
    "registries, watched source and DEFAULT registry; right operand in a time symbol known to / foreign to the left registry (BAR, xdu, s - "
    "whichever the history provides); obligations bound-to-left (known symbol, additive ops), bound-to-an-operand's-registry (foreign symbol, "
    "temperature difference + point), SI magnitude of the result = product/quotient/sum of the operands' own SI magnitudes, conversion by "
    "string = what the result registry's raw rows say; kept products re-converted after later steps. The literal demand 'left operand's "
    "registry' on the foreign-symbol axis is made by the three cases C13/foreign-left/* (unyt answers from the right operand's registry there: recorded finding). "
    "(5) built-in table witnesses: same_table(initial, now) for the table of a pristine registry and for the table of a registry created at the "
    "observation (no new row at all there), after setup and after every step; in the from-default and lut=-by-reference worlds both are digested in "
    "full (own-table) too. (6) restore is a function of its source: for every route of step derive and every copy route at setup, rows(restored) == "
    "rows(source) in both directions (derived prefixed rows tolerated) + six raw lookups answered as the SOURCE's table says; the restored registry is "
    "then edited before the next route. The default step defines xqq on the default registry: with a symbolic scale, or - where a registry of the "
    "world already holds xqq (configuration collide) - with that registry's very definition. (7) shared Unit objects (C13/rebind): a call that builds something for "
    "registry A from data/units of registry S leaves the Unit object it was handed bound to S with base_value/base_offset equal as terms, conversions of the live "
    "quantities = payload * S's scale for all payloads and all scales later written to A, the result bound to A where registry= is given (unyt_array(array, "
    "unit_object, registry=A) keeps the handed Unit's registry on the unchanged library: no demand there). Recorded finding: the bypass_validation=True forms "
    "rebind the handed Unit object in place."
)
BOUNDS = {
    "quick": "C13/rebind: 29 calls x 7 shared-unit carriers, one call + two edits of the receiving registry each (same in thorough). 22 lut=-by-reference configurations (11 donors x add_default_symbols) next to an independent registry: every single operation (length 1), ALL "
             "interleavings of length <= 2 for two of them; 6 collide configurations (pickle, JSON, deepcopy, pickle tuple, pickle Unit+quantity, JSON twice; 12-operation "
             "alphabet incl. derive@B), ALL interleavings of length <= 2; step derive applies 4 copy routes (+ 5-8 JSON/pickle routes where the registry is serialisable); "
             "pristine-registry and new-registry table comparison after every step of every case. Further: 8 configurations whose source is the DEFAULT registry (deepcopy tuple / units / quantity+array, Unit.copy(deep) twice, pickle tuple / Unit+array, JSON twice, "
             "copy.copy twice), ALL interleavings of length <= 2 each; 3 foreign-left cases; mixed step: every ordered pair over operated + watched + default registries "
             "(watched x watched skipped; a pair with a watched registry runs mul(/div) + one additive or the temperature rule, one spelling of the right operand, "
             "SI-magnitude obligation for mul only - cut for wall time); add_new = reg.add + define_unit(registry=reg); modify edits xfoo, g and xbar. Further: "
             "11 registry configurations (A-kind | how B was obtained, incl. copy.copy() of a registry and of the default registry); 11-operation alphabet (4 edits x 2 registries, derive, mixed-registry "
             "ops, default-registry ops); ALL interleavings of length <= 3; + 12 fixed histories through the real add_symbols/add_constants; + 13 sibling configurations (two registries "
             "restored/copied together from one watched source: 5 one-dump pickle forms, loads twice, JSON twice, deepcopy of tuple / of units / of [S, S], copy twice, Unit.copy(deep) twice, "
             "lut copy twice) and 3 configurations with a registry that redefines 'm', ALL interleavings of length <= 2 each; probe set of 18 strings (15 also through reg[s] and `in`) + 4 "
             "fresh spellings per registry and observation round + raw rows; unyt namespace: 24 names",
    "thorough": "22 lut=-by-reference + 6 collide configurations, ALL interleavings of length <= 2; 15 default-source configurations (length <= 3 for deepcopy tuple and pickle Unit+array, <= 2 for the other thirteen); 3 foreign-left cases; mixed step as in quick; warm variants (history axis) only of cases with <= 300 interleavings. Further: "
                "12 two-registry configurations + 3 three-registry configurations (15 operations, length <= 3); ALL interleavings of length <= 4 for the four configurations "
                "{independent, deepcopy, Unit.copy() shallow, unpickled} (cut from 'all twelve' to meet the 15 min budget), <= 3 for the other eight; 16 sibling + 3 redefined-'m' "
                "configurations: length <= 3 for six of them (pickle tuple, pickle Unit+array, JSON twice, deepcopy tuple, copy twice, redefined 'm' next to an independent registry), <= 2 for the other thirteen",
}
OUTSIDE = ("interleavings longer than the bound; HDF5 (h5py absent); what two registries deliberately sharing a dict passed by the user (lut=other.lut) see of EACH OTHER "
           "(the donor is not observed after the hand-over; everybody else is); lut= by reference of the default registry's own table; a restore of a registry "
           "that lacks stock symbols (unpickling / from_json fill them in again: content of a copy, C11); equal-definition collisions with symbolic scales (a symbolic real "
           "cannot be pickled: the collide configurations are concrete, 1.75 m); "
           "threads; the content of a copy relative to its original (C11); scales of JSON/pickle sources are concrete (a symbolic real "
           "cannot be serialised), the edit values stay symbolic; more than two siblings per dump (three objects are pickled in the nested form, two of them used); "
           "process-wide state that survives from one explored path to the next other than unyt's lru_caches (the runner clears only those: on a tree with such a "
           "memo some counterexamples found symbolically may not replay, the ones caused inside one path do); in mixed operations the right operand is always a TIME "
           "symbol against a LENGTH symbol on the left (a cancelling same-dimension pair would put a symbolic scale into a sympy expression); mixed pairs of two watched "
           "registries (default x source); conversion by string of a foreign-symbol product (and keeping it) only where the left symbol has the same scale term in the product's registry as in the left operand's; kept products are observed only while neither operand's registry is edited (what an edit of an operand's registry does to "
           "them is C12's subject); a shallow Unit.copy() of default-bound data shares the default registry by design (2219b71) and is not a route")

ASSUMPTIONS = [
    "C13: the operation taken at step i is decoded from an auxiliary real symbol op_i (interval decoding); the explorer thereby enumerates all interleavings, one path each; the symbols have no meaning for unyt",
    "C13: Unit.__hash__/unit_system_id hash the repr of the registry table: two symbolic scales with different names never hash alike while two equal floats do. Registries that hold the SAME contents are therefore covered by explicit configurations (indep_same and the copy routes), and registries created independently are assumed to differ in the scales of xfoo and xbar",
    "C13: scales of registries that are sources of a JSON or pickle round trip are concrete (2.0, 3.0); values written by later edits are symbolic",
    "C13: trailing blanks do not change the meaning of a unit string ('kxfoo  ' is 'kxfoo'): the fresh spelling of observation round n is the probe string followed by n+1 blanks, a distinct key for every string-keyed cache",
    "C13: a registry obtained from default-bound data by deepcopy / Unit.copy(deep=True) / pickle / JSON / copy.copy / lut=dict(...) is a custom registry in the sense of the property (an object of its own); only the shallow Unit.copy() may hand back the default registry itself",
    "C13: a registry restored or copied from data of registry S (any route) is required to hold exactly the rows of S at that moment (plus derived SI-prefixed rows): this is how 'what the restore yields depends on S alone, not on what was done to other registries' is stated",
    "C13: one pickle.dumps / one copy.deepcopy of a container may restore ONE registry object for several members (it mirrors the sharing of the source); two separate loads / from_json / copy calls must give two registry objects",
]
XNEW, XQQ, XDU = "xnew", "xqq", "xdu"  # xdu: the symbol every add_new step ALSO defines through define_unit(..., registry=T)
PROBE_STRINGS = [FOO, "k" + FOO, BAR, f"{FOO}*{BAR}", XNEW, "k" + XNEW, XDU, "k" + XDU, XQQ, "k" + XQQ, "m", "km", "g", "mg", "s", "K", "degC", "J", "erg/s", "kg*m**2/s**2"]
NS_NAMES = ["m", "km", "cm", "g", "kg", "s", "hr", "K", "degC", "degF", "J", "erg", "W", "N", "Pa", "eV", "Msun", "pc",
            "c", "G", "kboltz", "me", "mp", "speed_of_light"]
NS_CONV = [("km", "cm"), ("erg", "J"), ("degC", "K"), ("hr", "s")]


# ------------------------------------------------------------------------------------ digests
#
# A registry is observed through FOUR channels, because what one registry does may reach another one through any memo layer:
#   res   Unit(s, registry=reg)          - answered from the registry's own string cache once it is warm
#   raw   reg[s] and (s in reg)          - the registry-level lookup, never answered from the per-registry Unit cache
#   cold  Unit(s + blanks, registry=reg) - a spelling nobody asked this registry for before (a new one in every observation
#                                          round, the SAME one for all registries of a round): parsed and looked up afresh
#   lut   the raw table rows
# Within one observation round the registry that was operated on is observed FIRST, every other registry after it with no edit
# in between ("built through one, then resolved through another").

RAW_STRINGS = [s for s in PROBE_STRINGS if s.isidentifier()]


def eq(a, b):
    """exact equality of two scales/offsets; answered without building a solver term where the two are the same object, two
    plain numbers or structurally the same z3 term (hash-consed), which is the overwhelmingly common case"""
    if a is b:
        return True
    sa, sb = isinstance(a, SymReal), isinstance(b, SymReal)
    if not sa and not sb:
        return a == b
    if sa and sb and a.t.eq(b.t):
        return True
    return exact_eq(a, b)


def near(a, b):
    """close(a, b); answered without a solver query where the simplifier already reduces both sides to the same polynomial"""
    if isinstance(a, SymReal) and isinstance(b, SymReal) and z3.is_true(z3.simplify(a.t == b.t)):
        return True
    return close(a, b)


class Lazy:
    """a diagnostic that is only printed for a counterexample (printing a quantity of solver terms costs milliseconds)"""

    def __init__(self, f):
        self.f = f

    def __str__(self):
        return self.f()

    __repr__ = __str__


def conj(conds):
    rest = []
    for c in conds:
        if c is True:
            continue
        if c is False:
            return False
        rest.append(c)
    if not rest:
        return True
    return rest[0] if len(rest) == 1 else And(*rest)
# (spelling, factors [(prefix, symbol)]) - the factors are what the spelling MEANS (used by the own-table oracle only)
COLD_PROBES = [("k" + FOO, [("k", FOO)]), ("mg", [("m", "g")]), ("k" + XNEW, [("k", XNEW)]), (f"M{FOO}*mg", [("M", FOO), ("m", "g")])]


def split_atom(s):
    """independent reading of an identifier probe: (prefix, symbol) candidates in the documented order (the name itself,
    then SI prefix + prefixable symbol)"""
    out = [("", s)]
    for p in PREFIX:
        if s.startswith(p) and len(s) > len(p):
            out.append((p, s[len(p):]))
    return out


def table_atom(lut, prefix, sym):
    """what the table `lut` ALONE says about prefix+sym: (scale, dims, offset) or None"""
    row = lut.get(sym)
    if row is None or (prefix and not row[4]):
        return None
    return ((row[0] * PREFIX[prefix]) if prefix else row[0], row[1], row[2])


def table_answer(lut, s):
    for p, sym in split_atom(s):
        if not p and sym not in lut:
            continue
        a = table_atom(lut, p, sym)
        if a is not None:
            return a
    return None


def resolve(unyt, reg, s, spelled=None, has=None):
    if s.isidentifier() and not (has[s] if has is not None else (s in reg)):  # the registry's own answer (prefix-aware); spares a sympy parse per unknown atom
        return ("unknown", "not in registry")
    r = call(unyt.Unit, s if spelled is None else spelled, registry=reg)
    if r[0] == "raise":
        return ("unknown", type(r[1]).__name__)
    u = r[1]
    if u.registry is not reg:
        return (u.base_value, u.dimensions, u.base_offset, "bound to another registry")
    return (u.base_value, u.dimensions, u.base_offset)


def raw_lookup(reg, s):
    r = call(reg.__getitem__, s)
    if r[0] == "raise":
        return ("unknown", type(r[1]).__name__)
    return tuple(r[1])


class Digest:
    __slots__ = ("res", "lut", "raw", "has", "cold", "rnd")


def digest(unyt, reg, rnd=0):
    d = Digest()
    d.rnd = rnd
    d.has = {s: bool(s in reg) for s in RAW_STRINGS}
    d.res = {s: resolve(unyt, reg, s, has=d.has) for s in PROBE_STRINGS}
    d.raw = {s: raw_lookup(reg, s) for s in RAW_STRINGS}
    d.cold = {}
    for s, factors in COLD_PROBES:
        if all((p + a) in reg for p, a in factors):
            d.cold[s] = resolve(unyt, reg, "", spelled=s + " " * (rnd + 1))
        else:
            d.cold[s] = ("unknown", "not in registry")
    d.lut = dict(reg.lut)  # rows are immutable tuples: a shallow copy of the dict is a faithful snapshot
    return d


def rows_equal(a, b):
    if a is b:
        return True
    return conj([len(a) == len(b), eq(a[0], b[0]), dims_equal(a[1], b[1]), eq(a[2], b[2]), a[3] == b[3], a[4] == b[4]])


def derived_row(k, lut):
    """a row that appeared in a table nobody edited may only be the write-back of an SI-prefixed spelling"""
    row = lut[k]
    for p, f in PREFIX.items():
        if k.startswith(p) and k[len(p):] in lut and lut[k[len(p):]][4]:
            base = lut[k[len(p):]]
            return conj([eq(row[0], base[0] * f), dims_equal(row[1], base[1]), eq(row[2], base[2]), row[4] is False])
    return False


def same_answer(a, b):
    if a is b:
        return True
    if a[0] == "unknown" or b[0] == "unknown":
        return a == b if (a[0] == "unknown" and b[0] == "unknown") else False
    return conj([len(a) == len(b), eq(a[0], b[0]), dims_equal(a[1], b[1]), eq(a[2], b[2])])


def same_digest(d0, d1):
    conds = [same_answer(d0.res[s], d1.res[s]) for s in PROBE_STRINGS]
    for s in RAW_STRINGS:
        a, b = d0.raw[s], d1.raw[s]
        conds.append(d0.has[s] == d1.has[s])
        if a is b:
            continue
        if a[0] == "unknown" or b[0] == "unknown":
            conds.append(a == b)
        else:
            conds.append(rows_equal(a, b))
    conds += [same_answer(d0.cold[s], d1.cold[s]) for s, _ in COLD_PROBES]
    conds.append(same_table(d0.lut, d1.lut))
    return conj(conds)


def same_table(l0, l1):
    """raw rows of a table nobody edited: every old row still there and equal, a new row only as the write-back of a prefixed spelling"""
    conds = []
    for k, row in l0.items():
        now = l1.get(k)
        if now is row:
            continue
        conds.append(False if now is None else rows_equal(row, now))
    for k in l1.keys() - l0.keys():
        conds.append(derived_row(k, l1))
    return conj(conds)


def answer_is(got, want, approx=False):
    if want is None:
        return got[0] == "unknown"
    if got[0] == "unknown" or len(got) == 4 and isinstance(got[3], str) and got[3].startswith("bound to"):
        return False  # unknown, or a unit that is not bound to the registry it was asked of
    # a product of several factors may be multiplied in another order by the library: same real number, last-bit different double
    return conj([close(got[0], want[0]) if approx else eq(got[0], want[0]), dims_equal(got[1], want[1]), eq(got[2], want[2])])


def own_table(d):
    """every channel of a registry nobody edited in this step answers from THAT registry's table: the expected answer is read
    off the raw rows with the harness's own prefix table (never through the lookup code under test)"""
    conds = []
    for s in RAW_STRINGS:
        want = table_answer(d.lut, s)
        conds.append(d.has[s] == (want is not None))
        conds.append(answer_is(d.raw[s], want))
        conds.append(answer_is(d.res[s], want))
    for s, factors in COLD_PROBES:
        atoms = [table_atom(d.lut, p, a) for p, a in factors]
        if any(a is None for a in atoms):
            want = None
        else:
            want = atoms[0]
            for a in atoms[1:]:
                want = (want[0] * a[0], want[1] * a[1], 0.0)
        conds.append(answer_is(d.cold[s], want, approx=len(factors) > 1))
    return conj(conds)


def table_diff(l0, l1):
    return str([(k, l0.get(k, "-"), l1.get(k, "-")) for k in sorted(set(l0) | set(l1)) if repr(l0.get(k)) != repr(l1.get(k))][:6])[:500]


def own_table_diff(d):
    out = []
    for s in RAW_STRINGS:
        want = table_answer(d.lut, s)
        for ch, got in (("raw", d.raw[s][:3]), ("Unit", d.res[s])):
            if repr(got if got[0] != "unknown" else None) != repr(want):
                out.append(f"{ch} {s}: {got!r}, table says {want!r}")
    for s, _ in COLD_PROBES:
        out.append(f"cold {s}: {d.cold[s]!r}")
    return "; ".join(out)[:700]


_NS_NAMES = {}


def ns_digest(unyt, conversions=True):
    """what the unyt namespace exports: identity, value, scale, offset and dimensions of 24 names, 4 conversions between built-in
    units, and WHICH names there are (a unit defined through a user's registry must not appear here)"""
    out = {}
    for n in NS_NAMES:
        v = getattr(unyt, n, None)
        if v is None:
            out[n] = None
        elif hasattr(v, "value"):
            out[n] = (id(v), float(v.value), float(v.units.base_value), v.units.dimensions)
        else:
            out[n] = (id(v), float(v.base_value), float(v.base_offset), v.dimensions)
    if conversions:
        for a, b in NS_CONV:
            out[a + ">" + b] = float(unyt.unyt_quantity(1.0, a).to(b).value)
    # submodules are imported lazily: not counted. The set is rebuilt only when the namespace changed size
    d = vars(unyt)
    memo = _NS_NAMES.get(id(d))
    if memo is None or memo[0] != len(d) or not conversions:
        memo = _NS_NAMES[id(d)] = (len(d), frozenset(k for k, v in d.items() if not isinstance(v, types.ModuleType)))
    out["#names"] = memo[1]
    return out


def ns_diff(old, new):
    out = []
    for k in new:
        if k in old and new[k] != old[k]:
            out.append(f"names gained {sorted(new[k] - old[k])[:8]} lost {sorted(old[k] - new[k])[:8]}" if k == "#names" else k)
    return str(out)


# ------------------------------------------------------------------------------------ the world

class R:
    def __init__(self, role, reg, symbolic):
        self.role, self.reg, self.symbolic = role, reg, symbolic
        self.tags = {}


def scale(ctx, name, symbolic, default):
    return ctx.real(name, pos=True) if symbolic else default


def make_A(ctx, kind, symbolic):
    unyt, UR, D = ctx.mods["unyt"], ctx.mods["UR"], ctx.mods["unyt"].dimensions
    s, b = scale(ctx, "sA", symbolic, 2.0), scale(ctx, "bA", symbolic, 3.0)
    if kind.startswith("ref"):
        # the table of a DONOR registry handed over BY REFERENCE (UnitRegistry(lut=donor.lut, ...), how yt builds the registry of a
        # derived dataset). Donor and receiver share one dict by the user's own doing (the donor is not observed any more); nobody
        # else may notice: the default registry, a pristine registry, a registry created later, the namespace
        head, _, donor_kind = kind.partition("_")
        donor = REF_DONORS[donor_kind](ctx)
        reg = UR.UnitRegistry(lut=donor.lut, add_default_symbols=(head == "refd"))
        ctx.require("lut= by reference: the receiver uses the table it was given", reg.lut is donor.lut)
        reg._c13_donor = donor  # kept alive
        reg.add(FOO, s, D.length, prefixable=True)
        reg.add(BAR, b, D.time)
        return reg
    if kind == "lut":
        tex = lambda n: r"\rm{" + n + "}"  # noqa: E731
        lut = {FOO: (s, D.length, 0.0, tex(FOO), True), BAR: (b, D.time, 0.0, tex(BAR), False)}
        return UR.UnitRegistry(lut=lut)
    if kind == "empty":
        reg = UR.UnitRegistry(add_default_symbols=False)
    elif kind == "cgs":
        reg = UR.UnitRegistry(unit_system="cgs")
    else:
        reg = UR.UnitRegistry()
    reg.add(FOO, s, D.length, prefixable=True)
    reg.add(BAR, b, D.time)
    if kind == "collide":
        # the registry holds a symbol that the `default` step will ALSO give the default registry - same spelling, same definition
        # (the same define_unit call): a row of one registry that equals a row of another is still a row of its own
        unyt.define_unit(XQQ, (COLLIDE_VALUE, "m"), prefixable=True, registry=reg)
    if kind == "modm":  # a registry that disagrees with every other one (and with the default one) about a prefixable STOCK symbol
        reg.modify("m", scale(ctx, "mA", symbolic, 2.5))
    return reg


COLLIDE_VALUE = 1.75


def _read_only_use(reg, unyt):
    unyt.Unit("km", registry=reg)
    unyt.unyt_quantity(1.0, "mg", registry=reg).to("kg")
    reg["cm"], ("Ms" in reg)
    return reg


def _written(ctx, reg):
    reg.add("xwr", ctx.real("wD", pos=True), ctx.mods["unyt"].dimensions.mass)
    return reg


# donors of a table handed over by reference: every way to come by a registry that nobody has WRITTEN to (a copy-on-write or
# otherwise lazily shared table is still shared at that point), one that was only read, and one that was written
REF_DONORS = {
    "fresh": lambda ctx: ctx.mods["UR"].UnitRegistry(),
    "cgs": lambda ctx: ctx.mods["UR"].UnitRegistry(unit_system="cgs"),
    "read": lambda ctx: _read_only_use(ctx.mods["UR"].UnitRegistry(), ctx.mods["unyt"]),
    "written": lambda ctx: _written(ctx, ctx.mods["UR"].UnitRegistry()),
    "copydefault": lambda ctx: copy.copy(ctx.mods["UR"].default_unit_registry),
    "deepcopyreg": lambda ctx: copy.deepcopy(ctx.mods["UR"].UnitRegistry()),
    "deepcopyqty": lambda ctx: copy.deepcopy(ctx.mods["unyt"].unyt_quantity(1.0, "km")).units.registry,
    "unitcopydeep": lambda ctx: ctx.mods["unyt"].Unit("km").copy(deep=True).registry,
    "pickleqty": lambda ctx: pickle.loads(pickle.dumps(ctx.mods["unyt"].unyt_array([1.0, 2.0], "km/s"))).units.registry,
    "jsondefault": lambda ctx: ctx.mods["UR"].UnitRegistry.from_json(ctx.mods["UR"].default_unit_registry.to_json()),
    "lutcopy": lambda ctx: ctx.mods["UR"].UnitRegistry(lut=dict(ctx.mods["UR"].default_unit_registry.lut), add_default_symbols=False),
}


# ------------------------------------------------------------------------------------ registries born together
#
# Two registries obtained from ONE source registry S by one serialisation / one copying operation (or by the same one twice).
# S itself stays in the world as a watched registry that is never operated on.

def make_siblings(ctx, how, S):
    unyt, UR = ctx.mods["unyt"], ctx.mods["UR"]
    if S is UR.default_unit_registry:
        # the source is the library's DEFAULT registry: the data are what every user has (quantities, arrays, units made without registry=)
        foo, kfoo, bar = "m", "km", "s"
        q = lambda: unyt.unyt_quantity(1.5, foo)  # noqa: E731
        arr = lambda: unyt.unyt_array([1.0, 2.0], f"{kfoo}/{bar}")  # noqa: E731
        unit = lambda s=foo: unyt.Unit(s)  # noqa: E731
    else:
        foo, kfoo, bar = FOO, "k" + FOO, BAR
        q = lambda: unyt.unyt_quantity(1.5, foo, registry=S)  # noqa: E731
        arr = lambda: unyt.unyt_array([1.0, 2.0], f"{kfoo}/{bar}", registry=S)  # noqa: E731
        unit = lambda s=foo: unyt.Unit(s, registry=S)  # noqa: E731
    if how == "sib_pickle_tuple":  # two arrays in ONE dump
        a, b = pickle.loads(pickle.dumps((q(), arr())))
        return a.units.registry, b.units.registry
    if how == "sib_pickle_nested":  # ... nested in containers, three objects of which the first and the last are used
        d = pickle.loads(pickle.dumps({"x": arr(), "y": [q(), {"z": q()}]}))
        return d["x"].units.registry, d["y"][1]["z"].units.registry
    if how == "sib_pickle_unit_qty":  # a Unit object and an array in one dump
        u, b = pickle.loads(pickle.dumps((unit(), q())))
        return u.registry, b.units.registry
    if how == "sib_pickle_units":  # two Unit objects in one dump (pickle restores ONE registry object for both: nothing to isolate then)
        u, v = pickle.loads(pickle.dumps([unit(), unit(kfoo)]))
        return u.registry, v.registry
    if how == "sib_pickle_loads_twice":  # the same bytes restored twice
        data = pickle.dumps(arr())
        return pickle.loads(data).units.registry, pickle.loads(data).units.registry
    if how == "sib_pickle_dumps_twice":
        return pickle.loads(pickle.dumps(q())).units.registry, pickle.loads(pickle.dumps(arr())).units.registry
    if how == "sib_json_twice":  # the same JSON text restored twice
        text = S.to_json()
        return UR.UnitRegistry.from_json(text), UR.UnitRegistry.from_json(text)
    if how == "sib_deepcopy_tuple":  # one deepcopy of a container of two arrays
        a, b = copy.deepcopy((q(), arr()))
        return a.units.registry, b.units.registry
    if how == "sib_deepcopy_units":
        u, v = copy.deepcopy([unit(), unit(kfoo)])
        return u.registry, v.registry
    if how == "sib_deepcopy_registries":  # one deepcopy of a container naming the registry twice
        a, b = copy.deepcopy([S, S])
        return a, b
    if how == "sib_copy_twice":
        return copy.copy(S), copy.copy(S)
    if how == "sib_unit_copy_deep_twice":
        return unit().copy(deep=True).registry, unit().copy(deep=True).registry
    if how == "sib_lut_copy_twice":
        return UR.UnitRegistry(lut=dict(S.lut)), UR.UnitRegistry(lut=dict(S.lut), add_default_symbols=False)
    if how == "sib_deepcopy_qty_arr":  # two separate deepcopy calls, one of a quantity, one of an array
        return copy.deepcopy(q()).units.registry, copy.deepcopy(arr()).units.registry
    if how == "sib_deepcopy_unit_copy":  # copy.deepcopy of a Unit and the copy() method of an array, then its unit deep-copied
        return copy.deepcopy(unit(kfoo)).registry, copy.deepcopy(arr().copy().units).registry
    raise KeyError(how)


def furnish(ctx, reg, name, others):
    """the two harness symbols, with symbolic scales of its own, added to a registry that came without them"""
    D = ctx.mods["unyt"].dimensions
    s, b = ctx.real("s" + name, pos=True), ctx.real("b" + name, pos=True)
    if not ctx.pinned:
        for other in others:
            if FOO in other.lut:
                ctx.assume(Not(exact_eq(s, other.lut[FOO][0])))
                ctx.assume(Not(exact_eq(b, other.lut[BAR][0])))
    call(reg.add, FOO, s, D.length, prefixable=True)
    call(reg.add, BAR, b, D.time)


ONE_OPERATION = ("sib_pickle_tuple", "sib_pickle_nested", "sib_pickle_unit_qty", "sib_pickle_units", "sib_deepcopy_tuple", "sib_deepcopy_units",
                 "sib_deepcopy_registries")
SERIALISED = ("json", "pickle", "sib_pickle_tuple", "sib_pickle_nested", "sib_pickle_unit_qty", "sib_pickle_units", "sib_pickle_loads_twice",
              "sib_pickle_dumps_twice", "sib_json_twice")


def no_shared_table(regs):
    """registry objects are pairwise the SAME object (one registry under two names) or share neither table nor unit cache"""
    return all(x is y or (x.lut is not y.lut and x._unit_object_cache is not y._unit_object_cache) for x, y in itertools.combinations(regs, 2))


def make_B(ctx, how, A, name="B", others=()):
    """second registry: independently created, or obtained from A by one of the copying routes"""
    unyt, UR, D = ctx.mods["unyt"], ctx.mods["UR"], ctx.mods["unyt"].dimensions
    if how == "indep_same":  # created independently, happens to hold the same contents as A (same scale symbols)
        reg = UR.UnitRegistry()
        reg.add(FOO, A.lut[FOO][0], D.length, prefixable=True)
        reg.add(BAR, A.lut[BAR][0], D.time)
        return reg
    if how.startswith("indep"):
        kind = how.split("_")[1]
        reg = {"defaults": lambda: UR.UnitRegistry(), "empty": lambda: UR.UnitRegistry(add_default_symbols=False),
               "cgs": lambda: UR.UnitRegistry(unit_system="cgs")}[kind]()
        s, b = ctx.real("s" + name, pos=True), ctx.real("b" + name, pos=True)
        if not ctx.pinned:
            # an independently created registry with DIFFERENT contents (equal contents = configuration indep_same). Needed because
            # Unit.__hash__ hashes the table's repr: symbols with different names never collide symbolically, equal floats do.
            for other in others:
                ctx.assume(Not(exact_eq(s, other.lut[FOO][0])))
                ctx.assume(Not(exact_eq(b, other.lut[BAR][0])))
        reg.add(FOO, s, D.length, prefixable=True)
        reg.add(BAR, b, D.time)
        return reg
    if how == "lut_copy":
        return UR.UnitRegistry(lut=dict(A.lut))
    if how == "json":
        return UR.UnitRegistry.from_json(A.to_json())
    if how == "pickle":
        q = unyt.unyt_quantity(1.5, FOO, registry=A)
        return pickle.loads(pickle.dumps(q)).units.registry
    if how == "deepcopy":
        return copy.deepcopy(A)
    if how == "copy_registry":  # copy.copy() of the registry object itself
        return copy.copy(A)
    if how == "copy_default":  # a shallow copy of the library's default registry, then used like any registry of the user's
        reg = copy.copy(UR.default_unit_registry)
        s, b = ctx.real("s" + name, pos=True), ctx.real("b" + name, pos=True)
        if not ctx.pinned:
            for other in others:
                ctx.assume(Not(exact_eq(s, other.lut[FOO][0])))
                ctx.assume(Not(exact_eq(b, other.lut[BAR][0])))
        reg.add(FOO, s, D.length, prefixable=True)
        reg.add(BAR, b, D.time)
        return reg
    if how in ("copy_shallow", "copy_shallow_str"):
        if how == "copy_shallow":  # a unit that did not come from a string
            u = unyt.Unit(FOO, registry=A) * unyt.Unit(BAR, registry=A)
        else:  # a unit that came from a string
            u = unyt.Unit(FOO, registry=A)
        r = u.copy().registry
        # since fix 2219b71 a shallow Unit.copy() shares the registry OBJECT (no second registry exists, nothing to isolate);
        # what must never come back is the half-shared copy: a distinct registry object writing into the same dicts
        ctx.require("shallow Unit.copy(): the registry object itself or no shared table",
                    r is A or (r.lut is not A.lut and r._unit_object_cache is not A._unit_object_cache))
        if r is A:
            return copy.deepcopy(A)  # the interleaving continues with an independent second registry
        return r
    if how == "copy_deep":
        u = unyt.Unit(FOO, registry=A) * unyt.Unit(BAR, registry=A)
        return u.copy(deep=True).registry
    if how == "deepcopy_unit":
        return copy.deepcopy(unyt.Unit(FOO, registry=A)).registry
    raise KeyError(how)


EDITS = ["add_new", "modify", "rm_foo", "mk_pref"]


class World:
    def __init__(self, ctx, config):
        self.ctx = ctx
        self.unyt = ctx.mods["unyt"]
        self.D = self.unyt.dimensions
        self.DEF = ctx.mods["UR"].default_unit_registry
        kindA, howB = config[0], config[1]
        concrete = howB in SERIALISED or kindA == "collide"
        # what the library's default registry and the unyt namespace hold BEFORE any registry of this history exists: creating,
        # copying, restoring and furnishing the custom registries below must leave both as they are
        lut0, ns0 = dict(self.DEF.lut), ns_digest(self.unyt, conversions=False)
        UR = ctx.mods["UR"]
        # two more witnesses of the library's built-in table: a PRISTINE registry (created now, never written to, never asked anything)
        # and a registry created LATER (a new one at every observation round). Their tables are compared row by row after every step
        # in every world; in the worlds about default-bound data and handed-over tables both are digested in full as well
        self.pri = UR.UnitRegistry()
        self.pri0, self.new0 = dict(self.pri.lut), dict(UR.UnitRegistry().lut)
        self.full_extra = kindA == "default" or kindA.startswith("ref")
        self.silent = [("PRI", self.pri)] if self.full_extra else []  # observed like the watched ones, but no operand of mixed operations
        self.watch = []  # registries that are observed like all others but never operated on
        self.kept = []  # results of mixed-registry operations, observed again after later steps
        if kindA == "default":
            # source = the DEFAULT registry: two registries obtained from default-bound data by one of the sibling routes, then used
            # like any registry of the user's (harness symbols added, edited ...); the default registry is watched as always
            a, b = make_siblings(ctx, howB, self.DEF)
            ctx.require("from-default: a registry of its own, sharing no table with the default registry", a is not self.DEF and b is not self.DEF
                        and no_shared_table([self.DEF, a, b]))
            if howB not in ONE_OPERATION:
                ctx.require("siblings: separate restores give separate registries", a is not b)
            self.copy_says_source("from-default", self.DEF, (a, b))
            if a is b:
                b = copy.deepcopy(a)
            furnish(ctx, a, "A", ())
            furnish(ctx, b, "B", (a,))
            self.regs = [R("A", a, True), R("B", b, True)]
        elif howB.startswith("sib_"):
            A = make_A(ctx, kindA, not concrete)
            a, b = make_siblings(ctx, howB, A)
            ctx.require("siblings: one registry object or no shared table", no_shared_table([A, a, b]))
            if howB not in ONE_OPERATION:  # two separate restores / copies: two registries (one operation may mirror the source's sharing)
                ctx.require("siblings: separate restores give separate registries", a is not b and a is not A and b is not A)
            self.copy_says_source(howB, A, (a, b))
            if a is b:
                b = copy.deepcopy(A)  # one registry under two names: the interleaving continues with an independent second registry
            self.regs = [R("A", a, not concrete), R("B", b, not concrete)]
            self.watch.append(("SRC", A))
        else:
            A = make_A(ctx, kindA, not concrete)
            B = make_B(ctx, howB, A, "B", (A,))
            if not howB.startswith("indep") and howB not in ("copy_default", "lut_copy"):
                self.copy_says_source(howB, A, (B,))
            self.regs = [R("A", A, not concrete), R("B", B, not concrete or howB.startswith("indep"))]
            if len(config) > 2:
                self.regs.append(R("C", make_B(ctx, config[2], A, "C", (A, self.regs[1].reg)), True))
        self.watch.append(("DEF", self.DEF))
        self.hist = []
        self.mc = mc_stats(ctx)
        self.dirty_default = False
        self.rnd = 0
        self.take_all()
        req(ctx, "untouched:DEF/after-setup", same_table(lut0, self.dg["DEF"].lut), lambda: self.info(
            changed=str([k for k in set(lut0) | set(self.DEF.lut) if lut0.get(k) is not self.DEF.lut.get(k)])[:300]))
        req(ctx, "untouched:unyt-namespace/after-setup", all(self.ns[k] == v for k, v in ns0.items()), lambda: self.info(changed=ns_diff(ns0, self.ns)))
        self.check_builtin_witnesses("setup")

    def copy_says_source(self, how, src, copies):
        """a registry obtained from `src` by a copying / restoring route holds the rows of `src` - whatever other registries (the
        default one included) hold at that moment"""
        for c in copies:
            if c is not src:
                req(self.ctx, "copy-route: the new registry holds the rows of its source", conj([same_table(src.lut, c.lut), same_table(c.lut, src.lut)]),
                    lambda c=c: self.info(route=how, differs=table_diff(src.lut, c.lut)))

    def check_builtin_witnesses(self, op):
        """the pristine registry's table and the table a registry created NOW starts with are what they were at the beginning"""
        ctx = self.ctx
        req(ctx, f"untouched:pristine-registry-table/after-{op}", same_table(self.pri0, self.pri.lut), lambda: self.info(changed=table_diff(self.pri0, self.pri.lut)))
        fresh = ctx.mods["UR"].UnitRegistry()
        req(ctx, f"untouched:newly-created-registry-table/after-{op}", conj([len(fresh.lut) == len(self.new0), same_table(self.new0, fresh.lut)]),
            lambda: self.info(changed=table_diff(self.new0, fresh.lut)))
        if self.full_extra:
            d = digest(self.unyt, fresh, self.rnd)
            req(ctx, f"own-table:NEW/after-{op}", own_table(d), lambda: self.info(wrong=own_table_diff(d)))

    def roles(self, first=()):
        """observation order: the registries named in `first` (the ones just operated on), then all others"""
        names = [r.role for r in self.regs] + [w[0] for w in self.watch + self.silent]
        return [n for n in names if n in first] + [n for n in names if n not in first]

    def registry_of(self, role):
        for w in self.watch + self.silent:
            if w[0] == role:
                return w[1]
        return self.by_role(role).reg

    def take_all(self):
        """initial observation (nothing has been edited yet): every registry already answers from its own table, in whichever
        order the registries are asked"""
        self.dg = {}
        for role in self.roles():
            d = self.dg[role] = digest(self.unyt, self.registry_of(role), self.rnd)
            req(self.ctx, f"own-table:{role}/initial", own_table(d), lambda: self.info(wrong=own_table_diff(d)))
        self.ns = ns_digest(self.unyt)

    def info(self, **kw):
        return dict(history=">".join(self.hist), **kw)

    def by_role(self, role):
        return next(r for r in self.regs if r.role == role)

    def check_untouched(self, op, touched, edited=()):
        """frame condition: everything not operated on has the digest it had before the step; and whatever was not EDITED in this
        step answers from its own table (a registry that was only read - prefixed units built, systems derived - included)"""
        ctx = self.ctx
        self.rnd += 1
        for role in self.roles(first=touched):
            new = digest(self.unyt, self.registry_of(role), self.rnd)
            if role not in touched:
                old = self.dg[role]
                req(ctx, f"untouched:{role}/after-{op}", same_digest(old, new),
                    lambda: self.info(changed=self.diff(old, new)))
            if role not in edited:
                req(ctx, f"own-table:{role}/after-{op}", own_table(new), lambda: self.info(wrong=own_table_diff(new)))
            self.dg[role] = new
            if role != "SRC":
                for ps in (FOO, "k" + FOO, XNEW):
                    v = new.res[ps]
                    ctx.observe(f"{role}:{ps}", "unknown" if v[0] == "unknown" else v[0])
        for k in self.kept:
            # a result of an earlier mixed-registry operation whose operands' registries have not been edited since: converting it
            # BY STRING (names resolved in whatever registry the result is bound to) gives the very term it gave when it was made
            r = call(lambda k=k: k["q"].to(k["to"]))
            req(ctx, f"kept:{k['label']}/after-{op}", conj([r[0] == "ok", r[0] != "ok" or eq(payload(r[1])[0], k["was"])]),
                lambda r=r, k=k: self.info(product=k["label"], to=k["to"], got=Lazy(lambda: repr(r[1])[:160]), was=Lazy(lambda: repr(k["was"])[:120])))
        self.check_builtin_witnesses(op)
        ns = ns_digest(self.unyt)
        if "NS" not in touched:
            req(ctx, f"untouched:unyt-namespace/after-{op}", ns == self.ns, lambda: self.info(changed=ns_diff(self.ns, ns)))
        self.ns = ns
        if self.mc is not None:
            self.mc["states"].add(state_id("|".join(self.state_key(r) for r in self.regs)))

    def state_key(self, r):
        """abstract state of one registry: which of the watched rows exist and which edit wrote them last"""
        return r.role + ":" + ",".join(f"{k}={r.tags.get(k, '0')}" if k in r.reg.lut else f"{k}=-" for k in (FOO, BAR, XNEW, XDU, "k" + FOO, "M" + XNEW, "g"))

    @staticmethod
    def diff(old, new):
        out = []
        for ch, keys in (("res", PROBE_STRINGS), ("raw", RAW_STRINGS), ("has", RAW_STRINGS), ("cold", [c[0] for c in COLD_PROBES])):
            o, n = getattr(old, ch), getattr(new, ch)
            for s in keys:
                if repr(o[s]) != repr(n[s]):
                    out.append(f"{ch} {s}: {o[s]!r} -> {n[s]!r}")
        for k in set(old.lut) | set(new.lut):
            if old.lut.get(k) is not new.lut.get(k):
                out.append(f"lut[{k}]: {old.lut.get(k)!r} -> {new.lut.get(k)!r}")
        return "; ".join(out)[:600]

    # ---------------------------------------------------------------- transitions
    def step(self, i, op):
        ctx, unyt, D = self.ctx, self.unyt, self.D
        name, _, arg = op.partition("@")
        self.hist.append(op)
        if self.mc is not None:
            self.mc["transitions"] += 1
        if name in EDITS:
            T = self.by_role(arg).reg
            tags = self.by_role(arg).tags
            if name == "add_new":
                # both sanctioned ways of adding a symbol to a registry: reg.add and define_unit(..., registry=reg)
                tags[XNEW] = tags[XDU] = f"v{i}"
                call(T.add, XNEW, ctx.real(f"v{i}", pos=True), D.length, prefixable=True)
                call(unyt.define_unit, XDU, (ctx.real(f"u{i}", pos=True), "s" if "s" in T.lut else BAR), prefixable=True, registry=T)
            elif name == "modify":
                tags[FOO], tags["g"], tags[BAR] = f"v{i}", f"w{i}", f"z{i}"
                call(T.modify, FOO, ctx.real(f"v{i}", pos=True))
                call(T.modify, "g", ctx.real(f"w{i}", pos=True))
                call(T.modify, BAR, ctx.real(f"z{i}", pos=True))  # the symbol mixed-registry products are written in
            elif name == "rm_foo":
                call(T.remove, FOO)
            elif name == "mk_pref":
                for s in ("k" + FOO, "M" + XNEW, "Mg", f"m{FOO}**2/{BAR}"):
                    call(unyt.Unit, s, registry=T)
                call(lambda: T["c" + FOO])
                call(lambda: ("u" + FOO) in T)
            touched = {arg}
            if name in ("add_new", "modify"):
                self.by_role(arg).symbolic = True  # now holds a symbolic scale: not serialisable any more
            # a registry that IS the operated one under another role counts as operated on only if the harness made it so
            if name != "mk_pref":  # what was computed with the edited registry's symbols may change its meaning now (C12's subject)
                self.kept = [k for k in self.kept if arg not in k["roles"]]
            self.check_untouched(op, touched, touched if name != "mk_pref" else ())
        elif name == "derive":
            self.derive(i, self.by_role(arg))
            self.check_untouched(op, set())
        elif name == "mixed":
            self.mixed(i)
            self.check_untouched(op, set())
        elif name == "namespace":
            # the real add_symbols / add_constants: ~2000 units and quantities created against the registry (fixed-history cases only)
            US, T, ns = ctx.mods["US"], self.by_role(arg).reg, {}
            r1, r2 = call(US.add_symbols, ns, T), call(US.add_constants, ns, T)
            req(ctx, "namespace/built", r1[0] == "ok" and r2[0] == "ok" and len(ns) > 500 and all(
                getattr(v, "units", v).registry.lut is T.lut for v in ns.values()), lambda: self.info(got=f"{r1[0]} {r2[0]} {len(ns)} {r1[1]!r} {r2[1]!r}"[:300]))
            self.check_untouched(op, set())
        elif name == "default":
            self.default_ops(i)
            self.check_untouched(op, {"DEF", "NS"}, {"DEF"})
        else:
            raise KeyError(op)

    def derive(self, i, r):
        """things built FROM a registry: a unit system, a namespace slice, restored copies that are then edited"""
        ctx, unyt, T = self.ctx, self.unyt, r.reg
        US = ctx.mods["US"]
        us = call(US.UnitSystem, "xsys" + r.role, "k" + FOO, "g", "s", registry=T)
        if us[0] == "ok":
            call(lambda: us[1]["energy"])
            call(lambda: us[1][self.D.velocity])
        ns = {}
        call(lambda: [ns.__setitem__(n, unyt.Unit(n, registry=T)) for n in (FOO, "k" + FOO, "km", "erg")])
        v = ctx.real(f"v{i}", pos=True)
        # every copying / restoring route applied to data of T NOW, whatever happened to other registries before: (route, symbols the
        # data are written in, thunk). The registry obtained must hold the rows of T (a restore is a function of its source alone)
        routes = [("deepcopy", (), lambda: copy.deepcopy(T)), ("copy", (), lambda: copy.copy(T)),
                  ("unit-copy-deep", (FOO,), lambda: unyt.Unit(FOO, registry=T).copy(deep=True).registry),
                  ("deepcopy-array", (FOO, BAR), lambda: copy.deepcopy(unyt.unyt_array([1.0, 2.0], f"k{FOO}/{BAR}", registry=T)).units.registry)]
        if not r.symbolic:
            UR = ctx.mods["UR"]
            routes += [("json", (), lambda: UR.UnitRegistry.from_json(T.to_json())),
                       ("pickle-quantity", (FOO,), lambda: pickle.loads(pickle.dumps(unyt.unyt_quantity(1.5, "k" + FOO, registry=T))).units.registry),
                       ("pickle-stock-array", ("m", "s"), lambda: pickle.loads(pickle.dumps(unyt.unyt_array([1.0, 2.0], "km/s", registry=T))).units.registry),
                       ("pickle-unit", (FOO,), lambda: pickle.loads(pickle.dumps(unyt.Unit("k" + FOO, registry=T))).registry),
                       ("pickle-tuple", (FOO, BAR), lambda: pickle.loads(pickle.dumps((unyt.unyt_quantity(1.5, BAR, registry=T), unyt.Unit(FOO, registry=T))))[1].registry)]
            for own in (XQQ, XNEW, XDU):  # data written in a symbol of the registry's own that another registry may hold as well
                routes.append((f"pickle-quantity-in-{own}", (own,), lambda own=own: pickle.loads(pickle.dumps(unyt.unyt_quantity(2.5, "k" + own, registry=T))).units.registry))
        derived = []
        for route, needs, thunk in routes:
            if not all(n in T.lut for n in needs):
                continue  # the history removed a symbol the data would be written in
            d = call(thunk)
            derived.append(d)
            ok = d[0] == "ok" and d[1] is not T
            req(ctx, f"restored:{route}/a-registry-holding-the-rows-of-its-source",
                ok and conj([same_table(T.lut, d[1].lut), same_table(d[1].lut, T.lut)]
                            + [answer_is(raw_lookup(d[1], ps), table_answer(T.lut, ps)) for ps in (FOO, "k" + FOO, XQQ, "k" + XQQ, "M" + XNEW, "km")]),
                lambda d=d: self.info(source=r.role, got=repr(d[1])[:120] if d[0] == "raise" else table_diff(T.lut, d[1].lut)))
            # ... and is edited at once, BEFORE the next route restores: two routes (or the same route in a later derive step) handing
            # out one memoised registry or table show up as a restored registry that no longer holds the rows of its source
            if d[0] == "ok":
                call(d[1].modify, FOO, v)
                call(d[1].add, XNEW, v, self.D.mass, prefixable=True)
                call(d[1].remove, BAR)
                call(unyt.Unit, "M" + FOO, registry=d[1])

    def mixed(self, i):
        """operations mixing two registries: result bound to the LEFT operand's registry, nothing written anywhere. Every ordered
        pair of registries of the world takes part - the operated ones, the watched source of siblings and the library's DEFAULT
        registry (data made without registry=) - and for every pair the right operand is written (a) in a symbol the left registry
        knows too and (b) in a symbol the left registry LACKS, whichever the history so far provides."""
        ctx, unyt = self.ctx, self.unyt
        x, y = ctx.real(f"x{i}", nonzero=True), ctx.real(f"y{i}", nonzero=True)
        mul, div = (lambda a, b: a * b), (lambda a, b: a / b)
        for L in self.regs:
            qa, qb = call(ctx.quantity, x, FOO, L.reg), call(ctx.quantity, y, BAR, L.reg)
            if qa[0] == "ok" and qb[0] == "ok":
                for nm, f in (("mul", mul), ("div", div)):
                    r = call(f, qa[1], qb[1])
                    req(ctx, f"own:{L.role}/quantity-{nm}/bound-to-own-registry", r[0] == "ok" and r[1].units.registry is L.reg,
                        lambda r=r: self.info(got=Lazy(lambda: repr(r[1])[:200])))
        own = [(r.role, r.reg) for r in self.regs]
        parts = own + list(self.watch)
        refused = ("SymbolNotFoundError", "UnitParseError")
        add, sub = (lambda a, b: a + b), (lambda a, b: a - b)
        for (nl, Lg), (nr, Rg) in itertools.permutations(parts, 2):
            # which operations a pair runs (cut for wall time, stated in BOUNDS): two operated registries - everything; a watched
            # registry (default, source) on the left - quantity mul/div and the temperature rule; on the right - quantity mul and add
            both, wl, wr = (nl, Lg) in own and (nr, Rg) in own, (nl, Lg) not in own, (nr, Rg) not in own
            if Lg is Rg or (wl and wr):
                continue
            lsym = next((n for n in (FOO, "m") if n in Lg.lut), None)
            if lsym is None:
                continue
            # right operand: a TIME symbol (length x time never cancels: a cancelling pair would write a symbolic scale into a sympy expression)
            cand = [n for n in (BAR, XDU, "s") if n in Rg.lut]
            rsyms = [("", next((n for n in cand if n in Lg.lut), None)), ("-foreign", next((n for n in cand if n not in Lg.lut), None))]
            if not both and rsyms[1][1] is not None:
                rsyms = rsyms[1:]  # a watched registry takes part: one spelling of the right operand, the foreign one if there is one
            for kind, rsym in rsyms:
                if rsym is None:
                    continue
                pair = f"mixed:{nl}{nr}"
                if both:
                    uL, uR = call(unyt.Unit, lsym, registry=Lg), call(unyt.Unit, rsym, registry=Rg)
                    if uL[0] != "ok" or uR[0] != "ok":
                        continue
                    for nm, f in (("mul", mul), ("div", div), ("mulpow", lambda a, b: a**2 * b)):
                        r = call(f, uL[1], uR[1])
                        req(ctx, f"{pair}/unit-{nm}{kind}/bound-to-left", r[0] == "ok" and r[1].registry is Lg, lambda r=r: self.info(got=Lazy(lambda: repr(r[1])[:200])))
                qL, qR = call(ctx.quantity, x, lsym, Lg), call(ctx.quantity, y, rsym, Rg)
                if qL[0] != "ok" or qR[0] != "ok":
                    continue
                sL, sR = qL[1].units.base_value, qR[1].units.base_value
                for nm, f, want in (("mul", mul, x * sL * (y * sR)), ("div", div, (x * sL) / (y * sR)))[:1 if wr else 2]:
                    r = call(f, qL[1], qR[1])
                    if r[0] == "ok" and (both or nm == "mul"):
                        # each operand keeps the meaning its own registry gives it: the SI magnitude of the result is the product/quotient
                        # (the quotient only between two operated registries: a solver query each, cut for wall time)
                        req(ctx, f"{pair}/quantity-{nm}{kind}/physical-value",
                            near(payload(r[1])[0] * r[1].units.base_value, want), lambda r=r: self.info(got=Lazy(lambda: repr(r[1])[:200])))
                    if not kind:
                        # unyt may refuse; if it answers, the answer is the left's
                        ok = (r[0] == "raise" and type(r[1]).__name__ in refused) or (r[0] == "ok" and r[1].units.registry is Lg)
                        req(ctx, f"{pair}/quantity-{nm}/bound-to-left", ok, lambda r=r: self.info(got=Lazy(lambda: repr(r[1])[:200])))
                        continue
                    # the left registry cannot express the result (it lacks a symbol). unyt answers from the RIGHT operand's registry
                    # (recorded as a finding by the cases C13/foreign-left/*, which demand the left one); what holds regardless is
                    # that the result belongs to one of the two operands' registries - never to a third one that merely looks alike
                    ok = (r[0] == "raise" and type(r[1]).__name__ in refused) or (r[0] == "ok" and (r[1].units.registry is Lg or r[1].units.registry is Rg))
                    req(ctx, f"{pair}/quantity-{nm}-foreign/bound-to-an-operand-registry", ok, lambda r=r: self.info(got=Lazy(lambda: repr(r[1])[:200])))
                    if r[0] == "ok" and nm == "mul":
                        # converting the product BY STRING resolves the names in the registry the product is bound to: expected from
                        # that registry's raw rows (harness prefix table) and the operands' own scales; the product is kept and
                        # converted again after every later step that edits neither operand's registry
                        G, target = r[1].units.registry, f"k{lsym}*{rsym}"
                        tl, tr = table_atom(G.lut, "k", lsym), table_atom(G.lut, "", rsym)
                        # (only where the left symbol has the SAME scale term in that registry as in the left operand's: otherwise unyt's
                        # unit comparison inside the conversion is a symbolic near-tie question and forks every path)
                        if tl is not None and tr is not None and eq(G.lut[lsym][0], Lg.lut[lsym][0]) is True:
                            c, want_c = call(lambda: r[1].to(target)), want / (tl[0] * tr[0])
                            req(ctx, f"{pair}/quantity-mul-foreign/converts-by-string", conj([c[0] == "ok", c[0] != "ok" or close(payload(c[1])[0], want_c)]),
                                lambda c=c: self.info(to=target, got=Lazy(lambda: repr(c[1])[:160])))
                            if c[0] == "ok":
                                self.kept.append(dict(label=f"{nl}*{nr}-foreign", q=r[1], to=target, was=payload(c[1])[0], roles={nl, nr}))
            # additive operations and the one rule that returns the SECOND operand's unit (temperature difference + temperature point);
            # stock symbols with concrete rows that no step of the alphabet edits ("s"; the temperature scales)
            if not wl and "s" in Lg.lut and "s" in Rg.lut:
                qa, qb = call(ctx.quantity, x, "ms", Lg), call(ctx.quantity, y, "s", Rg)
                if qa[0] == "ok" and qb[0] == "ok":
                    for nm, f, want in (("add", add, x * 1e-3 + y), ("sub", sub, x * 1e-3 - y))[:2 if both else 1]:
                        r = call(f, qa[1], qb[1])
                        req(ctx, f"mixed:{nl}{nr}/quantity-{nm}/bound-to-left", r[0] == "ok" and r[1].units.registry is Lg, lambda r=r: self.info(got=Lazy(lambda: repr(r[1])[:200])))
                        if r[0] == "ok" and both:
                            req(ctx, f"mixed:{nl}{nr}/quantity-{nm}/physical-value", close(payload(r[1])[0] * r[1].units.base_value, want, extra=band(x * 1e-3, y)),
                                lambda r=r: self.info(got=Lazy(lambda: repr(r[1])[:200])))
            if not wr and "delta_degC" in Lg.lut and "degC" in Rg.lut:
                qa, qb = call(ctx.quantity, x, "delta_degC", Lg), call(ctx.quantity, y, "degC", Rg)
                if qa[0] == "ok" and qb[0] == "ok":
                    r = call(add, qa[1], qb[1])
                    req(ctx, f"mixed:{nl}{nr}/quantity-add-temperature/bound-to-an-operand-registry",
                        r[0] == "ok" and (r[1].units.registry is Lg or r[1].units.registry is Rg), lambda r=r: self.info(got=Lazy(lambda: repr(r[1])[:200])))

    def default_ops(self, i):
        ctx, unyt, DEF = self.ctx, self.unyt, self.DEF
        v = ctx.real(f"v{i}")  # ANY real, also non-positive
        before = digest(unyt, DEF, self.rnd)
        for sym in ("m", "g", "km", "k" + FOO, FOO, "degC", "nosuchsymbol"):
            for what, f in (("modify-float", lambda: DEF.modify(sym, v)), ("modify-quantity", lambda: DEF.modify(sym, ctx.quantity(v, "cm"))),
                            ("remove", lambda: DEF.remove(sym))):
                r = call(f)
                req(ctx, f"default-registry/{what}/refuses", r[0] == "raise" and type(r[1]) is TypeError,
                    lambda: self.info(symbol=sym, got="returned" if r[0] == "ok" else repr(r[1])))
        req(ctx, "default-registry/unchanged-by-refused-edits", same_digest(before, digest(unyt, DEF, self.rnd)), lambda: self.info())
        # the sanctioned way to change the default registry; every other registry must not notice
        if XQQ not in DEF.lut:
            self.dirty_default = True
            # a registry of the world may hold the same symbol already (configuration `collide`): then the default registry is given
            # the very same definition (equal rows in two registries); otherwise a symbolic one
            held = [x.reg.lut[XQQ][0] for x in self.regs if XQQ in x.reg.lut and not isinstance(x.reg.lut[XQQ][0], SymReal)]
            r = call(unyt.define_unit, XQQ, (COLLIDE_VALUE if held else ctx.real(f"q{i}", pos=True), "m"), prefixable=True)
            req(ctx, "default-registry/define_unit/accepted", r[0] == "ok" and XQQ in DEF.lut and hasattr(unyt, XQQ), lambda: self.info(got=repr(r[1])))
            call(unyt.Unit, "k" + XQQ)

    def cleanup(self):
        """define_unit on the process-wide default registry must not leak into the next path"""
        if self.dirty_default:
            DEF, unyt = self.DEF, self.unyt
            for k in [k for k in DEF.lut if k.endswith(XQQ)]:
                del DEF.lut[k]
            for k in [k for k in DEF._unit_object_cache if XQQ in k]:
                del DEF._unit_object_cache[k]
            DEF._unit_system_id = None
            if hasattr(unyt, XQQ):
                delattr(unyt, XQQ)


# ------------------------------------------------------------------------------------ the left registry lacks a symbol of the right operand

def make_foreign_case(left):
    """`operations mixing two registries use the left operand's registry`, asked where the left registry cannot express the result:
    the right operand is written in a symbol only ITS registry has (a quantity in a user's unit times/over plain default-registry
    data), or the rule hands back the second operand's unit (temperature difference + temperature point). Separate cases, so that
    what they show on the unchanged library is recorded under a narrow fingerprint."""
    def h(ctx):
        unyt, UR, D = ctx.mods["unyt"], ctx.mods["UR"], ctx.mods["unyt"].dimensions
        Lg = UR.default_unit_registry if left == "default" else UR.UnitRegistry(unit_system="cgs") if left == "cgs" else UR.UnitRegistry()
        Rg = UR.UnitRegistry()
        sR = ctx.real("sR", pos=True)
        Rg.add(BAR, sR, D.time)
        x, y = ctx.real("x", nonzero=True), ctx.real("y", nonzero=True)
        qL, qR = ctx.quantity(x, "m", Lg), ctx.quantity(y, BAR, Rg)
        before = dict(Lg.lut), dict(Rg.lut)
        for nm, f, want in (("mul", lambda a, b: a * b, x * (y * sR)), ("div", lambda a, b: a / b, x / (y * sR))):
            r = call(f, qL, qR)
            ok = (r[0] == "raise" and type(r[1]).__name__ in ("SymbolNotFoundError", "UnitParseError")) or (r[0] == "ok" and r[1].units.registry is Lg)
            ctx.require(f"foreign:quantity-{nm}/bound-to-left", ok, got=repr(r[1])[:200])
            if r[0] == "ok":
                ctx.require(f"foreign:quantity-{nm}/physical-value", close(payload(r[1])[0] * r[1].units.base_value, want), got=repr(r[1])[:200])
                ctx.require(f"foreign:quantity-{nm}/bound-to-an-operand-registry", r[1].units.registry is Lg or r[1].units.registry is Rg)
        r = call(lambda: ctx.quantity(x, "delta_degC", Lg) + ctx.quantity(y, "degC", Rg))
        ctx.require("foreign:temperature-difference-plus-point/bound-to-left", r[0] == "ok" and r[1].units.registry is Lg, got=repr(r[1])[:200])
        ctx.require("foreign:nothing-written", conj([same_table(before[0], dict(Lg.lut)), same_table(before[1], dict(Rg.lut))]))

    c = Case(f"C13/foreign-left/{left}", h, bounds="one history", budget_s=600, max_paths=2000)
    c.warm_ok = False  # shows a recorded finding: never used as a warm-up
    c.warm_target = False
    return c

# ------------------------------------------------------------------------------------ shared Unit objects keep their registry
#
# Calls that take data/units bound to ONE registry together with `registry=` (or a Unit) of ANOTHER one. The Unit object the call is
# handed may be shared: it is the object exported as unyt.km, or the .units of arrays that are still alive. Whatever the call builds
# for registry A, that shared object must stay bound to the registry it came from and keep its definition.

REBIND_CARRIERS = {
    # name: (how the shared Unit object is obtained, symbol of its registry that converts it, dimension base symbol)
    "ns_km": ("ns", "km", "m", 1000.0), "ns_g": ("ns", "g", "kg", 0.001), "ns_s": ("ns", "s", "s", 1.0),
    "ns_dimensionless": ("ns", "dimensionless", "dimensionless", 1.0),
    "live_default_km": ("live_default", "km", "m", 1000.0), "live_B_km": ("live_B", "km", "m", 1000.0), "live_B_foo": ("live_B", FOO, "m", None),
}
REBIND_STEPS = ["list", "tuple", "list_positional", "list_converted", "list_bare_first", "arr", "arr_unit", "qty", "qty_from_arr0", "data_unit", "qty_unit",
                "data_unit_positional", "unit_unit", "unit_unit_positional", "to_unitA", "convert_to_unitA", "mul_unitA", "unitA_mul_unit", "ufunc_mul", "ufunc_mul_unit",
                "np_multiply", "add", "iadd", "uconcatenate", "uhstack", "setitem", "ucross", "data_unit_bypass", "qty_unit_bypass"]


def make_rebind_case(stepname, carrier):
    how, sym, base, factor = REBIND_CARRIERS[carrier]

    def h(ctx):
        clear_caches(ctx.mods)
        unyt, UR, D = ctx.mods["unyt"], ctx.mods["UR"], ctx.mods["unyt"].dimensions
        np_ = __import__("numpy")
        ua, uq, Unit, DEF = unyt.unyt_array, unyt.unyt_quantity, unyt.Unit, UR.default_unit_registry
        A, B = UR.UnitRegistry(), UR.UnitRegistry()
        sB = ctx.real("sB", pos=True)
        B.add(FOO, sB, D.length, prefixable=True)
        S = B if how == "live_B" else DEF
        fac = sB if factor is None else factor
        x, y = ctx.real("x", nonzero=True), ctx.real("y", nonzero=True)
        z = ctx.reals("z", (2,), nonzero=True)
        if how == "ns":
            U = getattr(unyt, sym)
        else:
            U = ctx.quantity(ctx.reals("w", (2,)), sym, S).units  # the unit object of an array that stays alive
        q1, q2, arrS = ctx.quantity(x, U), ctx.quantity(y, U), ctx.quantity(z, U)
        live = [q1, q2, arrS]
        ctx.assume(all(o.units is U for o in live) and U.registry is S)
        lenA = base if base != "dimensionless" else "dimensionless"
        arrA = ctx.quantity(ctx.reals("a", (2,), nonzero=True), "s", A)         # A-bound, other dimension
        arrAl = ctx.quantity(ctx.reals("b", (2,), nonzero=True), lenA, A)       # A-bound, same dimension as the shared unit
        ns0 = ns_digest(unyt)
        tabs0 = dict(DEF.lut), dict(B.lut)
        bv0, bo0 = U.base_value, U.base_offset

        def raw():
            d = __import__("numpy").empty(2, dtype=object)
            d[0], d[1] = x, y
            return d

        steps = {
            "list": lambda: ua([q1, q2], registry=A), "tuple": lambda: ua((q1, q2), registry=A), "list_positional": lambda: ua([q1, q2], None, A),
            "list_converted": lambda: ua([q1, ctx.quantity(y, base, S)], registry=A),
            "list_bare_first": lambda: ua([ctx.quantity(x, "dimensionless"), q2] if sym == "dimensionless" else [q1, q2, q1], registry=A),
            "arr": lambda: ua(arrS, registry=A), "arr_unit": lambda: ua(arrS, U, registry=A), "qty": lambda: uq(q1, registry=A),
            "qty_from_arr0": lambda: uq(arrS[0], registry=A), "data_unit": lambda: ua(raw(), U, registry=A), "qty_unit": lambda: uq(x, U, registry=A),
            "data_unit_positional": lambda: ua(raw(), U, A), "unit_unit": lambda: Unit(U, registry=A), "unit_unit_positional": lambda: Unit(U, None, None, None, A),
            "to_unitA": lambda: q1.to(Unit(lenA, registry=A)), "convert_to_unitA": lambda: arrS.copy().convert_to_units(Unit(lenA, registry=A)),
            "mul_unitA": lambda: q1 * Unit("s", registry=A), "unitA_mul_unit": lambda: Unit("s", registry=A) * U,
            "ufunc_mul": lambda: arrA * q1, "ufunc_mul_unit": lambda: arrA * U, "np_multiply": lambda: np_.multiply(arrA, arrS),
            "add": lambda: arrAl + arrS, "iadd": lambda: arrAl.__iadd__(arrS), "uconcatenate": lambda: unyt.uconcatenate([arrAl, arrS]),
            "uhstack": lambda: unyt.uhstack([arrAl, arrS]), "setitem": lambda: arrAl.__setitem__(slice(0, 2), [q1, q2]),
            "ucross": lambda: unyt.ucross(ctx.quantity(ctx.reals("c", (3,)), "s", A), ctx.quantity(ctx.reals("d", (3,)), U), registry=A),
            "data_unit_bypass": lambda: ua(raw(), U, registry=A, bypass_validation=True),
            "qty_unit_bypass": lambda: uq(x, U, registry=A, bypass_validation=True),
        }
        # arr_unit: unyt keeps the Unit object it is handed next to an unyt_array and ignores registry= there (binding, not isolation: no demand)
        takes_registry = ("list", "tuple", "list_positional", "list_converted", "list_bare_first", "arr", "qty", "qty_from_arr0", "data_unit",
                          "qty_unit", "data_unit_positional", "unit_unit", "unit_unit_positional", "data_unit_bypass", "qty_unit_bypass")

        def shared(tag):
            ctx.require(f"rebind:{tag}/shared-unit-keeps-its-registry", U.registry is S, got=f"{U!r} bound to {'A' if U.registry is A else type(U.registry).__name__}")
            ctx.require(f"rebind:{tag}/live-objects-keep-unit-and-registry", all(o.units is U or (o.units == U and o.units.registry is S) for o in live))
            ctx.require(f"rebind:{tag}/shared-unit-keeps-its-definition", conj([eq(U.base_value, bv0), eq(U.base_offset, bo0)]))
            names_ok = all(getattr(getattr(unyt, n), "units", getattr(unyt, n)).registry is DEF for n in NS_NAMES + ["dimensionless"])
            ctx.require(f"rebind:{tag}/namespace-units-bound-to-default-registry", names_ok)
            ns1 = ns_digest(unyt)
            ctx.require(f"rebind:{tag}/namespace-unchanged", ns1 == ns0, changed=ns_diff(ns0, ns1))
            ctx.require(f"rebind:{tag}/default-and-B-tables-unchanged", conj([same_table(tabs0[0], dict(DEF.lut)), same_table(tabs0[1], dict(B.lut))]))
            r = call(lambda: q1.to(base))
            ctx.require(f"rebind:{tag}/conversion-of-live-quantity", r[0] == "ok" and bool(close(payload(r[1])[0], x * fac)), got=repr(r[1])[:200])
            r = call(lambda: (ctx.quantity(y, U)).to(base))
            ctx.require(f"rebind:{tag}/conversion-through-shared-unit", r[0] == "ok" and bool(close(payload(r[1])[0], y * fac)), got=repr(r[1])[:200])

        try:
            r = call(steps[stepname])  # the new object stays alive across the edit
            ctx.note(step=stepname, outcome=r[0], result=repr(r[1])[:120])
            if r[0] == "ok" and stepname in takes_registry:
                got = r[1].registry if isinstance(r[1], Unit) else r[1].units.registry
                ctx.require("rebind:step/new-object-bound-to-A", got is A, got=type(got).__name__)
            shared("step")
            # registry A now changes what the shared unit's dimension base means
            row = {"m": "m", "kg": "g", "s": "s", "dimensionless": "K"}[base]
            A.modify(row, ctx.real("mA", pos=True))
            A.modify("g" if row == "m" else "m", ctx.real("mA2", pos=True))
            shared("step+edit-of-A")
        finally:
            # a library that rebinds a shared Unit object would carry that into every later case of this worker process
            for u in [U] + [getattr(getattr(unyt, n), "units", getattr(unyt, n)) for n in NS_NAMES + ["dimensionless"]]:
                want = S if u is U else DEF
                if u.registry is not want:
                    u.registry = want

    c = Case(f"C13/rebind/{stepname}/{carrier}", h, bounds="one call, then an edit of the receiving registry", budget_s=600, max_paths=2000)
    c.warm_ok = False
    c.warm_target = False
    return c


def alphabet(config):
    roles = ["A", "B", "C"][:len(config)]
    ops = [f"{e}@{r}" for r in roles for e in EDITS]
    return ops + ["derive@A", "mixed", "default"] + (["derive@B"] if config[0] == "collide" else [])


def make_case(config, prefix, nmax):
    alpha = alphabet(config)

    def h(ctx):
        # the runner resets the library at the start of every path and of every concrete run. After a warm-up (history axis:
        # another case of this harness ran first in the same path) nothing is cleared: what it left in unyt's memo layers stays
        if ctx.warming:
            ctx.c13_warmed = True
        elif not getattr(ctx, "c13_warmed", False):
            clear_caches(ctx.mods)
        w = World(ctx, config)
        try:
            for i in range(nmax):
                if i < len(prefix):
                    op = prefix[i]
                else:
                    k = sel(ctx, f"op{i}", len(alpha) + 1)
                    if k == 0:
                        break
                    op = alpha[k - 1]
                w.step(i, op)
            if w.mc is not None:
                w.mc["traces"] += 1
        finally:
            w.cleanup()

    n_ext = sum(len(alpha) ** k for k in range(0, nmax - len(prefix) + 1))
    c = Case(f"C13/{'+'.join(config)}/{'.'.join(prefix) or 'empty'}", h, bounds=f"all extensions to length {nmax}: {n_ext} interleavings",
             budget_s=3000, max_paths=200000, weight=n_ext)
    # history axis (symx.warm): a warm variant re-explores ALL interleavings of its case after the warm-up; the depth-4 cases (1464
    # interleavings each) are used as warm-ups but not re-explored warm (wall time, stated in BOUNDS)
    c.warm_target = n_ext <= 300
    return c


CONFIGS2 = [("defaults", "indep_defaults"), ("defaults", "indep_same"), ("empty", "indep_defaults"), ("defaults", "indep_empty"), ("cgs", "indep_defaults"),
            ("lut", "lut_copy"), ("defaults", "json"), ("defaults", "pickle"), ("defaults", "deepcopy"), ("defaults", "copy_deep"),
            ("defaults", "copy_shallow"), ("defaults", "copy_shallow_str"), ("defaults", "copy_registry"), ("cgs", "copy_registry"),
            ("defaults", "copy_default")]
QUICK_SKIP = [("defaults", "indep_empty"), ("defaults", "copy_deep"), ("defaults", "copy_shallow_str"), ("cgs", "copy_registry")]
NAMESPACE_CONFIGS = [("defaults", "indep_defaults"), ("cgs", "indep_defaults"), ("defaults", "deepcopy"), ("defaults", "copy_shallow")]
LONG = [("defaults", "indep_defaults"), ("defaults", "deepcopy"), ("defaults", "copy_shallow"), ("defaults", "pickle")]
CONFIGS3 = [("defaults", "deepcopy", "indep_empty"), ("defaults", "copy_shallow", "indep_cgs"), ("defaults", "pickle", "indep_defaults")]
# registries born together from one source (the source is watched, never operated on)
SIBLINGS = [("defaults", "sib_pickle_tuple"), ("cgs", "sib_pickle_tuple"), ("defaults", "sib_pickle_nested"), ("defaults", "sib_pickle_unit_qty"),
            ("defaults", "sib_pickle_units"), ("defaults", "sib_pickle_loads_twice"), ("defaults", "sib_pickle_dumps_twice"),
            ("defaults", "sib_json_twice"), ("lut", "sib_json_twice"), ("defaults", "sib_deepcopy_tuple"), ("defaults", "sib_deepcopy_units"),
            ("defaults", "sib_deepcopy_registries"), ("defaults", "sib_copy_twice"), ("cgs", "sib_copy_twice"),
            ("defaults", "sib_unit_copy_deep_twice"), ("defaults", "sib_lut_copy_twice")]
# a registry that redefines a prefixable STOCK symbol ("m") next to registries (and the default one) that do not
MODM = [("modm", "indep_defaults"), ("modm", "deepcopy"), ("modm", "indep_same")]
NEW_QUICK_SKIP = [("cgs", "sib_copy_twice"), ("lut", "sib_json_twice"), ("defaults", "sib_pickle_dumps_twice")]
NEW_LONG = [("defaults", "sib_pickle_tuple"), ("defaults", "sib_pickle_unit_qty"), ("defaults", "sib_json_twice"), ("defaults", "sib_deepcopy_tuple"),
            ("defaults", "sib_copy_twice"), ("modm", "indep_defaults")]


# source = the library's DEFAULT registry: registries obtained from default-bound data (what every user has) by every sibling route
FROM_DEFAULT = [("default", h) for h in ("sib_deepcopy_tuple", "sib_deepcopy_units", "sib_deepcopy_qty_arr", "sib_deepcopy_unit_copy", "sib_unit_copy_deep_twice",
                                         "sib_deepcopy_registries", "sib_pickle_tuple", "sib_pickle_unit_qty", "sib_pickle_units", "sib_pickle_nested",
                                         "sib_pickle_loads_twice", "sib_pickle_dumps_twice", "sib_json_twice", "sib_copy_twice", "sib_lut_copy_twice")]
FROM_DEFAULT_QUICK_SKIP = [("default", h) for h in ("sib_pickle_nested", "sib_pickle_loads_twice", "sib_pickle_dumps_twice", "sib_pickle_units", "sib_deepcopy_registries",
                                                    "sib_lut_copy_twice", "sib_deepcopy_unit_copy")]
FROM_DEFAULT_LONG = [("default", "sib_deepcopy_tuple"), ("default", "sib_pickle_unit_qty")]


# a table handed over by reference from every kind of donor (ref_: add_default_symbols=False, refd_: True), next to an independent registry
REF = [(f"{h}_{d}", "indep_defaults") for d in REF_DONORS for h in ("ref", "refd")]
REF_LONG = [("ref_fresh", "indep_defaults"), ("refd_pickleqty", "indep_defaults")]
# a registry holding a symbol that the default registry is given too (same definition), and every copying / restoring route next to it
COLLIDE = [("collide", h) for h in ("pickle", "json", "deepcopy", "sib_pickle_tuple", "sib_pickle_unit_qty", "sib_json_twice")]


def cases(tier, mods):
    check_names(mods, NAMES + [XDU, "xwr"])
    out = []
    if tier == "quick":
        plan = [(c, 3) for c in CONFIGS2 if c not in QUICK_SKIP]
    else:
        plan = [(c, 4 if c in LONG else 3) for c in CONFIGS2] + [(c, 3) for c in CONFIGS3]
    for config, nmax in plan:
        for first in alphabet(config):
            out.append(make_case(config, (first,), nmax))
        if config in NAMESPACE_CONFIGS:
            for pre in (("namespace@A",), ("modify@A", "namespace@A", "modify@B"), ("mk_pref@B", "namespace@B", "add_new@A", "namespace@A")):
                out.append(make_case(config, pre, len(pre)))
    for config in SIBLINGS + MODM + FROM_DEFAULT:
        if tier == "quick":
            if config not in NEW_QUICK_SKIP + FROM_DEFAULT_QUICK_SKIP:
                out.append(make_case(config, (), 2))  # all histories of length <= 2 in one case
        elif config in NEW_LONG + FROM_DEFAULT_LONG:
            for first in alphabet(config):
                out.append(make_case(config, (first,), 3))
        else:
            out.append(make_case(config, (), 2))
    for config in REF + COLLIDE:
        long = config in (REF_LONG + COLLIDE if tier == "quick" else REF + COLLIDE)
        out.append(make_case(config, (), 2 if long else 1))
    out += [make_foreign_case(left) for left in ("default", "defaults", "cgs")]
    out += [make_rebind_case(st, ca) for st in REBIND_STEPS for ca in REBIND_CARRIERS]
    return out


CONFORM = {"quick": 24, "thorough": 48}


def coverage_extra(results, tier):
    d = merge_mc(results)
    d["interleavings"] = d["traces_validated_against_impl"]
    d["exhaustive"] = False
    return d
